/-
  Edn.Proofs.Reject — C10: no result carries both a value and an error code or neither; every
  error has a non-OK code; the error class of each defect family, stated on the reader's steps.
-/
import Edn.Proofs.Fuel

namespace Edn.Proofs
open Edn.Model

/-! ## helper predicates -/

/-- an error result (if it is one) has the code `c` -/
def _root_.Edn.Model.Res.codeIs (c : Err) : Res → Bool
  | .err e _ => decide (e.code = c)
  | _ => true

/-- an error result (if it is one) has a code other than OK -/
def _root_.Edn.Model.Res.errNotOk : Res → Bool
  | .err e _ => decide (e.code ≠ .ok)
  | _ => true

theorem leaf_codeIs (ctx : Ctx) (st : St) :
    (readString ctx st).codeIs .invalidString = true ∧
    (readCharacter ctx st).codeIs .invalidCharacter = true ∧
    (readIdentifier ctx st).codeIs .invalidSyntax = true ∧
    (readSymbolic ctx st).codeIs .invalidSyntax = true ∧
    (readNumberRes ctx st).codeIs .invalidNumber = true := by
  refine ⟨?_, ?_, ?_, ?_, ?_⟩
  · unfold readString
    simp only []
    repeat' split
    all_goals rfl
  · rw [readCharacter_eq]
    repeat' split
    all_goals rfl
  · unfold readIdentifier
    simp only []
    repeat' split
    all_goals rfl
  · unfold readSymbolic
    simp only []
    repeat' split
    all_goals rfl
  · unfold readNumberRes
    simp only []
    repeat' split
    all_goals rfl

theorem codeIs_err {c : Err} {r : Res} {e : ErrInfo} {st' : St} (h : r.codeIs c = true) (hr : r = .err e st') :
    e.code = c := by
  subst hr
  simpa [Res.codeIs] using h

theorem codeIs_errNotOk {c : Err} {r : Res} (h : r.codeIs c = true) (hc : c ≠ Err.ok) :
    r.errNotOk = true := by
  cases r with
  | ok v st => rfl
  | closer st => rfl
  | err e st =>
    have : e.code = c := codeIs_err h rfl
    simp only [Res.errNotOk, this, decide_eq_true_eq]
    exact hc

theorem leaf_errNotOk (ctx : Ctx) (st : St) :
    (readString ctx st).errNotOk = true ∧ (readCharacter ctx st).errNotOk = true ∧
    (readIdentifier ctx st).errNotOk = true ∧ (readSymbolic ctx st).errNotOk = true ∧
    (readNumberRes ctx st).errNotOk = true := by
  obtain ⟨h1, h2, h3, h4, h5⟩ := leaf_codeIs ctx st
  exact ⟨codeIs_errNotOk h1 (by decide), codeIs_errNotOk h2 (by decide), codeIs_errNotOk h3 (by decide),
    codeIs_errNotOk h4 (by decide), codeIs_errNotOk h5 (by decide)⟩

theorem errNotOk_err {r : Res} {e : ErrInfo} {st' : St} (h : r.errNotOk = true) (hr : r = .err e st') :
    e.code ≠ .ok := by
  subst hr
  simpa [Res.errNotOk] using h

def EkV (RV : RVT) : Prop := ∀ d dm st, (RV d dm st).errNotOk = true
def EkS (RS : RST) : Prop := ∀ d dm kind start st acc, (RS d dm kind start st acc).errNotOk = true
def EkM (RM : RMT) : Prop := ∀ d dm start ns st ks vs, (RM d dm start ns st ks vs).errNotOk = true
def Ek4 (R : R4T) : Prop := ∀ d dm start st, (R d dm start st).errNotOk = true

theorem rvStep_errNotOk (ctx : Ctx) {RV : RVT} {RS : RST} {RM : RMT} {RN RT RMe : R4T}
    (hV : EkV RV) (hS : EkS RS) (hM : EkM RM) (hN : Ek4 RN) (hT : Ek4 RT) (hMe : Ek4 RMe)
    (d : Nat) (dm : Bool) (calls : List Call) (c : UInt8) (cs : Bytes) :
    (rvStep ctx RV RS RM RN RT RMe d dm calls c cs).errNotOk = true := by
  unfold rvStep
  simp only []
  obtain ⟨l1, l2, l3, l4, l5⟩ := leaf_errNotOk ctx { rest := c :: cs, calls := calls }
  cases hdisp : dispatch ctx.cfg c with
  | string => exact l1
  | character => exact l2
  | listOpen =>
    simp only []
    split
    · rfl
    · exact hS _ _ _ _ _ _
  | vectorOpen =>
    simp only []
    split
    · rfl
    · exact hS _ _ _ _ _ _
  | mapOpen =>
    simp only []
    split
    · rfl
    · exact hM _ _ _ _ _ _ _
  | hash =>
    simp only []
    cases cs with
    | nil => simp only []; exact hT _ _ _ _
    | cons nx cs' =>
      simp only []
      split
      · exact l4
      split
      · rfl
      split
      · exact hS _ _ _ _ _ _
      split
      · have h1 := hV (d + 1) true { rest := cs', calls := calls }
        cases hr : RV (d + 1) true { rest := cs', calls := calls } with
        | ok v st' => simp only []; exact hV _ _ _
        | closer st' => rfl
        | err e st' => rw [hr] at h1; exact h1
      split
      · exact hN _ _ _ _
      · exact hT _ _ _ _
  | sign =>
    simp only []
    cases cs with
    | nil => exact l3
    | cons nx t =>
      simp only []
      split
      · exact l5
      · exact l3
  | digit => exact l5
  | delimiter =>
    simp only []
    split <;> rfl
  | metadata =>
    simp only []
    split
    · rfl
    · exact hMe _ _ _ _
  | identifier => exact l3

theorem rvOuter_errNotOk (ctx : Ctx) {RV : RVT} {RS : RST} {RM : RMT} {RN RT RMe : R4T}
    (hV : EkV RV) (hS : EkS RS) (hM : EkM RM) (hN : Ek4 RN) (hT : Ek4 RT) (hMe : Ek4 RMe)
    (d : Nat) (dm : Bool) (st : St) :
    (rvOuter ctx RV RS RM RN RT RMe d dm st).errNotOk = true := by
  unfold rvOuter
  cases hs : st.rest with
  | nil => rfl
  | cons c0 t =>
    simp only []
    cases hw : (if isPreWs c0 = true then skipWs (c0 :: t) else c0 :: t) with
    | nil => rfl
    | cons c cs =>
      simp only []
      exact rvStep_errNotOk ctx hV hS hM hN hT hMe d dm st.calls c cs

theorem rsStep_errNotOk (ctx : Ctx) {RV : RVT} {RS : RST} (hV : EkV RV) (hS : EkS RS)
    (d : Nat) (dm : Bool) (kind start : Nat) (st : St) (acc : List Val) :
    (rsStep ctx RV RS d dm kind start st acc).errNotOk = true := by
  unfold rsStep
  have h1 := hV (d + 1) dm st
  cases hr : RV (d + 1) dm st with
  | ok v st' => simp only []; exact hS _ _ _ _ _ _
  | err e st' =>
    rw [hr] at h1
    simp only []
    split
    · rfl
    · exact h1
  | closer st' =>
    simp only []
    repeat' split
    all_goals rfl

theorem rmStep_errNotOk (ctx : Ctx) {RV : RVT} {RM : RMT} (hV : EkV RV) (hM : EkM RM)
    (d : Nat) (dm : Bool) (start : Nat) (ns : Option Bytes) (st : St) (ks vs : List Val) :
    (rmStep ctx RV RM d dm start ns st ks vs).errNotOk = true := by
  unfold rmStep
  simp only []
  have h1 := hV (d + 1) dm st
  cases hr : RV (d + 1) dm st with
  | ok k st' =>
    simp only []
    have h2 := hV (d + 1) dm st'
    cases hr2 : RV (d + 1) dm st' with
    | ok v st'' => simp only []; exact hM _ _ _ _ _ _ _
    | err e st'' =>
      rw [hr2] at h2
      simp only []
      split
      · rfl
      · exact h2
    | closer st'' => rfl
  | err e st' =>
    rw [hr] at h1
    simp only []
    split
    · rfl
    · exact h1
  | closer st' =>
    simp only []
    repeat' split
    all_goals rfl

theorem rnStep_errNotOk (ctx : Ctx) {RV : RVT} {RM : RMT} (hV : EkV RV) (hM : EkM RM)
    (d : Nat) (dm : Bool) (start : Nat) (st : St) :
    (rnStep ctx RV RM d dm start st).errNotOk = true := by
  unfold rnStep
  have h1 := hV d dm st
  cases hr : RV d dm st with
  | closer st' => rfl
  | err e st' => rw [hr] at h1; exact h1
  | ok kwv st' =>
    simp only []
    split
    · split
      · split
        · exact hM _ _ _ _ _ _ _
        · rfl
      · rfl
    · rfl

theorem rtStep_errNotOk (ctx : Ctx) {RV : RVT} (hV : EkV RV)
    (d : Nat) (dm : Bool) (start : Nat) (st : St) :
    (rtStep ctx RV d dm start st).errNotOk = true := by
  unfold rtStep
  simp only []
  split
  · rfl
  · split
    · rfl
    · have h2 := (leaf_errNotOk ctx st).2.2.1
      cases hr : readIdentifier ctx st with
      | closer st' => rfl
      | err e st' => rw [hr] at h2; exact h2
      | ok tagv st' =>
        simp only []
        split
        · have h3 := hV (d + 1) dm st'
          cases hr2 : RV (d + 1) dm st' with
          | closer st'' => rfl
          | err e st'' => rw [hr2] at h3; exact h3
          | ok v st'' =>
            simp only []
            repeat' split
            all_goals rfl
        · rfl

theorem rmeStep_errNotOk (ctx : Ctx) {RV : RVT} (hV : EkV RV)
    (d : Nat) (dm : Bool) (start : Nat) (st : St) :
    (rmeStep ctx RV d dm start st).errNotOk = true := by
  unfold rmeStep
  simp only []
  have h1 := hV (d + 1) dm st
  cases hr : RV (d + 1) dm st with
  | closer st' => rfl
  | err e st' => rw [hr] at h1; exact h1
  | ok m st' =>
    simp only []
    split
    · rfl
    · have h2 := hV (d + 1) dm st'
      cases hr2 : RV (d + 1) dm st' with
      | closer st'' => rfl
      | err e st'' => rw [hr2] at h2; exact h2
      | ok form st'' => simp only []; split <;> rfl

theorem reader_errNotOk (ctx : Ctx) : ∀ (f : Nat),
    EkV (readValue ctx f) ∧ EkS (readSeq ctx f) ∧ EkM (readMap ctx f) ∧ Ek4 (readNsMap ctx f) ∧
    Ek4 (readTagged ctx f) ∧ Ek4 (readMeta ctx f) := by
  intro f
  induction f with
  | zero =>
    refine ⟨?_, ?_, ?_, ?_, ?_, ?_⟩
    · intro d dm st; rw [readValue_zero]; rfl
    · intro d dm kind start st acc; rw [readSeq_zero]; rfl
    · intro d dm start ns st ks vs; rw [readMap_zero]; rfl
    · intro d dm start st; rw [readNsMap_zero]; rfl
    · intro d dm start st; rw [readTagged_zero]; rfl
    · intro d dm start st; rw [readMeta_zero]; rfl
  | succ f ih =>
    obtain ⟨hV, hS, hM, hN, hT, hMe⟩ := ih
    refine ⟨?_, ?_, ?_, ?_, ?_, ?_⟩
    · intro d dm st; rw [readValue_succ]; exact rvOuter_errNotOk ctx hV hS hM hN hT hMe d dm st
    · intro d dm kind start st acc; rw [readSeq_succ]; exact rsStep_errNotOk ctx hV hS d dm kind start st acc
    · intro d dm start ns st ks vs; rw [readMap_succ]; exact rmStep_errNotOk ctx hV hM d dm start ns st ks vs
    · intro d dm start st; rw [readNsMap_succ]; exact rnStep_errNotOk ctx hV hM d dm start st
    · intro d dm start st; rw [readTagged_succ]; exact rtStep_errNotOk ctx hV d dm start st
    · intro d dm start st; rw [readMeta_succ]; exact rmeStep_errNotOk ctx hV d dm start st

/-! ## byte facts -/

theorem dispatch_closer (cfg : Cfg) (c : UInt8) (hc : c = 0x29 ∨ c = 0x5D ∨ c = 0x7D) :
    dispatch cfg c = .delimiter ∧ isPreWs c = false := by
  obtain ⟨clj, exp⟩ := cfg
  rcases hc with rfl | rfl | rfl <;> cases clj <;> cases exp <;> exact ⟨by decide +kernel, by decide +kernel⟩

/-- every error any reader function returns has a code other than OK -/
theorem reader_err_code (ctx : Ctx) : ∀ (f : Nat),
    (∀ d dm st e st', readValue ctx f d dm st = .err e st' → e.code ≠ .ok) ∧
    (∀ d dm kind start st acc e st', readSeq ctx f d dm kind start st acc = .err e st' → e.code ≠ .ok) ∧
    (∀ d dm start ns st ks vs e st', readMap ctx f d dm start ns st ks vs = .err e st' → e.code ≠ .ok) ∧
    (∀ d dm start st e st', readNsMap ctx f d dm start st = .err e st' → e.code ≠ .ok) ∧
    (∀ d dm start st e st', readTagged ctx f d dm start st = .err e st' → e.code ≠ .ok) ∧
    (∀ d dm start st e st', readMeta ctx f d dm start st = .err e st' → e.code ≠ .ok) := by
  intro f
  obtain ⟨hV, hS, hM, hN, hT, hMe⟩ := reader_errNotOk ctx f
  refine ⟨?_, ?_, ?_, ?_, ?_, ?_⟩
  · intro d dm st e st' h; exact errNotOk_err (hV d dm st) h
  · intro d dm kind start st acc e st' h; exact errNotOk_err (hS d dm kind start st acc) h
  · intro d dm start ns st ks vs e st' h; exact errNotOk_err (hM d dm start ns st ks vs) h
  · intro d dm start st e st' h; exact errNotOk_err (hN d dm start st) h
  · intro d dm start st e st' h; exact errNotOk_err (hT d dm start st) h
  · intro d dm start st e st' h; exact errNotOk_err (hMe d dm start st) h

/-- top level: exactly one of value / end-of-input value / error, and an error's code is not OK -/
theorem read_value_xor_error (cfg : Cfg) (opts : Opts) (input : Bytes) :
    match (read cfg opts input).out with
    | .value _ => True
    | .eofValue => opts.eofValue = true
    | .error code _ _ => code ≠ .ok
    | .fuelOut => False := by
  unfold Edn.Model.read
  simp only []
  have hs := (reader_fuel_sufficient { cfg := cfg, opts := opts } (readFuel input)).1 0 false
    { rest := input } (by simp only [readFuel]; omega)
  have hc := (reader_noCloser { cfg := cfg, opts := opts } (readFuel input)).1 false { rest := input }
  have he := (reader_err_code { cfg := cfg, opts := opts } (readFuel input)).1 0 false { rest := input }
  cases hr : readValue { cfg := cfg, opts := opts } (readFuel input) 0 false { rest := input } with
  | ok v st => trivial
  | closer st => rw [hr] at hc; cases hc
  | err e st =>
    rw [hr] at hs
    simp only [Res.isFuelOut] at hs
    simp only [hs, Bool.false_eq_true, ↓reduceIte]
    by_cases hq : (e.code == Err.unexpectedEof && e.eofTop && opts.eofValue) = true
    · simp only [hq, ↓reduceIte]
      simp only [Bool.and_eq_true] at hq
      exact hq.2
    · simp only [hq, Bool.false_eq_true, ↓reduceIte]
      exact he e st hr

/-- the leaf readers raise exactly their own class -/
theorem leaf_error_classes (ctx : Ctx) (st st' : St) (e : ErrInfo) :
    (readString ctx st = .err e st' → e.code = .invalidString) ∧
    (readCharacter ctx st = .err e st' → e.code = .invalidCharacter) ∧
    (readIdentifier ctx st = .err e st' → e.code = .invalidSyntax) ∧
    (readSymbolic ctx st = .err e st' → e.code = .invalidSyntax) ∧
    (readNumberRes ctx st = .err e st' → e.code = .invalidNumber) := by
  obtain ⟨h1, h2, h3, h4, h5⟩ := leaf_codeIs ctx st
  exact ⟨codeIs_err h1, codeIs_err h2, codeIs_err h3, codeIs_err h4, codeIs_err h5⟩

/-- a closing delimiter at top level (possibly after trivia) is an unmatched delimiter -/
theorem stray_closer (ctx : Ctx) (f : Nat) (dm : Bool) (c : UInt8) (s : Bytes) (cl : List Call)
    (hc : c = 0x29 ∨ c = 0x5D ∨ c = 0x7D) :
    readValue ctx (f + 1) 0 dm { rest := c :: s, calls := cl } =
      .err (mkErr .unmatchedDelimiter) { rest := c :: s, calls := cl } := by
  obtain ⟨hd, hw⟩ := dispatch_closer ctx.cfg c hc
  rw [readValue_succ]
  unfold rvOuter
  simp only [hw, Bool.false_eq_true, ↓reduceIte]
  unfold rvStep
  simp only [hd, BEq.rfl, ↓reduceIte]

/-- inside a collection the same byte ends the element loop instead -/
theorem closer_inside (ctx : Ctx) (f d : Nat) (dm : Bool) (c : UInt8) (s : Bytes) (cl : List Call)
    (hc : c = 0x29 ∨ c = 0x5D ∨ c = 0x7D) :
    readValue ctx (f + 1) (d + 1) dm { rest := c :: s, calls := cl } = .closer { rest := c :: s, calls := cl } := by
  obtain ⟨hd, hw⟩ := dispatch_closer ctx.cfg c hc
  rw [readValue_succ]
  unfold rvOuter
  simp only [hw, Bool.false_eq_true, ↓reduceIte]
  unfold rvStep
  have hne : (d + 1 == 0) = false := by simp
  simp only [hd, hne, Bool.false_eq_true, ↓reduceIte]

/-- input ending inside a list / vector / set: UNTERMINATED_COLLECTION from the opening
    delimiter to the end -/
theorem eof_in_sequence (ctx : Ctx) (f d : Nat) (dm : Bool) (kind start : Nat) (st st' : St) (acc : List Val) (e : ErrInfo)
    (h : readValue ctx f (d + 1) dm st = .err e st') (he : e.code = .unexpectedEof) (hf : e.fuelOut = false) :
    readSeq ctx (f + 1) d dm kind start st acc =
      .err (mkErr .unterminatedCollection (some start) (some st'.rest.length)) st' := by
  rw [readSeq_succ]
  unfold rsStep
  have hb : (e.code == Err.unexpectedEof && !e.fuelOut) = true := by rw [he, hf]; rfl
  simp only [h, hb, ↓reduceIte, Ctx.pos]

/-- a closing delimiter of the wrong kind: UNMATCHED_DELIMITER -/
theorem wrong_closer (ctx : Ctx) (f d : Nat) (dm : Bool) (kind start : Nat) (st st' : St) (acc : List Val) (c : UInt8) (r : Bytes)
    (h : readValue ctx f (d + 1) dm st = .closer st') (hr : st'.rest = c :: r) (hc : c ≠ closerByte kind) :
    readSeq ctx (f + 1) d dm kind start st acc =
      .err (mkErr .unmatchedDelimiter (some start) (some (st'.rest.length - 1))) st' := by
  rw [readSeq_succ]
  unfold rsStep
  have hb : (c != closerByte kind) = true := by simpa using hc
  simp only [h, hr, hb, ↓reduceIte]

/-- input ending inside a map (before a key or before a value): UNTERMINATED_COLLECTION -/
theorem eof_in_map_key (ctx : Ctx) (f d : Nat) (dm : Bool) (start : Nat) (ns : Option Bytes) (st st' : St) (ks vs : List Val) (e : ErrInfo)
    (h : readValue ctx f (d + 1) dm st = .err e st') (he : e.code = .unexpectedEof) (hf : e.fuelOut = false) :
    readMap ctx (f + 1) d dm start ns st ks vs =
      .err (mkErr .unterminatedCollection (some start) (some st'.rest.length)) st' := by
  rw [readMap_succ]
  unfold rmStep
  have hb : (e.code == Err.unexpectedEof && !e.fuelOut) = true := by rw [he, hf]; rfl
  simp only [h, hb, ↓reduceIte, Ctx.pos]

/-- a map with an odd number of forms: INVALID_SYNTAX -/
theorem odd_map (ctx : Ctx) (f d : Nat) (dm : Bool) (start : Nat) (ns : Option Bytes) (st st' st'' : St) (ks vs : List Val) (k : Val)
    (h : readValue ctx f (d + 1) dm st = .ok k st') (h2 : readValue ctx f (d + 1) dm st' = .closer st'') :
    readMap ctx (f + 1) d dm start ns st ks vs =
      .err (mkErr .invalidSyntax (some start) (some st''.rest.length)) st'' := by
  rw [readMap_succ]
  unfold rmStep
  simp only [h, h2, Ctx.pos]

/-- a discard marker with nothing to discard before a closing delimiter: INVALID_DISCARD -/
theorem orphan_discard (ctx : Ctx) (f d : Nat) (dm : Bool) (s : Bytes) (cl : List Call) (st' : St)
    (hd : d < Edn.Generated.Tables.maxNestingDepth)
    (h : readValue ctx f (d + 1) true { rest := s, calls := cl } = .closer st') :
    readValue ctx (f + 1) d dm { rest := 0x23 :: 0x5F :: s, calls := cl } =
      .err (mkErr .invalidDiscard (some (s.length + 2)) (some s.length)) st' := by
  have hdisp : dispatch ctx.cfg 0x23 = .hash ∧ isPreWs 0x23 = false := by
    generalize ctx.cfg = cfg
    obtain ⟨clj, exp⟩ := cfg
    cases clj <;> cases exp <;> exact ⟨by decide +kernel, by decide +kernel⟩
  rw [readValue_succ]
  unfold rvOuter
  simp only [hdisp.2, Bool.false_eq_true, ↓reduceIte]
  unfold rvStep
  have h1 : ((0x5F : UInt8) == 0x23) = false := by decide
  have h2 : ((0x5F : UInt8) == 0x7B) = false := by decide
  have htd : decide (d ≥ Edn.Generated.Tables.maxNestingDepth) = false := by
    simp only [ge_iff_le, decide_eq_false_iff_not, Nat.not_le]; exact hd
  simp only [hdisp.1, h1, h2, htd, BEq.rfl, Bool.false_eq_true, ↓reduceIte, h, Ctx.pos, List.length_cons]
  rfl

/-- a tag with nothing to apply to before a closing delimiter: INVALID_SYNTAX; at the end of
    the input: UNEXPECTED_EOF (turned into UNTERMINATED_COLLECTION by an enclosing collection) -/
theorem orphan_tag (ctx : Ctx) (f d : Nat) (dm : Bool) (start : Nat) (st st' st'' : St) (h : Hdr) (md : Option Val)
    (ns : Option Bytes) (name : Bytes) (c : UInt8) (cs : Bytes) (hs : st.rest = c :: cs)
    (hc : (c == 0x20 || c == 0x09 || c == 0x0A || c == 0x0D || c == 0x2C) = false)
    (hid : readIdentifier ctx st = .ok (.sym h md ns name) st')
    (hv : readValue ctx f (d + 1) dm st' = .closer st'') :
    readTagged ctx (f + 1) d dm start st = .err (mkErr .invalidSyntax (some start) (some st''.rest.length)) st'' := by
  rw [readTagged_succ]
  unfold rtStep
  simp only [hs, hc, Bool.false_eq_true, ↓reduceIte]
  rw [← hs]
  simp only [hid, hv, Ctx.pos]

theorem tag_at_eof (ctx : Ctx) (f d : Nat) (dm : Bool) (start : Nat) (cl : List Call) :
    readTagged ctx (f + 1) d dm start { rest := [], calls := cl } =
      .err (mkErr .unexpectedEof (some start) (some 0)) { rest := [], calls := cl } := by
  rw [readTagged_succ]
  rfl

end Edn.Proofs
