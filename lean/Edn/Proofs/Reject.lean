/-
  Edn.Proofs.Reject — C10: no result carries both a value and an error code or neither; every
  error has a non-OK code; the error class of each defect family, stated on the reader's steps.
-/
import Edn.Proofs.Fuel

namespace Edn.Proofs
open Edn.Model

/-- every error any reader function returns has a code other than OK -/
theorem reader_err_code (ctx : Ctx) : ∀ (f : Nat),
    (∀ d dm st e st', readValue ctx f d dm st = .err e st' → e.code ≠ .ok) ∧
    (∀ d dm kind start st acc e st', readSeq ctx f d dm kind start st acc = .err e st' → e.code ≠ .ok) ∧
    (∀ d dm start ns st ks vs e st', readMap ctx f d dm start ns st ks vs = .err e st' → e.code ≠ .ok) ∧
    (∀ d dm start st e st', readNsMap ctx f d dm start st = .err e st' → e.code ≠ .ok) ∧
    (∀ d dm start st e st', readTagged ctx f d dm start st = .err e st' → e.code ≠ .ok) ∧
    (∀ d dm start st e st', readMeta ctx f d dm start st = .err e st' → e.code ≠ .ok) := by
  sorry

/-- top level: exactly one of value / end-of-input value / error, and an error's code is not OK -/
theorem read_value_xor_error (cfg : Cfg) (opts : Opts) (input : Bytes) :
    match (read cfg opts input).out with
    | .value _ => True
    | .eofValue => opts.eofValue = true
    | .error code _ _ => code ≠ .ok
    | .fuelOut => False := by
  sorry

/-- the leaf readers raise exactly their own class -/
theorem leaf_error_classes (ctx : Ctx) (st st' : St) (e : ErrInfo) :
    (readString ctx st = .err e st' → e.code = .invalidString) ∧
    (readCharacter ctx st = .err e st' → e.code = .invalidCharacter) ∧
    (readIdentifier ctx st = .err e st' → e.code = .invalidSyntax) ∧
    (readSymbolic ctx st = .err e st' → e.code = .invalidSyntax) ∧
    (readNumberRes ctx st = .err e st' → e.code = .invalidNumber) := by
  sorry

/-- a closing delimiter at top level (possibly after trivia) is an unmatched delimiter -/
theorem stray_closer (ctx : Ctx) (f : Nat) (dm : Bool) (c : UInt8) (s : Bytes) (cl : List Call)
    (hc : c = 0x29 ∨ c = 0x5D ∨ c = 0x7D) :
    readValue ctx (f + 1) 0 dm { rest := c :: s, calls := cl } =
      .err (mkErr .unmatchedDelimiter) { rest := c :: s, calls := cl } := by
  sorry

/-- inside a collection the same byte ends the element loop instead -/
theorem closer_inside (ctx : Ctx) (f d : Nat) (dm : Bool) (c : UInt8) (s : Bytes) (cl : List Call)
    (hc : c = 0x29 ∨ c = 0x5D ∨ c = 0x7D) :
    readValue ctx (f + 1) (d + 1) dm { rest := c :: s, calls := cl } = .closer { rest := c :: s, calls := cl } := by
  sorry

/-- input ending inside a list / vector / set: UNTERMINATED_COLLECTION from the opening
    delimiter to the end -/
theorem eof_in_sequence (ctx : Ctx) (f d : Nat) (dm : Bool) (kind start : Nat) (st st' : St) (acc : List Val) (e : ErrInfo)
    (h : readValue ctx f (d + 1) dm st = .err e st') (he : e.code = .unexpectedEof) (hf : e.fuelOut = false) :
    readSeq ctx (f + 1) d dm kind start st acc =
      .err (mkErr .unterminatedCollection (some start) (some st'.rest.length)) st' := by
  sorry

/-- a closing delimiter of the wrong kind: UNMATCHED_DELIMITER -/
theorem wrong_closer (ctx : Ctx) (f d : Nat) (dm : Bool) (kind start : Nat) (st st' : St) (acc : List Val) (c : UInt8) (r : Bytes)
    (h : readValue ctx f (d + 1) dm st = .closer st') (hr : st'.rest = c :: r) (hc : c ≠ closerByte kind) :
    readSeq ctx (f + 1) d dm kind start st acc =
      .err (mkErr .unmatchedDelimiter (some start) (some (st'.rest.length - 1))) st' := by
  sorry

/-- input ending inside a map (before a key or before a value): UNTERMINATED_COLLECTION -/
theorem eof_in_map_key (ctx : Ctx) (f d : Nat) (dm : Bool) (start : Nat) (ns : Option Bytes) (st st' : St) (ks vs : List Val) (e : ErrInfo)
    (h : readValue ctx f (d + 1) dm st = .err e st') (he : e.code = .unexpectedEof) (hf : e.fuelOut = false) :
    readMap ctx (f + 1) d dm start ns st ks vs =
      .err (mkErr .unterminatedCollection (some start) (some st'.rest.length)) st' := by
  sorry

/-- a map with an odd number of forms: INVALID_SYNTAX -/
theorem odd_map (ctx : Ctx) (f d : Nat) (dm : Bool) (start : Nat) (ns : Option Bytes) (st st' st'' : St) (ks vs : List Val) (k : Val)
    (h : readValue ctx f (d + 1) dm st = .ok k st') (h2 : readValue ctx f (d + 1) dm st' = .closer st'') :
    readMap ctx (f + 1) d dm start ns st ks vs =
      .err (mkErr .invalidSyntax (some start) (some st''.rest.length)) st'' := by
  sorry

/-- a discard marker with nothing to discard before a closing delimiter: INVALID_DISCARD -/
theorem orphan_discard (ctx : Ctx) (f d : Nat) (dm : Bool) (s : Bytes) (cl : List Call) (st' : St)
    (hd : d < Edn.Generated.Tables.maxNestingDepth)
    (h : readValue ctx f (d + 1) true { rest := s, calls := cl } = .closer st') :
    readValue ctx (f + 1) d dm { rest := 0x23 :: 0x5F :: s, calls := cl } =
      .err (mkErr .invalidDiscard (some (s.length + 2)) (some s.length)) st' := by
  sorry

/-- a tag with nothing to apply to before a closing delimiter: INVALID_SYNTAX; at the end of
    the input: UNEXPECTED_EOF (turned into UNTERMINATED_COLLECTION by an enclosing collection) -/
theorem orphan_tag (ctx : Ctx) (f d : Nat) (dm : Bool) (start : Nat) (st st' st'' : St) (h : Hdr) (md : Option Val)
    (ns : Option Bytes) (name : Bytes) (c : UInt8) (cs : Bytes) (hs : st.rest = c :: cs)
    (hc : (c == 0x20 || c == 0x09 || c == 0x0A || c == 0x0D || c == 0x2C) = false)
    (hid : readIdentifier ctx st = .ok (.sym h md ns name) st')
    (hv : readValue ctx f (d + 1) dm st' = .closer st'') :
    readTagged ctx (f + 1) d dm start st = .err (mkErr .invalidSyntax (some start) (some st''.rest.length)) st'' := by
  sorry

theorem tag_at_eof (ctx : Ctx) (f d : Nat) (dm : Bool) (start : Nat) (cl : List Call) :
    readTagged ctx (f + 1) d dm start { rest := [], calls := cl } =
      .err (mkErr .unexpectedEof (some start) (some 0)) { rest := [], calls := cl } := by
  sorry

end Edn.Proofs
