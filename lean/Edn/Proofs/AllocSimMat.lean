/-
  Edn.Proofs.AllocSimMat — C16 for the payloads an accessor materialises after the read
  (`materialiseA` = `edn_string_get`, `edn_bigint_get`, `edn_bigdec_get`): under every oracle an
  accessor call returns the complete payload or NULL, never part of it; with an oracle that fails
  nothing and the value's arena alive it returns the payload.
-/
import Edn.Proofs.AllocSimAux1

namespace Edn.Proofs.AllocSim
open Edn.Model Edn.Proofs.AllocBasic Edn.Proofs

/-- what an accessor call returns when memory is available: the text a string literal denotes
    (`none` when its escapes do not decode), the digits of a big number without separators -/
def materialise (cfg : Cfg) (v : Val) : Option Bytes :=
  match v with
  | .str _ data esc => if (stringContent cfg data esc).1 then some (stringContent cfg data esc).2 else none
  | .bigint _ _ _ d | .bigdec _ _ d => some (cleanDigits cfg d)
  | _ => none

/-- the decoding of a literal with escapes under an arbitrary oracle: the pure content, or
    "invalid" with the raw text -/
theorem strContentA_cases (x : ACtx) (h : Hdr) (d : Bytes) (a : ASt) :
    (strContentA x h d true a).1 = stringContent x.ctx.cfg d true ∨ (strContentA x h d true a).1 = (false, d) := by
  unfold strContentA stringContent
  simp only [Bool.not_true, Bool.false_eq_true, ↓reduceIte]
  split
  · exact Or.inl rfl
  · cases (a.request x.orc .arena).1
    · exact Or.inr rfl
    · simp only [Bool.not_true, Bool.false_eq_true, ↓reduceIte]
      cases decodeString x.ctx.cfg (d.length + 1) d <;> exact Or.inl rfl

theorem cleanDigits_plain (cfg : Cfg) (d : Bytes) (hc : (!(cfg.exp && d.contains 0x5F)) = true) :
    cleanDigits cfg d = d := by
  unfold cleanDigits
  cases he : cfg.exp
  · rfl
  · rw [he] at hc
    have : d.contains 0x5F = false := by simpa using hc
    simp [filter_us_of_not_contains d this]

theorem cleanA_cases (x : ACtx) (h : Hdr) (d : Bytes) (a : ASt) :
    (cleanA x h d a).1 = some (cleanDigits x.ctx.cfg d) ∨ (cleanA x h d a).1 = none := by
  unfold cleanA
  split
  · next hc => left; rw [cleanDigits_plain x.ctx.cfg d hc]
  · split
    · exact Or.inl rfl
    · rcases a.request x.orc .arena with ⟨ok, a1⟩
      cases ok
      · exact Or.inr rfl
      · exact Or.inl rfl

/-- **An accessor call under faults returns the complete payload or NULL.** -/
theorem materialiseA_fault (x : ACtx) (v : Val) (a : ASt) :
    (materialiseA x v a).1 = materialise x.ctx.cfg v ∨ (materialiseA x v a).1 = none := by
  unfold materialiseA materialise
  cases v with
  | str h data esc =>
    cases esc with
    | true =>
      simp only [↓reduceIte]
      rcases strContentA_cases x h data a with e | e
      · left
        rcases hq : strContentA x h data true a with ⟨⟨valid, b⟩, a1⟩
        rw [hq] at e
        simp only at e ⊢
        rw [← e]
      · right
        rcases hq : strContentA x h data true a with ⟨⟨valid, b⟩, a1⟩
        rw [hq] at e
        simp only [Prod.mk.injEq] at e ⊢
        rw [e.1]; rfl
    | false =>
      simp only [Bool.false_eq_true, ↓reduceIte, stringContent, Bool.not_false]
      split
      · exact Or.inl rfl
      · rcases a.request x.orc .arena with ⟨ok, a1⟩
        cases ok
        · exact Or.inr rfl
        · exact Or.inl rfl
  | bigint h n r d => exact cleanA_cases x h d a
  | bigdec h n d => exact cleanA_cases x h d a
  | _ => exact Or.inl rfl

/-- with an oracle that fails nothing and the arena alive the accessor returns the payload -/
theorem materialiseA_nofault (x : ACtx) (hx : ∀ n, x.orc n = false) (v : Val) (a : ASt) (ha : a.arena = .alive) :
    (materialiseA x v a).1 = materialise x.ctx.cfg v := by
  unfold materialiseA materialise
  cases v with
  | str h data esc =>
    cases esc with
    | true =>
      simp only [↓reduceIte]
      have e := (strContentA_sim x h data true a).exact hx ha
      rcases hq : strContentA x h data true a with ⟨⟨valid, b⟩, a1⟩
      rw [hq] at e
      simp only at e ⊢
      rw [← e.1]
    | false =>
      simp only [Bool.false_eq_true, ↓reduceIte, stringContent, Bool.not_false]
      split
      · rfl
      · have := request_nofault x hx .arena a 0 (fun _ => ha)
        simp [this]
  | bigint h n r d => exact ((cleanA_sim x h d a).exact hx ha).1
  | bigdec h n d => exact ((cleanA_sim x h d a).exact hx ha).1
  | _ => rfl

end Edn.Proofs.AllocSim
