/-
  Edn.Proofs.EqualAux1 — generic list combinatorics used by the value-algebra proofs:
  element-wise relatedness of two lists, the matching lemma (an injective "is related to"
  assignment between two lists of the same length is a bijection up to permutation),
  permutation invariance of XOR folds, and facts about `zip`.  Nothing here mentions `Val`.
-/
namespace Edn.Proofs

/-- element-wise relatedness of two lists of the same length (core has no `Forall₂`) -/
inductive All₂ {α β : Type} (R : α → β → Prop) : List α → List β → Prop
  | nil : All₂ R [] []
  | cons {a b as bs} : R a b → All₂ R as bs → All₂ R (a :: as) (b :: bs)

theorem All₂.length_eq {α β : Type} {R : α → β → Prop} {xs : List α} {ys : List β}
    (h : All₂ R xs ys) : xs.length = ys.length := by
  induction h with
  | nil => rfl
  | cons _ _ ih => simp [ih]

theorem All₂.mem_right {α β : Type} {R : α → β → Prop} {xs : List α} {ys : List β}
    (h : All₂ R xs ys) : ∀ y ∈ ys, ∃ x ∈ xs, R x y := by
  induction h with
  | nil => intro y hy; cases hy
  | cons hr _ ih =>
    intro y hy
    rcases List.mem_cons.mp hy with rfl | hy
    · exact ⟨_, List.mem_cons_self, hr⟩
    · obtain ⟨x, hx, hxy⟩ := ih y hy
      exact ⟨x, List.mem_cons_of_mem _ hx, hxy⟩

theorem All₂.mem_left {α β : Type} {R : α → β → Prop} {xs : List α} {ys : List β}
    (h : All₂ R xs ys) : ∀ x ∈ xs, ∃ y ∈ ys, R x y := by
  induction h with
  | nil => intro y hy; cases hy
  | cons hr _ ih =>
    intro x hx
    rcases List.mem_cons.mp hx with rfl | hx
    · exact ⟨_, List.mem_cons_self, hr⟩
    · obtain ⟨y, hy, hxy⟩ := ih x hx
      exact ⟨y, List.mem_cons_of_mem _ hy, hxy⟩

theorem All₂.map_eq {α β γ : Type} {R : α → β → Prop} {xs : List α} {ys : List β}
    (g : α → γ) (g' : β → γ) (h : All₂ R xs ys)
    (hg : ∀ x ∈ xs, ∀ y ∈ ys, R x y → g x = g' y) : xs.map g = ys.map g' := by
  induction h with
  | nil => rfl
  | cons hr _ ih =>
    rw [List.map_cons, List.map_cons, hg _ List.mem_cons_self _ List.mem_cons_self hr]
    rw [ih (fun x hx y hy => hg x (List.mem_cons_of_mem _ hx) y (List.mem_cons_of_mem _ hy))]

/-- The matching lemma.  `R` relates elements of `xs` to elements of `ys`; `D` is the
    "duplicate" relation on `xs`.  If no two elements of `xs` are duplicates, two elements
    related to the same `y` are duplicates, the lengths agree and every `x` is related to
    some `y`, then `xs` is element-wise related to a permutation of `ys`. -/
theorem exists_matching {α β : Type} (R : α → β → Prop) (D : α → α → Prop) :
    ∀ (xs : List α) (ys : List β), xs.length = ys.length →
      xs.Pairwise (fun a b => ¬ D a b) →
      (∀ x1 ∈ xs, ∀ x2 ∈ xs, ∀ y ∈ ys, R x1 y → R x2 y → D x1 x2) →
      (∀ x ∈ xs, ∃ y ∈ ys, R x y) →
      ∃ ys', ys'.Perm ys ∧ All₂ R xs ys' := by
  intro xs
  induction xs with
  | nil =>
    intro ys hl _ _ _
    have : ys = [] := List.eq_nil_of_length_eq_zero (by simpa using hl.symm)
    subst this
    exact ⟨[], List.Perm.refl _, All₂.nil⟩
  | cons x xs ih =>
    intro ys hl hpw hinj hall
    obtain ⟨y, hy, hxy⟩ := hall x List.mem_cons_self
    obtain ⟨s, t, rfl⟩ := List.append_of_mem hy
    rw [List.pairwise_cons] at hpw
    have hall' : ∀ x' ∈ xs, ∃ y' ∈ s ++ t, R x' y' := by
      intro x' hx'
      obtain ⟨y', hy', hxy'⟩ := hall x' (List.mem_cons_of_mem _ hx')
      rcases List.mem_append.mp hy' with h1 | h1
      · exact ⟨y', List.mem_append_left _ h1, hxy'⟩
      · rcases List.mem_cons.mp h1 with rfl | h1
        · exact absurd (hinj x List.mem_cons_self x' (List.mem_cons_of_mem _ hx') y' hy hxy hxy')
            (hpw.1 x' hx')
        · exact ⟨y', List.mem_append_right _ h1, hxy'⟩
    have hinj' : ∀ x1 ∈ xs, ∀ x2 ∈ xs, ∀ y ∈ s ++ t, R x1 y → R x2 y → D x1 x2 := by
      intro x1 h1 x2 h2 y' hy'
      refine hinj x1 (List.mem_cons_of_mem _ h1) x2 (List.mem_cons_of_mem _ h2) y' ?_
      rcases List.mem_append.mp hy' with h | h
      · exact List.mem_append_left _ h
      · exact List.mem_append_right _ (List.mem_cons_of_mem _ h)
    have hl' : xs.length = (s ++ t).length := by
      simp only [List.length_cons, List.length_append] at hl ⊢; omega
    obtain ⟨ys', hperm, hrel⟩ := ih (s ++ t) hl' hpw.2 hinj' hall'
    exact ⟨y :: ys', (List.Perm.cons y hperm).trans List.perm_middle.symm, All₂.cons hxy hrel⟩

/-! ### XOR folds -/

theorem foldl_xor_perm {l₁ l₂ : List UInt64} (h : l₁.Perm l₂) (init : UInt64) :
    l₁.foldl (· ^^^ ·) init = l₂.foldl (· ^^^ ·) init := by
  apply List.Perm.foldl_eq' h
  intro x _ y _ z
  show z ^^^ x ^^^ y = z ^^^ y ^^^ x
  rw [UInt64.xor_assoc, UInt64.xor_comm x y, ← UInt64.xor_assoc]

/-! ### zip -/

theorem mem_zip_of_mem_left {α β : Type} : ∀ (ks : List α) (vs : List β), ks.length ≤ vs.length →
    ∀ k ∈ ks, ∃ v, (k, v) ∈ ks.zip vs := by
  intro ks
  induction ks with
  | nil => intro vs _ k hk; cases hk
  | cons k0 ks ih =>
    intro vs hl k hk
    cases vs with
    | nil => simp at hl
    | cons v0 vs =>
      rcases List.mem_cons.mp hk with rfl | hk
      · exact ⟨v0, by simp⟩
      · obtain ⟨v, hv⟩ := ih vs (by simpa using hl) k hk
        exact ⟨v, by simp [hv]⟩

theorem mem_zip_of_mem_right {α β : Type} : ∀ (ks : List α) (vs : List β), vs.length ≤ ks.length →
    ∀ v ∈ vs, ∃ k, (k, v) ∈ ks.zip vs := by
  intro ks
  induction ks with
  | nil => intro vs hl v hv; cases vs <;> simp at hl hv
  | cons k0 ks ih =>
    intro vs hl v hv
    cases vs with
    | nil => cases hv
    | cons v0 vs =>
      rcases List.mem_cons.mp hv with rfl | hv
      · exact ⟨k0, by simp⟩
      · obtain ⟨k, hk⟩ := ih vs (by simpa using hl) v hv
        exact ⟨k, by simp [hk]⟩

theorem pairwise_zip_left {α β : Type} {D : α → α → Prop} : ∀ (ks : List α) (vs : List β),
    ks.Pairwise D → (ks.zip vs).Pairwise (fun p q => D p.1 q.1) := by
  intro ks
  induction ks with
  | nil => intro vs _; simp
  | cons k0 ks ih =>
    intro vs h
    cases vs with
    | nil => simp
    | cons v0 vs =>
      rw [List.pairwise_cons] at h
      rw [List.zip_cons_cons, List.pairwise_cons]
      refine ⟨?_, ih vs h.2⟩
      intro q hq
      exact h.1 q.1 (List.of_mem_zip (a := q.1) (b := q.2) hq).1

end Edn.Proofs
