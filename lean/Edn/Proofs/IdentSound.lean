/-
  Edn.Proofs.IdentSound — the identifier reader accepts exactly the identifier grammar: whatever
  `edn_read_identifier` accepts is a maximal run of non-delimiter bytes without `::` that
  `IdentDenotes` classifies (soundness), and every such token is read as what it denotes
  (completeness, from Edn.Proofs.CompleteIdent).
-/
import Edn.Spec.IdentLit
import Edn.Proofs.CompleteIdent
import Edn.Proofs.IdentSoundAux2

namespace Edn.Proofs
open Edn.Model Edn.Spec

/-- completeness at the level of `readIdentifier` (no dispatcher involved) -/
theorem readIdentifier_complete (ctx : Ctx) (tok rest : Bytes) (cl : List Call) (a : Val)
    (hl : IdentLex tok) (hr : rest = [] ∨ ∃ c t, rest = c :: t ∧ isDelim c = true) (hd : IdentDenotes tok a) :
    ∃ v, readIdentifier ctx { rest := tok ++ rest, calls := cl } = .ok v { rest := rest, calls := cl } ∧ strip v = a := by
  have hr' : TermD rest := hr
  rcases hd with ⟨rfl, rfl⟩ | ⟨rfl, rfl⟩ | ⟨rfl, rfl⟩ | ⟨body, ns, nm, rfl, hne, hc, hsl, hsp, rfl⟩ |
    ⟨hc, h1, h2, h3, ns, nm, hsp, rfl⟩
  · rw [rid_plain ctx _ rest cl hr' hl (by rw [nil_bytes]; decide) (by rw [nil_bytes]; decide)]
    simp only [strBytes_eq, BEq.rfl, ↓reduceIte]
    exact ⟨_, rfl, by simp [strip]⟩
  · rw [rid_plain ctx _ rest cl hr' hl (by rw [true_bytes]; decide) (by rw [true_bytes]; decide)]
    have e1 : ("true".toUTF8.toList == "nil".toUTF8.toList) = false := by
      rw [true_bytes, nil_bytes]; decide
    simp only [strBytes_eq, e1, BEq.rfl, Bool.false_eq_true, ↓reduceIte]
    exact ⟨_, rfl, by simp [strip]⟩
  · rw [rid_plain ctx _ rest cl hr' hl (by rw [false_bytes]; decide) (by rw [false_bytes]; decide)]
    have e1 : ("false".toUTF8.toList == "nil".toUTF8.toList) = false := by
      rw [false_bytes, nil_bytes]; decide
    have e2 : ("false".toUTF8.toList == "true".toUTF8.toList) = false := by
      rw [false_bytes, true_bytes]; decide
    simp only [strBytes_eq, e1, e2, BEq.rfl, Bool.false_eq_true, ↓reduceIte]
    exact ⟨_, rfl, by simp [strip]⟩
  · exact ⟨_, rid_kw ctx body ns nm rest cl hr' hl hc hsp hne hsl, by simp [strip]⟩
  · exact ⟨_, rid_sym ctx tok ns nm rest cl hr' hl hc hsp ⟨h1, h2, h3⟩, by simp [strip]⟩

/-- rejection: a maximal run of non-delimiter bytes that is not a well-formed identifier is INVALID_SYNTAX -/
theorem readIdentifier_rejects (ctx : Ctx) (tok rest : Bytes) (cl : List Call)
    (hne : ∀ c ∈ tok, isDelim c = false) (hr : rest = [] ∨ ∃ c t, rest = c :: t ∧ isDelim c = true)
    (hbad : ¬ (IdentLex tok ∧ ∃ a, IdentDenotes tok a)) :
    ∃ e st', readIdentifier ctx { rest := tok ++ rest, calls := cl } = .err e st' ∧ e.code = .invalidSyntax := by
  have hr' : TermD rest := hr
  by_cases hemp : tok = []
  · subst hemp
    apply readIdentifier_invalid
    exact scanIdent_empty rest hr'
  by_cases hcc : [0x3A, 0x3A] <:+: tok
  · apply readIdentifier_invalid
    exact scanIdent_cc tok rest hne hcc
  have hl : IdentLex tok := ⟨hemp, hne, hcc⟩
  have hno : ∀ a, ¬ IdentDenotes tok a := fun a ha => hbad ⟨hl, a, ha⟩
  by_cases hc : tok.head? = some 0x3A
  · obtain ⟨body, rfl⟩ : ∃ body, tok = 0x3A :: body := by
      cases tok with
      | nil => simp at hc
      | cons c t =>
        simp only [List.head?_cons, Option.some.injEq] at hc
        exact ⟨t, by rw [hc]⟩
    by_cases hb : body = []
    · subst hb
      exact rid_rej_colon ctx rest cl hr'
    · apply rid_rej_kw ctx body rest cl hr' hl hb
      by_cases hs : body = [0x2F]
      · exact .inl hs
      · right
        cases hsp : splitIdent body with
        | none => rfl
        | some p =>
          obtain ⟨ns, nm⟩ := p
          exact absurd (.inr (.inr (.inr (.inl ⟨body, ns, nm, rfl, hb, lex_colon_head hl, hs, hsp, rfl⟩))))
            (hno (.kw hdr0 ns nm))
  · apply rid_rej_sym ctx tok rest cl hr' hl
    cases hsp : splitIdent tok with
    | none => rfl
    | some p =>
      obtain ⟨ns, nm⟩ := p
      by_cases h1 : tok = "nil".toUTF8.toList
      · exact absurd (.inl ⟨h1, rfl⟩) (hno (.nil hdr0))
      by_cases h2 : tok = "true".toUTF8.toList
      · exact absurd (.inr (.inl ⟨h2, rfl⟩)) (hno (.bool hdr0 true))
      by_cases h3 : tok = "false".toUTF8.toList
      · exact absurd (.inr (.inr (.inl ⟨h3, rfl⟩))) (hno (.bool hdr0 false))
      exact absurd (.inr (.inr (.inr (.inr ⟨hc, h1, h2, h3, ns, nm, hsp, rfl⟩))))
        (hno (.sym hdr0 none ns nm))

/-- every input splits into its maximal run of non-delimiter bytes and a remainder that is empty
    or starts with a delimiter -/
theorem split_at_delim (s : Bytes) :
    ∃ tok rest, s = tok ++ rest ∧ (∀ c ∈ tok, isDelim c = false) ∧
      (rest = [] ∨ ∃ c t, rest = c :: t ∧ isDelim c = true) := by
  induction s with
  | nil => exact ⟨[], [], rfl, by simp, .inl rfl⟩
  | cons c cs ih =>
    cases hd : isDelim c with
    | true => exact ⟨[], c :: cs, rfl, by simp, .inr ⟨c, cs, rfl, hd⟩⟩
    | false =>
      obtain ⟨tok, rest, h1, h2, h3⟩ := ih
      refine ⟨c :: tok, rest, by rw [h1]; rfl, ?_, h3⟩
      intro x hx
      rcases List.mem_cons.mp hx with rfl | hx
      · exact hd
      · exact h2 x hx

/-- soundness -/
theorem readIdentifier_sound (ctx : Ctx) (st st' : St) (v : Val) (h : readIdentifier ctx st = .ok v st') :
    ∃ tok, st.rest = tok ++ st'.rest ∧ st'.calls = st.calls ∧ IdentLex tok ∧
      (st'.rest = [] ∨ ∃ c t, st'.rest = c :: t ∧ isDelim c = true) ∧ IdentDenotes tok (strip v) := by
  obtain ⟨s, cl⟩ := st
  obtain ⟨tok, rest, rfl, hnd, hr⟩ := split_at_delim s
  by_cases hgood : IdentLex tok ∧ ∃ a, IdentDenotes tok a
  · obtain ⟨hl, a, hd⟩ := hgood
    obtain ⟨v', hv', hsv⟩ := readIdentifier_complete ctx tok rest cl a hl hr hd
    rw [hv'] at h
    injection h with hv hst
    subst hv; subst hst
    exact ⟨tok, rfl, rfl, hl, hr, by rw [hsv]; exact hd⟩
  · obtain ⟨e, st'', he, _⟩ := readIdentifier_rejects ctx tok rest cl hnd hr hgood
    rw [he] at h
    exact absurd h (by simp)

end Edn.Proofs
