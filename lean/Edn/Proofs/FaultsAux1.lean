/-
  Edn.Proofs.FaultsAux1 — step lemmas for the collection builder under an allocation schedule.
-/
import Edn.Model.Builder

namespace Edn.Proofs
open Edn.Model

theorem nextAlloc_fst {s : List Bool} (h : (nextAlloc s).1 = false) : false ∈ s := by
  cases s with
  | nil => simp [nextAlloc] at h
  | cons b r =>
    simp only [nextAlloc] at h
    subst h
    exact List.mem_cons_self

theorem nextAlloc_snd {s : List Bool} (h : false ∈ (nextAlloc s).2) : false ∈ s := by
  cases s with
  | nil => simp [nextAlloc] at h
  | cons b r =>
    simp only [nextAlloc] at h
    exact List.mem_cons_of_mem _ h

theorem nextAlloc_nofault {s : List Bool} (h : false ∉ s) : (nextAlloc s).1 = true := by
  cases hq : (nextAlloc s).1 with
  | true => rfl
  | false => exact absurd (nextAlloc_fst hq) h

variable {α : Type}

theorem add_none {grow : Nat → Nat} {b : Builder α} {x : α} {s s' : List Bool} (h : b.add grow x s = (none, s')) :
    false ∈ s := by
  unfold Builder.add at h
  by_cases hc : b.elems.length ≥ b.cap
  · rw [if_pos hc] at h
    cases hq : nextAlloc s with
    | mk ok r =>
      rw [hq] at h
      cases ok with
      | true => simp at h
      | false => exact nextAlloc_fst (by rw [hq])
  · rw [if_neg hc] at h
    simp at h

theorem add_some {grow : Nat → Nat} {b b' : Builder α} {x : α} {s s' : List Bool} (h : b.add grow x s = (some b', s')) :
    b'.elems = b.elems ++ [x] ∧ (false ∈ s' → false ∈ s) := by
  unfold Builder.add at h
  by_cases hc : b.elems.length ≥ b.cap
  · rw [if_pos hc] at h
    cases hq : nextAlloc s with
    | mk ok r =>
      rw [hq] at h
      cases ok with
      | true =>
        simp only [if_true, Prod.mk.injEq, Option.some.injEq] at h
        obtain ⟨rfl, rfl⟩ := h
        exact ⟨rfl, fun hm => nextAlloc_snd (by rw [hq]; exact hm)⟩
      | false => simp at h
  · rw [if_neg hc] at h
    simp only [Prod.mk.injEq, Option.some.injEq] at h
    obtain ⟨rfl, rfl⟩ := h
    exact ⟨rfl, id⟩

theorem addAll_inl (grow : Nat → Nat) : ∀ (ys : List α) (b : Builder α) (i : Nat) (s : List Bool) (j : Nat) (s' : List Bool),
    Builder.addAll grow b ys i s = (.inl j, s') → j < i + ys.length ∧ false ∈ s
  | [], b, i, s, j, s', h => by simp [Builder.addAll] at h
  | x :: ys, b, i, s, j, s', h => by
    rw [Builder.addAll] at h
    cases hq : b.add grow x s with
    | mk o r =>
      rw [hq] at h
      cases o with
      | none =>
        simp only [Prod.mk.injEq, Sum.inl.injEq] at h
        obtain ⟨rfl, -⟩ := h
        exact ⟨by simp, add_none hq⟩
      | some b1 =>
        simp only at h
        obtain ⟨h1, h2⟩ := addAll_inl grow ys b1 (i + 1) r j s' h
        exact ⟨by simp only [List.length_cons]; omega, (add_some hq).2 h2⟩

theorem addAll_inr (grow : Nat → Nat) : ∀ (ys : List α) (b : Builder α) (i : Nat) (s : List Bool) (b' : Builder α) (s' : List Bool),
    Builder.addAll grow b ys i s = (.inr b', s') → b'.elems = b.elems ++ ys ∧ (false ∈ s' → false ∈ s)
  | [], b, i, s, b', s', h => by
    simp only [Builder.addAll, Prod.mk.injEq, Sum.inr.injEq] at h
    obtain ⟨rfl, rfl⟩ := h
    exact ⟨by simp, id⟩
  | x :: ys, b, i, s, b', s', h => by
    rw [Builder.addAll] at h
    cases hq : b.add grow x s with
    | mk o r =>
      rw [hq] at h
      cases o with
      | none => simp at h
      | some b1 =>
        simp only at h
        obtain ⟨h1, h2⟩ := addAll_inr grow ys b1 (i + 1) r b' s' h
        obtain ⟨h3, h4⟩ := add_some hq
        exact ⟨by rw [h1, h3]; simp, fun hm => h4 (h2 hm)⟩

theorem init_spec (initCap : Nat) (s : List Bool) :
    (Builder.init (α := α) initCap s).1.elems = [] ∧
    (false ∈ (Builder.init (α := α) initCap s).2 → false ∈ s) ∧
    (false ∉ s → (Builder.init (α := α) initCap s).1.store = if initCap ≤ 8 then .stack else .heap) := by
  unfold Builder.init
  by_cases hc : initCap ≤ 8
  · simp only [if_pos hc]
    exact ⟨by first | rfl | trivial, id, fun _ => by first | rfl | trivial⟩
  · simp only [if_neg hc]
    cases hq : nextAlloc s with
    | mk ok r =>
      cases ok with
      | true =>
        exact ⟨rfl, fun hm => nextAlloc_snd (by rw [hq]; exact hm), fun _ => rfl⟩
      | false =>
        exact ⟨rfl, fun hm => nextAlloc_snd (by rw [hq]; exact hm),
          fun hn => absurd (nextAlloc_fst (by rw [hq])) hn⟩

theorem finish_spec (b : Builder α) (s : List Bool) :
    (b.finish s).1 = b.elems.length ∧
    (∀ st zs, (b.finish s).2.1 = some (st, zs) → st = .heap ∧ zs = b.elems) ∧
    ((b.finish s).2.1 = none → b.elems = [] ∨ false ∈ s) ∧
    (false ∉ s → (b.finish s).2.1 =
      if b.elems = [] ∧ b.store = .stack then none else some (.heap, b.elems)) := by
  unfold Builder.finish
  cases hst : b.store with
  | heap =>
    simp only
    refine ⟨by first | rfl | trivial, ?_, ?_, ?_⟩
    · intro st zs h
      simp only [Option.some.injEq, Prod.mk.injEq] at h
      exact ⟨h.1.symm, h.2.symm⟩
    · intro h; simp at h
    · intro _; simp
  | stack =>
    simp only
    by_cases he : b.elems = []
    · simp [he]
    · have hl : (b.elems.length == 0) = false := by
        cases hb : b.elems with
        | nil => exact absurd hb he
        | cons _ _ => rfl
      simp only [hl, Bool.false_eq_true, if_false]
      cases hq : nextAlloc s with
      | mk ok r =>
        cases ok with
        | true =>
          simp only [if_true]
          refine ⟨by first | rfl | trivial, ?_, ?_, ?_⟩
          · intro st zs h
            simp only [Option.some.injEq, Prod.mk.injEq] at h
            exact ⟨h.1.symm, h.2.symm⟩
          · intro h; simp at h
          · intro _; simp [he]
        | false =>
          simp only [Bool.false_eq_true, if_false]
          refine ⟨by first | rfl | trivial, ?_, ?_, ?_⟩
          · intro st zs h; simp at h
          · intro _; exact Or.inr (nextAlloc_fst (by rw [hq]))
          · intro hn; exact absurd (nextAlloc_fst (by rw [hq])) hn

end Edn.Proofs
