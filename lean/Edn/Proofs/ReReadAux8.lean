/-
  Edn.Proofs.ReReadAux8 — continuation independence of the step functions of the reader:
  what follows a form does not influence how the form is read.
-/
import Edn.Proofs.ReReadAux1
import Edn.Proofs.ReReadAux2
import Edn.Proofs.ReReadAux4
import Edn.Proofs.ReReadAux5
import Edn.Proofs.RangesAux4

namespace Edn.Proofs
open Edn.Model Edn.Spec
open Edn.Generated

/-- `big` is the answer on an input followed by `r`, `small` the answer on the input alone:
    if `big` is a value or a closing delimiter found without touching `r`, then `small` is the
    same answer with every position smaller by `r.length` -/
def CutRes (r : Bytes) (cl : List Call) (big small : Res) : Prop :=
  match big with
  | .ok v st' => r.length ≤ st'.rest.length →
      ∃ t' v', st' = { rest := t' ++ r, calls := cl } ∧ small = .ok v' { rest := t', calls := cl } ∧
        shiftV r.length v' = v
  | .closer st' => r.length < st'.rest.length →
      ∃ t', st' = { rest := t' ++ r, calls := cl } ∧ small = .closer { rest := t', calls := cl }
  | .err _ _ => True

theorem CutRes.of_le {r : Bytes} {cl : List Call} {big small : Res}
    (h : r.length ≤ big.st.rest.length → CutRes r cl big small) : CutRes r cl big small := by
  cases big with
  | ok v st' => intro hl; exact h hl hl
  | closer st' => intro hl; exact h (Nat.le_of_lt hl) hl
  | err e st' => trivial

theorem CutRes.vac {r : Bytes} {cl : List Call} {big small : Res} {st : St}
    (hp : Progress st big) (hst : st.rest.length ≤ r.length) : CutRes r cl big small := by
  cases big with
  | ok v st' => intro hl; simp only [Progress] at hp; omega
  | closer st' => intro hl; simp only [Progress] at hp; omega
  | err e st' => trivial

theorem CutRes.vac_lt {r : Bytes} {cl : List Call} {big small : Res}
    (hp : big.st.rest.length < r.length) : CutRes r cl big small := by
  cases big with
  | ok v st' => intro hl; simp only [Res.st] at hp; omega
  | closer st' => intro hl; simp only [Res.st] at hp; omega
  | err e st' => trivial

def KV (RV : RVT) : Prop := ∀ d dm t r cl,
  CutRes r cl (RV d dm { rest := t ++ r, calls := cl }) (RV d dm { rest := t, calls := cl })
def KS (RS : RST) : Prop := ∀ d dm kind start t r cl acc,
  CutRes r cl (RS d dm kind (start + r.length) { rest := t ++ r, calls := cl } (shiftL r.length acc))
    (RS d dm kind start { rest := t, calls := cl } acc)
def KM (RM : RMT) : Prop := ∀ d dm start ns t r cl ks vs,
  CutRes r cl (RM d dm (start + r.length) ns { rest := t ++ r, calls := cl } (shiftL r.length ks) (shiftL r.length vs))
    (RM d dm start ns { rest := t, calls := cl } ks vs)
def K4 (R : R4T) : Prop := ∀ d dm start t r cl,
  CutRes r cl (R d dm (start + r.length) { rest := t ++ r, calls := cl }) (R d dm start { rest := t, calls := cl })

/-- successful answers carry a header read from the text -/
def NV (RV : RVT) : Prop := ∀ d dm st v st', RV d dm st = .ok v st' → v.hdr.synth = false
/-- a successful answer consumed at least one byte -/
def SN4 (R : R4T) : Prop := ∀ d dm start st v st', R d dm start st = .ok v st' → st'.rest.length < st.rest.length

/-- a leaf reader with a cut lemma -/
theorem leaf_cutRes {L : St → Res} {t r : Bytes} {cl : List Call} (hc : (L { rest := t ++ r, calls := cl }).isCloser = false)
    (hcut : ∀ v st', L { rest := t ++ r, calls := cl } = .ok v st' → r.length ≤ st'.rest.length →
      ∃ t' v', st' = { rest := t' ++ r, calls := cl } ∧ L { rest := t, calls := cl } = .ok v' { rest := t', calls := cl } ∧
        shiftV r.length v' = v) :
    CutRes r cl (L { rest := t ++ r, calls := cl }) (L { rest := t, calls := cl }) := by
  cases hr : L { rest := t ++ r, calls := cl } with
  | ok v st' => exact fun hl => hcut v st' hr hl
  | closer st' => rw [hr] at hc; cases hc
  | err e st' => trivial

theorem cons_append_split {c : UInt8} {r2 t' r : Bytes} (h : t' ++ r = c :: r2) (hl : r.length ≤ r2.length) :
    ∃ t2, t' = c :: t2 ∧ r2 = t2 ++ r := by
  cases t' with
  | nil =>
    simp only [List.nil_append] at h
    subst h
    simp only [List.length_cons] at hl
    omega
  | cons a t2 =>
    simp only [List.cons_append, List.cons.injEq] at h
    exact ⟨t2, by rw [h.1], h.2.symm⟩

theorem shiftV_list (k start stop : Nat) (xs : List Val) :
    shiftV k (.list (mkHdr start stop) none xs) = .list (mkHdr (start + k) (stop + k)) none (shiftL k xs) := by
  simp [shiftV, shiftHdr_mk, shiftO]
theorem shiftV_vec (k start stop : Nat) (xs : List Val) :
    shiftV k (.vec (mkHdr start stop) none xs) = .vec (mkHdr (start + k) (stop + k)) none (shiftL k xs) := by
  simp [shiftV, shiftHdr_mk, shiftO]
theorem shiftV_set (k start stop : Nat) (xs : List Val) :
    shiftV k (.set (mkHdr start stop) none xs) = .set (mkHdr (start + k) (stop + k)) none (shiftL k xs) := by
  simp [shiftV, shiftHdr_mk, shiftO]
theorem shiftV_map (k start stop : Nat) (ks vs : List Val) :
    shiftV k (.map (mkHdr start stop) none ks vs) =
      .map (mkHdr (start + k) (stop + k)) none (shiftL k ks) (shiftL k vs) := by
  simp [shiftV, shiftHdr_mk, shiftO]
theorem shiftV_tagged (k start stop : Nat) (tag : Bytes) (v : Val) :
    shiftV k (.tagged (mkHdr start stop) none tag v) = .tagged (mkHdr (start + k) (stop + k)) none tag (shiftV k v) := by
  simp [shiftV, shiftHdr_mk, shiftO]

/-! ## sequences -/

theorem rsStep_cut (ctx : Ctx) {RV : RVT} {RS : RST} (pV : PV RV) (pS : PS RS) (kV : KV RV) (kS : KS RS)
    (d : Nat) (dm : Bool) (kind start : Nat) (t r : Bytes) (cl : List Call) (acc : List Val) :
    CutRes r cl (rsStep ctx RV RS d dm kind (start + r.length) { rest := t ++ r, calls := cl } (shiftL r.length acc))
      (rsStep ctx RV RS d dm kind start { rest := t, calls := cl } acc) := by
  generalize hsm : rsStep ctx RV RS d dm kind start { rest := t, calls := cl } acc = small
  unfold rsStep at hsm ⊢
  have k1 := kV (d + 1) dm t r cl
  have p1 := pV (d + 1) dm { rest := t ++ r, calls := cl }
  cases hr : RV (d + 1) dm { rest := t ++ r, calls := cl } with
  | ok v st' =>
    rw [hr] at k1 p1; simp only [CutRes] at k1; simp only [Progress] at p1
    simp only []
    apply CutRes.of_le
    intro hb
    have h2 := pS d dm kind (start + r.length) st' (v :: shiftL r.length acc)
    obtain ⟨t1, v1, rfl, hs1, rfl⟩ := k1 (by omega)
    rw [hs1] at hsm; simp only [] at hsm
    subst hsm
    have := kS d dm kind start t1 r cl (v1 :: acc)
    rw [shiftL_cons] at this
    exact this
  | err e st' =>
    simp only []
    split <;> trivial
  | closer st' =>
    rw [hr] at k1; simp only [CutRes] at k1
    simp only []
    cases hs : st'.rest with
    | nil => trivial
    | cons c r2 =>
      simp only []
      by_cases hc : (c != closerByte kind) = true
      · simp only [hc, ↓reduceIte]; trivial
      · simp only [hc, Bool.false_eq_true, ↓reduceIte]
        by_cases hle : r.length ≤ r2.length
        · obtain ⟨t1, hst, hs1⟩ := k1 (by rw [hs]; simp only [List.length_cons]; omega)
          subst hst
          simp only [] at hs
          obtain ⟨t2, rfl, rfl⟩ := cons_append_split hs hle
          rw [hs1] at hsm; simp only [hc, Bool.false_eq_true, ↓reduceIte] at hsm
          have hpos : ctx.pos (t2 ++ r) = ctx.pos t2 + r.length := by simp [Ctx.pos]
          by_cases hk0 : (kind == 0) = true
          · simp only [hk0, ↓reduceIte] at hsm ⊢
            subst hsm
            intro _
            exact ⟨t2, _, rfl, rfl, by rw [shiftV_list, shiftL_reverse, hpos]⟩
          · simp only [hk0, Bool.false_eq_true, ↓reduceIte] at hsm ⊢
            by_cases hk1 : (kind == 1) = true
            · simp only [hk1, ↓reduceIte] at hsm ⊢
              subst hsm
              intro _
              exact ⟨t2, _, rfl, rfl, by rw [shiftV_vec, shiftL_reverse, hpos]⟩
            · simp only [hk1, Bool.false_eq_true, ↓reduceIte] at hsm ⊢
              rw [← shiftL_reverse, hasDuplicates_shiftL]
              simp only []
              cases hd : hasDuplicates ctx.cfg acc.reverse with
              | mk dup ys =>
                rw [hd] at hsm
                simp only [] at hsm ⊢
                cases dup with
                | true => simp only [↓reduceIte]; trivial
                | false =>
                  simp only [Bool.false_eq_true, ↓reduceIte] at hsm ⊢
                  subst hsm
                  intro _
                  exact ⟨t2, _, rfl, rfl, by rw [shiftV_set, hpos]⟩
        · have hv : ∀ (x : Val), CutRes r cl (.ok x { st' with rest := r2 }) small := by
            intro x hl; simp only [] at hl; omega
          repeat' split
          all_goals first | trivial | exact hv _

/-! ## maps -/

/-- the key stored by the map loop -/
def qkey (ns : Option Bytes) (k : Val) : Val :=
  match ns with
  | some n => qualifyKey n k
  | none => k

theorem qkey_shiftV (ns : Option Bytes) (j : Nat) (k : Val) : qkey ns (shiftV j k) = shiftV j (qkey ns k) := by
  cases ns with
  | none => rfl
  | some n => simp only [qkey, qualifyKey_shiftV]

theorem rmStep_cut (ctx : Ctx) {RV : RVT} {RM : RMT} (pV : PV RV) (pM : PM RM) (kV : KV RV) (kM : KM RM)
    (d : Nat) (dm : Bool) (start : Nat) (ns : Option Bytes) (t r : Bytes) (cl : List Call) (ks vs : List Val) :
    CutRes r cl (rmStep ctx RV RM d dm (start + r.length) ns { rest := t ++ r, calls := cl } (shiftL r.length ks)
        (shiftL r.length vs))
      (rmStep ctx RV RM d dm start ns { rest := t, calls := cl } ks vs) := by
  generalize hsm : rmStep ctx RV RM d dm start ns { rest := t, calls := cl } ks vs = small
  unfold rmStep at hsm ⊢
  simp only [] at hsm ⊢
  have k1 := kV (d + 1) dm t r cl
  have p1 := pV (d + 1) dm { rest := t ++ r, calls := cl }
  cases hr : RV (d + 1) dm { rest := t ++ r, calls := cl } with
  | ok k st' =>
    rw [hr] at k1 p1; simp only [CutRes] at k1; simp only [Progress] at p1
    simp only []
    have p2 := pV (d + 1) dm st'
    cases hr2 : RV (d + 1) dm st' with
    | ok v st'' =>
      rw [hr2] at p2; simp only [Progress] at p2
      simp only []
      change CutRes r cl (RM d dm (start + r.length) ns st'' (qkey ns k :: shiftL r.length ks)
        (v :: shiftL r.length vs)) small
      apply CutRes.of_le
      intro hb
      have h3 := pM d dm (start + r.length) ns st'' (qkey ns k :: shiftL r.length ks) (v :: shiftL r.length vs)
      obtain ⟨t1, k1v, rfl, hs1, rfl⟩ := k1 (by omega)
      have k2 := kV (d + 1) dm t1 r cl
      rw [hr2] at k2; simp only [CutRes] at k2
      obtain ⟨t2, v2, rfl, hs2, rfl⟩ := k2 (by omega)
      rw [hs1] at hsm; simp only [] at hsm
      rw [hs2] at hsm; simp only [] at hsm
      subst hsm
      have := kM d dm start ns t2 r cl (qkey ns k1v :: ks) (v2 :: vs)
      rw [shiftL_cons, shiftL_cons, ← qkey_shiftV] at this
      exact this
    | err e st'' =>
      simp only []
      split <;> trivial
    | closer st'' => trivial
  | err e st' =>
    simp only []
    split <;> trivial
  | closer st' =>
    rw [hr] at k1; simp only [CutRes] at k1
    simp only []
    cases hs : st'.rest with
    | nil => trivial
    | cons c r2 =>
      simp only []
      by_cases hc : (c != 0x7D) = true
      · simp only [hc, ↓reduceIte]; trivial
      · simp only [hc, Bool.false_eq_true, ↓reduceIte]
        by_cases hle : r.length ≤ r2.length
        · obtain ⟨t1, hst, hs1⟩ := k1 (by rw [hs]; simp only [List.length_cons]; omega)
          subst hst
          simp only [] at hs
          obtain ⟨t2, rfl, rfl⟩ := cons_append_split hs hle
          rw [hs1] at hsm; simp only [hc, Bool.false_eq_true, ↓reduceIte] at hsm
          have hpos : ctx.pos (t2 ++ r) = ctx.pos t2 + r.length := by simp [Ctx.pos]
          rw [← shiftL_reverse, hasDuplicates_shiftL]
          simp only []
          cases hd : hasDuplicates ctx.cfg ks.reverse with
          | mk dup ys =>
            rw [hd] at hsm
            simp only [] at hsm ⊢
            cases dup with
            | true => simp only [↓reduceIte]; trivial
            | false =>
              simp only [Bool.false_eq_true, ↓reduceIte] at hsm ⊢
              subst hsm
              intro _
              exact ⟨t2, _, rfl, rfl, by rw [shiftV_map, hpos, shiftL_reverse]⟩
        · have hv : ∀ (x : Val), CutRes r cl (.ok x { st' with rest := r2 }) small := by
            intro x hl; simp only [] at hl; omega
          repeat' split
          all_goals first | trivial | exact hv _

/-! ## namespaced maps, tagged literals, metadata -/

theorem shiftV_eq_kw {k : Nat} {v : Val} {h : Hdr} {ns : Option Bytes} {nm : Bytes}
    (hv : shiftV k v = .kw h ns nm) : ∃ h', v = .kw h' ns nm := by
  cases v <;> simp [shiftV, Val.setHdr] at hv
  case kw h' ns' nm' => exact ⟨h', by rw [hv.2.1, hv.2.2]⟩

theorem shiftV_eq_sym {k : Nat} {v : Val} {h : Hdr} {md : Option Val} {ns : Option Bytes} {nm : Bytes}
    (hv : shiftV k v = .sym h md ns nm) : ∃ h' md', v = .sym h' md' ns nm := by
  cases v <;> simp [shiftV, Val.setHdr] at hv
  case sym h' md' ns' nm' => exact ⟨h', md', by rw [hv.2.2.1, hv.2.2.2]⟩

theorem rnStep_cut (ctx : Ctx) {RV : RVT} {RM : RMT} (pV : PV RV) (pM : PM RM) (kV : KV RV) (kM : KM RM)
    (d : Nat) (dm : Bool) (start : Nat) (t r : Bytes) (cl : List Call) :
    CutRes r cl (rnStep ctx RV RM d dm (start + r.length) { rest := t ++ r, calls := cl })
      (rnStep ctx RV RM d dm start { rest := t, calls := cl }) := by
  generalize hsm : rnStep ctx RV RM d dm start { rest := t, calls := cl } = small
  unfold rnStep at hsm ⊢
  have k1 := kV d dm t r cl
  have p1 := pV d dm { rest := t ++ r, calls := cl }
  cases hr : RV d dm { rest := t ++ r, calls := cl } with
  | closer st' =>
    rw [hr] at k1; simp only [CutRes] at k1 ⊢
    intro hl
    obtain ⟨t1, rfl, hs1⟩ := k1 hl
    rw [hs1] at hsm; subst hsm
    exact ⟨t1, rfl, rfl⟩
  | err e st' => trivial
  | ok kwv st' =>
    rw [hr] at k1 p1; simp only [CutRes] at k1; simp only [Progress] at p1
    simp only []
    split
    · rename_i h name
      have hws := skipWs_length_le' st'.rest
      cases hs : skipWs st'.rest with
      | nil => trivial
      | cons c rr =>
        simp only []
        rw [hs] at hws; simp only [List.length_cons] at hws
        by_cases hc : (c == 0x7B) = true
        · simp only [hc, ↓reduceIte]
          apply CutRes.of_le
          intro hb
          have h3 := pM d dm (start + r.length) (some name) { rest := rr, calls := st'.calls } [] []
          simp only [] at h3
          obtain ⟨t1, v1, rfl, hs1, hv1⟩ := k1 (by omega)
          obtain ⟨h1, rfl⟩ := shiftV_eq_kw hv1
          simp only [] at hs
          have hcut := skipWs_cut t1 r (by rw [hs]; simp only [List.length_cons]; omega)
          rw [hs] at hcut
          obtain ⟨t2, ht2, rfl⟩ := cons_append_split hcut.symm (by omega)
          rw [hs1] at hsm; simp only [ht2, hc, ↓reduceIte] at hsm
          subst hsm
          have := kM d dm start (some name) t2 r cl [] []
          rw [shiftL_nil] at this
          exact this
        · simp only [hc, Bool.false_eq_true, ↓reduceIte]; trivial
    · trivial

theorem rtStep_cut (ctx : Ctx) (hreg : ctx.opts.registry = none) {RV : RVT} (pV : PV RV) (kV : KV RV)
    (d : Nat) (dm : Bool) (start : Nat) (t r : Bytes) (cl : List Call) :
    CutRes r cl (rtStep ctx RV d dm (start + r.length) { rest := t ++ r, calls := cl })
      (rtStep ctx RV d dm start { rest := t, calls := cl }) := by
  generalize hsm : rtStep ctx RV d dm start { rest := t, calls := cl } = small
  unfold rtStep at hsm ⊢
  simp only [hreg] at hsm ⊢
  cases htr : t ++ r with
  | nil => trivial
  | cons c rest0 =>
    simp only []
    by_cases hws : (c == 0x20 || c == 0x09 || c == 0x0A || c == 0x0D || c == 0x2C) = true
    · simp only [hws, ↓reduceIte]; trivial
    · simp only [hws, Bool.false_eq_true, ↓reduceIte]
      rw [← htr]
      have p1 := readIdentifier_progress' ctx { rest := t ++ r, calls := cl }
      cases hr : readIdentifier ctx { rest := t ++ r, calls := cl } with
      | closer st' => exact absurd hr (readIdentifier_not_closer ctx _ _)
      | err e st' => trivial
      | ok tagv st' =>
        rw [hr] at p1; simp only [Progress] at p1
        simp only []
        split
        · rename_i hh hmd hns hnm
          have p2 := pV (d + 1) dm st'
          cases hr2 : RV (d + 1) dm st' with
          | closer st'' => trivial
          | err e st'' => trivial
          | ok v st'' =>
            rw [hr2] at p2; simp only [Progress] at p2
            simp only []
            intro hl
            obtain ⟨t1, v1, rfl, hs1, hv1⟩ := readIdentifier_cut ctx t r cl _ _ hr (by omega)
            obtain ⟨h1, md1, rfl⟩ := shiftV_eq_sym hv1
            have k2 := kV (d + 1) dm t1 r cl
            rw [hr2] at k2; simp only [CutRes] at k2
            obtain ⟨t2, v2, rfl, hs2, rfl⟩ := k2 hl
            simp only [List.length_append] at p1
            have htne : t ≠ [] := by
              intro h0; subst h0; simp only [List.length_nil] at p1; omega
            obtain ⟨c', t0, rfl⟩ := List.exists_cons_of_ne_nil htne
            simp only [List.cons_append, List.cons.injEq] at htr
            obtain ⟨rfl, -⟩ := htr
            simp only [hws, Bool.false_eq_true, ↓reduceIte] at hsm
            rw [hs1] at hsm; simp only [] at hsm
            rw [hs2] at hsm; simp only [] at hsm
            subst hsm
            refine ⟨t2, _, rfl, rfl, ?_⟩
            rw [shiftV_tagged]
            have e1 : slice (c' :: (t0 ++ r)) (t1 ++ r) = slice (c' :: t0) t1 := slice_append_right (c' :: t0) t1 r
            simp only [Ctx.pos, List.length_append, List.cons_append]
            rw [e1]
        · trivial

theorem rmeStep_cut (ctx : Ctx) {RV : RVT} (pV : PV RV) (nV : NV RV) (kV : KV RV)
    (d : Nat) (dm : Bool) (start : Nat) (t r : Bytes) (cl : List Call) :
    CutRes r cl (rmeStep ctx RV d dm (start + r.length) { rest := t ++ r, calls := cl })
      (rmeStep ctx RV d dm start { rest := t, calls := cl }) := by
  generalize hsm : rmeStep ctx RV d dm start { rest := t, calls := cl } = small
  unfold rmeStep at hsm ⊢
  simp only [] at hsm ⊢
  have k1 := kV (d + 1) dm t r cl
  have p1 := pV (d + 1) dm { rest := t ++ r, calls := cl }
  cases hr : RV (d + 1) dm { rest := t ++ r, calls := cl } with
  | closer st' => trivial
  | err e st' => trivial
  | ok m st' =>
    rw [hr] at k1 p1; simp only [CutRes] at k1; simp only [Progress] at p1
    simp only []
    cases hme : metaEntries m with
    | none => trivial
    | some p =>
      obtain ⟨nks, nvs⟩ := p
      simp only []
      have p2 := pV (d + 1) dm st'
      cases hr2 : RV (d + 1) dm st' with
      | closer st'' => trivial
      | err e st'' => trivial
      | ok form st'' =>
        rw [hr2] at p2; simp only [Progress] at p2
        simp only []
        by_cases hmt : (!form.metaTarget) = true
        · simp only [hmt, ↓reduceIte]; trivial
        · simp only [hmt, Bool.false_eq_true, ↓reduceIte]
          intro hl
          obtain ⟨t1, m1, rfl, hs1, rfl⟩ := k1 (by omega)
          have k2 := kV (d + 1) dm t1 r cl
          rw [hr2] at k2; simp only [CutRes] at k2
          obtain ⟨t2, form1, rfl, hs2, rfl⟩ := k2 hl
          rw [metaEntries_shiftV] at hme
          cases hme1 : metaEntries m1 with
          | none => rw [hme1] at hme; cases hme
          | some p1 =>
            obtain ⟨nks1, nvs1⟩ := p1
            rw [hme1] at hme
            simp only [Option.map_some, Option.some.injEq, Prod.mk.injEq] at hme
            obtain ⟨rfl, rfl⟩ := hme
            rw [metaTarget_shiftV] at hmt
            rw [hs1] at hsm; simp only [hme1] at hsm
            rw [hs2] at hsm; simp only [hmt, Bool.false_eq_true, ↓reduceIte] at hsm
            subst hsm
            refine ⟨t2, _, rfl, rfl, ?_⟩
            have hns : (attachMeta ctx.cfg m1 form1 nks1 nvs1).hdr.synth = false := by
              rw [attachMeta_eq, hdr_setMd]; exact nV _ _ _ _ _ hs2
            rw [shiftV_setHdr, shiftHdr_with_s hns, attachMeta_shiftV, hdr_shiftV]

/-! ## the dispatch -/

theorem readSymbolic_one (ctx : Ctx) (c : UInt8) (cl : List Call) (v : Val) (st' : St) :
    readSymbolic ctx { rest := [c], calls := cl } ≠ .ok v st' := by
  intro h
  unfold readSymbolic at h
  have e1 : startsWith ([] : Bytes) (strBytes "Inf") = false := by decide +kernel
  have e2 : startsWith ([] : Bytes) (strBytes "-Inf") = false := by decide +kernel
  have e3 : startsWith ([] : Bytes) (strBytes "NaN") = false := by decide +kernel
  simp only [List.drop_succ_cons, List.drop_nil, e1, e2, e3, Bool.false_eq_true, ↓reduceIte] at h
  cases h

/-- a signed number consumes its first digit -/
theorem readNumberRes_sign_strict (ctx : Ctx) (c nx : UInt8) (r' : Bytes) (cl : List Call) (v : Val) (st' : St)
    (hs : (c == 0x2B || c == 0x2D) = true) (hd : is09 nx = true)
    (h : readNumberRes ctx { rest := c :: nx :: r', calls := cl } = .ok v st') :
    st'.rest.length < (nx :: r').length := by
  unfold readNumberRes at h
  simp only [] at h
  have hb := readNumberBody_prog ctx.cfg (c :: nx :: r') (peek (c :: nx :: r') == 0x2D) (adv (c :: nx :: r')) hd
  have he := readNumber_eq ctx.cfg (c :: nx :: r')
  have : (peek (c :: nx :: r') == 0x2D || peek (c :: nx :: r') == 0x2B) = true := by
    simp only [peek, List.headD_cons]
    rw [Bool.or_comm]; exact hs
  rw [this] at he
  simp only [↓reduceIte] at he
  rw [he] at h
  cases hb' : readNumberBody ctx.cfg (c :: nx :: r') (peek (c :: nx :: r') == 0x2D) (adv (c :: nx :: r')) with
  | ok x rest =>
    rw [hb'] at h hb
    simp only [Res.ok.injEq] at h
    obtain ⟨-, rfl⟩ := h
    simp only [numProg, adv, List.tail_cons] at hb
    exact hb
  | err cur =>
    rw [hb'] at h
    cases h

theorem rvStep_cut (ctx : Ctx) {RV : RVT} {RS : RST} {RM : RMT} {RN RT RMe : R4T}
    (pV : PV RV) (pS : PS RS) (pN : P4 RN) (sN : SN4 RN) (kV : KV RV) (kS : KS RS) (kM : KM RM) (kN : K4 RN) (kT : K4 RT) (kMe : K4 RMe)
    (d : Nat) (dm : Bool) (cl : List Call) (c : UInt8) (cs r : Bytes) :
    CutRes r cl (rvStep ctx RV RS RM RN RT RMe d dm cl c (cs ++ r)) (rvStep ctx RV RS RM RN RT RMe d dm cl c cs) := by
  unfold rvStep
  simp only []
  have hpos : ctx.pos (c :: (cs ++ r)) = ctx.pos (c :: cs) + r.length := by
    simp only [Ctx.pos, List.length_cons, List.length_append]; omega
  rw [hpos]
  obtain ⟨c1, c2, c3, c4, c5⟩ := leaf_not_closer ctx { rest := (c :: cs) ++ r, calls := cl }
  have lS : CutRes r cl (readString ctx { rest := c :: (cs ++ r), calls := cl }) (readString ctx { rest := c :: cs, calls := cl }) :=
    leaf_cutRes (L := readString ctx) (t := c :: cs) c1 (fun v st' h hl => readString_cut ctx (c :: cs) r cl v st' h hl)
  have lC : CutRes r cl (readCharacter ctx { rest := c :: (cs ++ r), calls := cl }) (readCharacter ctx { rest := c :: cs, calls := cl }) :=
    leaf_cutRes (L := readCharacter ctx) (t := c :: cs) c2
      (fun v st' h hl => readCharacter_cut ctx (c :: cs) r cl v st' h hl)
  have lI : CutRes r cl (readIdentifier ctx { rest := c :: (cs ++ r), calls := cl }) (readIdentifier ctx { rest := c :: cs, calls := cl }) :=
    leaf_cutRes (L := readIdentifier ctx) (t := c :: cs) c3 (fun v st' h hl => readIdentifier_cut ctx (c :: cs) r cl v st' h hl)
  have lY : CutRes r cl (readSymbolic ctx { rest := c :: (cs ++ r), calls := cl }) (readSymbolic ctx { rest := c :: cs, calls := cl }) :=
    leaf_cutRes (L := readSymbolic ctx) (t := c :: cs) c4 (fun v st' h hl => readSymbolic_cut ctx (c :: cs) r cl v st' h hl)
  have lN : CutRes r cl (readNumberRes ctx { rest := c :: (cs ++ r), calls := cl }) (readNumberRes ctx { rest := c :: cs, calls := cl }) :=
    leaf_cutRes (L := readNumberRes ctx) (t := c :: cs) c5
      (fun v st' h hl => readNumberRes_cut ctx (c :: cs) r cl v st' h hl)
  cases hdisp : dispatch ctx.cfg c with
  | string => exact lS
  | character => exact lC
  | listOpen =>
    simp only []
    split
    · trivial
    · have := kS d dm 0 (ctx.pos (c :: cs)) cs r cl []
      rw [shiftL_nil] at this; exact this
  | vectorOpen =>
    simp only []
    split
    · trivial
    · have := kS d dm 1 (ctx.pos (c :: cs)) cs r cl []
      rw [shiftL_nil] at this; exact this
  | mapOpen =>
    simp only []
    split
    · trivial
    · have := kM d dm (ctx.pos (c :: cs)) none cs r cl [] []
      rw [shiftL_nil] at this; exact this
  | hash =>
    simp only []
    cases cs with
    | nil =>
      simp only [List.nil_append]
      cases r with
      | nil => exact kT d dm (ctx.pos [c]) [] [] cl
      | cons nx r' =>
        simp only []
        split
        · -- `##…` would need two bytes of the token
          cases hrs : readSymbolic ctx { rest := c :: nx :: r', calls := cl } with
          | ok v st' =>
            intro hl
            obtain ⟨t', v', -, hsm, -⟩ := readSymbolic_cut ctx [c] (nx :: r') cl v st' hrs hl
            exact absurd hsm (readSymbolic_one ctx c cl _ _)
          | closer st' => rw [List.cons_append, List.nil_append, hrs] at c4; cases c4
          | err e st' => trivial
        split
        · trivial
        split
        · exact CutRes.vac_lt (by
            have := pS d dm 2 (ctx.pos [c] + (nx :: r').length) { rest := r', calls := cl } []
            simp only [List.length_cons] at this ⊢; omega)
        split
        · have p1 := pV (d + 1) true { rest := r', calls := cl }
          cases hr1 : RV (d + 1) true { rest := r', calls := cl } with
          | ok v1 st1 =>
            rw [hr1] at p1; simp only [Progress] at p1
            simp only []
            exact CutRes.vac_lt (by
              have := (pV d dm st1).st_le
              simp only [List.length_cons] at this ⊢; omega)
          | closer st1 => trivial
          | err e st1 => trivial
        split
        · cases hrn : RN d dm (ctx.pos [c] + (nx :: r').length) { rest := nx :: r', calls := cl } with
          | ok v st' =>
            intro hl
            have := sN _ _ _ _ _ _ hrn
            simp only [] at this; omega
          | closer st' =>
            intro hl
            have := pN d dm (ctx.pos [c] + (nx :: r').length) { rest := nx :: r', calls := cl }
            rw [hrn] at this
            simp only [Res.st] at this
            omega
          | err e st' => trivial
        · have := kT d dm (ctx.pos [c]) [] (nx :: r') cl
          simp only [List.nil_append] at this
          exact this
    | cons nx cs' =>
      simp only [List.cons_append]
      split
      · exact lY
      split
      · trivial
      split
      · have := kS d dm 2 (ctx.pos (c :: nx :: cs')) cs' r cl []
        rw [shiftL_nil] at this; exact this
      split
      · have k1 := kV (d + 1) true cs' r cl
        have p1 := pV (d + 1) true { rest := cs' ++ r, calls := cl }
        cases hr1 : RV (d + 1) true { rest := cs' ++ r, calls := cl } with
        | ok v1 st1 =>
          rw [hr1] at k1 p1; simp only [CutRes] at k1; simp only [Progress] at p1
          simp only []
          apply CutRes.of_le
          intro hb
          have := (pV d dm st1).st_le
          obtain ⟨t1, v1', rfl, hs1, -⟩ := k1 (by omega)
          rw [hs1]
          simp only []
          exact kV d dm t1 r cl
        | closer st1 => trivial
        | err e st1 => trivial
      split
      · exact kN d dm (ctx.pos (c :: nx :: cs')) (nx :: cs') r cl
      · exact kT d dm (ctx.pos (c :: nx :: cs')) (nx :: cs') r cl
  | sign =>
    simp only []
    have hsg := dispatch_sign hdisp
    cases cs with
    | nil =>
      simp only [List.nil_append]
      cases r with
      | nil => exact lI
      | cons nx r' =>
        simp only []
        split
        · rename_i hnx
          cases hrn : readNumberRes ctx { rest := c :: nx :: r', calls := cl } with
          | ok v st' =>
            intro hl
            have := readNumberRes_sign_strict ctx c nx r' cl v st' hsg hnx hrn
            omega
          | closer st' => rw [List.cons_append, List.nil_append, hrn] at c5; cases c5
          | err e st' => trivial
        · exact lI
    | cons nx t0 =>
      simp only [List.cons_append]
      split
      · exact lN
      · exact lI
  | digit => exact lN
  | delimiter =>
    simp only []
    split
    · trivial
    · intro _
      exact ⟨c :: cs, rfl, rfl⟩
  | metadata =>
    simp only []
    split
    · trivial
    · exact kMe d dm (ctx.pos (c :: cs)) cs r cl
  | identifier => exact lI

theorem rvOuter_cut (ctx : Ctx) {RV : RVT} {RS : RST} {RM : RMT} {RN RT RMe : R4T}
    (pV : PV RV) (pS : PS RS) (pM : PM RM) (pN : P4 RN) (pT : P4 RT) (pMe : P4 RMe) (sN : SN4 RN)
    (kV : KV RV) (kS : KS RS) (kM : KM RM) (kN : K4 RN) (kT : K4 RT) (kMe : K4 RMe)
    (d : Nat) (dm : Bool) (t r : Bytes) (cl : List Call) :
    CutRes r cl (rvOuter ctx RV RS RM RN RT RMe d dm { rest := t ++ r, calls := cl })
      (rvOuter ctx RV RS RM RN RT RMe d dm { rest := t, calls := cl }) := by
  cases t with
  | nil =>
    exact CutRes.vac (rvOuter_progress ctx pV pS pM pN pT pMe d dm { rest := [] ++ r, calls := cl }) (by simp)
  | cons c0 t0 =>
    unfold rvOuter
    simp only [List.cons_append]
    rw [preWs_eq_skipWs, preWs_eq_skipWs]
    cases hb : skipWs (c0 :: (t0 ++ r)) with
    | nil => simp only [eofErrOf]; trivial
    | cons c csb =>
      simp only []
      apply CutRes.of_le
      intro hle
      have hp := rvStep_progress ctx (RV := RV) (RS := RS) (RM := RM) (RN := RN) (RT := RT) (RMe := RMe)
        pV pS pM pN pT pMe d dm cl c csb
      have hcut := skipWs_cut (c0 :: t0) r (by
        rw [List.cons_append, hb]
        have := hp.st_le
        simp only [List.length_cons] at this ⊢
        omega)
      rw [List.cons_append, hb] at hcut
      cases hs : skipWs (c0 :: t0) with
      | nil =>
        rw [hs] at hcut
        simp only [List.nil_append] at hcut
        exact CutRes.vac hp (by rw [hcut]; exact Nat.le_refl _)
      | cons c' cs' =>
        rw [hs] at hcut
        simp only [List.cons_append, List.cons.injEq] at hcut
        obtain ⟨rfl, rfl⟩ := hcut
        simp only []
        exact rvStep_cut ctx pV pS pN sN kV kS kM kN kT kMe d dm cl c cs' r

/-! ## the induction -/

theorem rnStep_strict (ctx : Ctx) {RV : RVT} {RM : RMT} (pV : PV RV) (pM : PM RM)
    (d : Nat) (dm : Bool) (start : Nat) (st : St) (v : Val) (st' : St)
    (h : rnStep ctx RV RM d dm start st = .ok v st') : st'.rest.length < st.rest.length := by
  unfold rnStep at h
  have p1 := pV d dm st
  cases hr : RV d dm st with
  | closer st1 => rw [hr] at h; cases h
  | err e st1 => rw [hr] at h; cases h
  | ok kwv st1 =>
    rw [hr] at h p1; simp only [Progress] at p1
    simp only [] at h
    have hws := skipWs_length_le' st1.rest
    split at h
    · split at h
      · rename_i c rr heq
        rw [heq] at hws; simp only [List.length_cons] at hws
        split at h
        · rename_i name _ _
          have := pM d dm start (some name) { rest := rr, calls := st1.calls } [] []
          rw [h] at this
          simp only [Res.st] at this
          omega
        · cases h
      · cases h
    · cases h

theorem readNsMap_strict (ctx : Ctx) (f : Nat) : SN4 (readNsMap ctx f) := by
  intro d dm start st v st' h
  cases f with
  | zero => rw [readNsMap_zero] at h; cases h
  | succ f =>
    obtain ⟨pV, -, pM, -, -, -⟩ := reader_progress' ctx f
    rw [readNsMap_succ] at h
    exact rnStep_strict ctx pV pM _ _ _ _ _ _ h

/-- continuation independence for all six mutually recursive functions, for every fuel -/
theorem reader_cut (ctx : Ctx) (hreg : ctx.opts.registry = none) : ∀ (f : Nat),
    KV (readValue ctx f) ∧ KS (readSeq ctx f) ∧ KM (readMap ctx f) ∧ K4 (readNsMap ctx f) ∧
    K4 (readTagged ctx f) ∧ K4 (readMeta ctx f) := by
  intro f
  induction f with
  | zero =>
    refine ⟨?_, ?_, ?_, ?_, ?_, ?_⟩
    · intro d dm t r cl; rw [readValue_zero]; trivial
    · intro d dm kind start t r cl acc; rw [readSeq_zero]; trivial
    · intro d dm start ns t r cl ks vs; rw [readMap_zero]; trivial
    · intro d dm start t r cl; rw [readNsMap_zero]; trivial
    · intro d dm start t r cl; rw [readTagged_zero]; trivial
    · intro d dm start t r cl; rw [readMeta_zero]; trivial
  | succ f ih =>
    obtain ⟨kV, kS, kM, kN, kT, kMe⟩ := ih
    obtain ⟨pV, pS, pM, pN, pT, pMe⟩ := reader_progress' ctx f
    have nV : NV (readValue ctx f) := by
      intro d dm st v st' h
      have q := (reader_post ctx f).1 d dm st
      rw [h] at q
      exact (q hreg).nsyn
    have sN := readNsMap_strict ctx f
    refine ⟨?_, ?_, ?_, ?_, ?_, ?_⟩
    · intro d dm t r cl; rw [readValue_succ, readValue_succ]
      exact rvOuter_cut ctx pV pS pM pN pT pMe sN kV kS kM kN kT kMe d dm t r cl
    · intro d dm kind start t r cl acc; rw [readSeq_succ, readSeq_succ]
      exact rsStep_cut ctx pV pS kV kS d dm kind start t r cl acc
    · intro d dm start ns t r cl ks vs; rw [readMap_succ, readMap_succ]
      exact rmStep_cut ctx pV pM kV kM d dm start ns t r cl ks vs
    · intro d dm start t r cl; rw [readNsMap_succ, readNsMap_succ]
      exact rnStep_cut ctx pV pM kV kM d dm start t r cl
    · intro d dm start t r cl; rw [readTagged_succ, readTagged_succ]
      exact rtStep_cut ctx hreg pV kV d dm start t r cl
    · intro d dm start t r cl; rw [readMeta_succ, readMeta_succ]
      exact rmeStep_cut ctx pV nV kV d dm start t r cl

/-- the cut property of `readValue`, unfolded -/
theorem readValue_cut_gen (ctx : Ctx) (hreg : ctx.opts.registry = none) (f d : Nat) (dm : Bool) (t r : Bytes)
    (cl : List Call) (v : Val) (st' : St)
    (h : readValue ctx f d dm { rest := t ++ r, calls := cl } = .ok v st') (hl : r.length ≤ st'.rest.length) :
    ∃ t' v', st' = { rest := t' ++ r, calls := cl } ∧
      readValue ctx f d dm { rest := t, calls := cl } = .ok v' { rest := t', calls := cl } ∧ shiftV r.length v' = v := by
  have k := (reader_cut ctx hreg f).1 d dm t r cl
  rw [h] at k
  exact k hl

/-- what a successful read leaves is a suffix of what it started from; the call log is untouched -/
theorem readValue_rest_suffix (ctx : Ctx) (hreg : ctx.opts.registry = none) (f d : Nat) (dm : Bool) (st st' : St) (v : Val)
    (h : readValue ctx f d dm st = .ok v st') : st'.rest <:+ st.rest ∧ st'.calls = st.calls := by
  have hp := (reader_progress' ctx f).1 d dm st
  rw [h] at hp; simp only [Progress] at hp
  obtain ⟨s, cl⟩ := st
  simp only [] at hp ⊢
  generalize hn : st'.rest.length = n at hp
  have hsplit : s = s.take (s.length - n) ++ s.drop (s.length - n) := (List.take_append_drop _ _).symm
  rw [hsplit] at h
  have hlen : (s.drop (s.length - n)).length = n := by
    simp only [List.length_drop]; omega
  obtain ⟨t', v', hst, -, -⟩ := readValue_cut_gen ctx hreg f d dm _ _ cl v st' h (by omega)
  subst hst
  simp only [List.length_append] at hn
  have : t' = [] := List.eq_nil_of_length_eq_zero (by omega)
  subst this
  exact ⟨by simp only [List.nil_append]; exact List.drop_suffix _ _, rfl⟩

end Edn.Proofs
