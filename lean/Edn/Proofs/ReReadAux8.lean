/-
  Edn.Proofs.ReReadAux8 — continuation independence of the step functions of the reader:
  what follows a form does not influence how the form is read.
-/
import Edn.Proofs.ReReadAux1
import Edn.Proofs.ReReadAuxLeafStub
import Edn.Proofs.RangesAux4

namespace Edn.Proofs
open Edn.Model Edn.Spec
open Edn.Generated

/-- `big` is the answer on an input followed by `r`, `small` the answer on the input alone:
    if `big` is a value or a closing delimiter found without touching `r`, then `small` is the
    same answer with every position smaller by `r.length` -/
def CutRes (r : Bytes) (cl : List Call) (big small : Res) : Prop :=
  match big with
  | .ok v st' => r.length ≤ st'.rest.length →
      ∃ t' v', st' = { rest := t' ++ r, calls := cl } ∧ small = .ok v' { rest := t', calls := cl } ∧
        shiftV r.length v' = v
  | .closer st' => r.length < st'.rest.length →
      ∃ t', st' = { rest := t' ++ r, calls := cl } ∧ small = .closer { rest := t', calls := cl }
  | .err _ _ => True

theorem CutRes.of_le {r : Bytes} {cl : List Call} {big small : Res}
    (h : r.length ≤ big.st.rest.length → CutRes r cl big small) : CutRes r cl big small := by
  cases big with
  | ok v st' => intro hl; exact h hl hl
  | closer st' => intro hl; exact h (Nat.le_of_lt hl) hl
  | err e st' => trivial

theorem CutRes.vac {r : Bytes} {cl : List Call} {big small : Res} {st : St}
    (hp : Progress st big) (hst : st.rest.length ≤ r.length) : CutRes r cl big small := by
  cases big with
  | ok v st' => intro hl; simp only [Progress] at hp; omega
  | closer st' => intro hl; simp only [Progress] at hp; omega
  | err e st' => trivial

theorem CutRes.vac_lt {r : Bytes} {cl : List Call} {big small : Res}
    (hp : big.st.rest.length < r.length) : CutRes r cl big small := by
  cases big with
  | ok v st' => intro hl; simp only [Res.st] at hp; omega
  | closer st' => intro hl; simp only [Res.st] at hp; omega
  | err e st' => trivial

def KV (RV : RVT) : Prop := ∀ d dm t r cl,
  CutRes r cl (RV d dm { rest := t ++ r, calls := cl }) (RV d dm { rest := t, calls := cl })
def KS (RS : RST) : Prop := ∀ d dm kind start t r cl acc,
  CutRes r cl (RS d dm kind (start + r.length) { rest := t ++ r, calls := cl } (shiftL r.length acc))
    (RS d dm kind start { rest := t, calls := cl } acc)
def KM (RM : RMT) : Prop := ∀ d dm start ns t r cl ks vs,
  CutRes r cl (RM d dm (start + r.length) ns { rest := t ++ r, calls := cl } (shiftL r.length ks) (shiftL r.length vs))
    (RM d dm start ns { rest := t, calls := cl } ks vs)
def K4 (R : R4T) : Prop := ∀ d dm start t r cl,
  CutRes r cl (R d dm (start + r.length) { rest := t ++ r, calls := cl }) (R d dm start { rest := t, calls := cl })

/-- successful answers carry a header read from the text -/
def NV (RV : RVT) : Prop := ∀ d dm st v st', RV d dm st = .ok v st' → v.hdr.synth = false
/-- a successful answer consumed at least one byte -/
def SN4 (R : R4T) : Prop := ∀ d dm start st v st', R d dm start st = .ok v st' → st'.rest.length < st.rest.length

/-- a leaf reader with a cut lemma -/
theorem leaf_cutRes {L : St → Res} {t r : Bytes} {cl : List Call} (hc : (L { rest := t ++ r, calls := cl }).isCloser = false)
    (hcut : ∀ v st', L { rest := t ++ r, calls := cl } = .ok v st' → r.length ≤ st'.rest.length →
      ∃ t' v', st' = { rest := t' ++ r, calls := cl } ∧ L { rest := t, calls := cl } = .ok v' { rest := t', calls := cl } ∧
        shiftV r.length v' = v) :
    CutRes r cl (L { rest := t ++ r, calls := cl }) (L { rest := t, calls := cl }) := by
  cases hr : L { rest := t ++ r, calls := cl } with
  | ok v st' => exact fun hl => hcut v st' hr hl
  | closer st' => rw [hr] at hc; cases hc
  | err e st' => trivial

theorem cons_append_split {c : UInt8} {r2 t' r : Bytes} (h : t' ++ r = c :: r2) (hl : r.length ≤ r2.length) :
    ∃ t2, t' = c :: t2 ∧ r2 = t2 ++ r := by
  cases t' with
  | nil =>
    simp only [List.nil_append] at h
    subst h
    simp only [List.length_cons] at hl
    omega
  | cons a t2 =>
    simp only [List.cons_append, List.cons.injEq] at h
    exact ⟨t2, by rw [h.1], h.2.symm⟩

theorem shiftV_list (k start stop : Nat) (xs : List Val) :
    shiftV k (.list (mkHdr start stop) none xs) = .list (mkHdr (start + k) (stop + k)) none (shiftL k xs) := by
  simp [shiftV, shiftHdr_mk, shiftO]
theorem shiftV_vec (k start stop : Nat) (xs : List Val) :
    shiftV k (.vec (mkHdr start stop) none xs) = .vec (mkHdr (start + k) (stop + k)) none (shiftL k xs) := by
  simp [shiftV, shiftHdr_mk, shiftO]
theorem shiftV_set (k start stop : Nat) (xs : List Val) :
    shiftV k (.set (mkHdr start stop) none xs) = .set (mkHdr (start + k) (stop + k)) none (shiftL k xs) := by
  simp [shiftV, shiftHdr_mk, shiftO]
theorem shiftV_map (k start stop : Nat) (ks vs : List Val) :
    shiftV k (.map (mkHdr start stop) none ks vs) =
      .map (mkHdr (start + k) (stop + k)) none (shiftL k ks) (shiftL k vs) := by
  simp [shiftV, shiftHdr_mk, shiftO]
theorem shiftV_tagged (k start stop : Nat) (tag : Bytes) (v : Val) :
    shiftV k (.tagged (mkHdr start stop) none tag v) = .tagged (mkHdr (start + k) (stop + k)) none tag (shiftV k v) := by
  simp [shiftV, shiftHdr_mk, shiftO]

/-! ## sequences -/

theorem rsStep_cut (ctx : Ctx) {RV : RVT} {RS : RST} (pV : PV RV) (pS : PS RS) (kV : KV RV) (kS : KS RS)
    (d : Nat) (dm : Bool) (kind start : Nat) (t r : Bytes) (cl : List Call) (acc : List Val) :
    CutRes r cl (rsStep ctx RV RS d dm kind (start + r.length) { rest := t ++ r, calls := cl } (shiftL r.length acc))
      (rsStep ctx RV RS d dm kind start { rest := t, calls := cl } acc) := by
  generalize hsm : rsStep ctx RV RS d dm kind start { rest := t, calls := cl } acc = small
  unfold rsStep at hsm ⊢
  have k1 := kV (d + 1) dm t r cl
  have p1 := pV (d + 1) dm { rest := t ++ r, calls := cl }
  cases hr : RV (d + 1) dm { rest := t ++ r, calls := cl } with
  | ok v st' =>
    rw [hr] at k1 p1; simp only [CutRes] at k1; simp only [Progress] at p1
    simp only []
    apply CutRes.of_le
    intro hb
    have h2 := pS d dm kind (start + r.length) st' (v :: shiftL r.length acc)
    obtain ⟨t1, v1, rfl, hs1, rfl⟩ := k1 (by omega)
    rw [hs1] at hsm; simp only [] at hsm
    subst hsm
    have := kS d dm kind start t1 r cl (v1 :: acc)
    rw [shiftL_cons] at this
    exact this
  | err e st' =>
    simp only []
    split <;> trivial
  | closer st' =>
    rw [hr] at k1; simp only [CutRes] at k1
    simp only []
    cases hs : st'.rest with
    | nil => trivial
    | cons c r2 =>
      simp only []
      by_cases hc : (c != closerByte kind) = true
      · simp only [hc, ↓reduceIte]; trivial
      · simp only [hc, Bool.false_eq_true, ↓reduceIte]
        by_cases hle : r.length ≤ r2.length
        · obtain ⟨t1, hst, hs1⟩ := k1 (by rw [hs]; simp only [List.length_cons]; omega)
          subst hst
          simp only [] at hs
          obtain ⟨t2, rfl, rfl⟩ := cons_append_split hs hle
          rw [hs1] at hsm; simp only [hc, Bool.false_eq_true, ↓reduceIte] at hsm
          have hpos : ctx.pos (t2 ++ r) = ctx.pos t2 + r.length := by simp [Ctx.pos]
          by_cases hk0 : (kind == 0) = true
          · simp only [hk0, ↓reduceIte] at hsm ⊢
            subst hsm
            intro _
            exact ⟨t2, _, rfl, rfl, by rw [shiftV_list, shiftL_reverse, hpos]⟩
          · simp only [hk0, Bool.false_eq_true, ↓reduceIte] at hsm ⊢
            by_cases hk1 : (kind == 1) = true
            · simp only [hk1, ↓reduceIte] at hsm ⊢
              subst hsm
              intro _
              exact ⟨t2, _, rfl, rfl, by rw [shiftV_vec, shiftL_reverse, hpos]⟩
            · simp only [hk1, Bool.false_eq_true, ↓reduceIte] at hsm ⊢
              rw [← shiftL_reverse, hasDuplicates_shiftL]
              simp only []
              cases hd : hasDuplicates ctx.cfg acc.reverse with
              | mk dup ys =>
                rw [hd] at hsm
                simp only [] at hsm ⊢
                cases dup with
                | true => simp only [↓reduceIte]; trivial
                | false =>
                  simp only [Bool.false_eq_true, ↓reduceIte] at hsm ⊢
                  subst hsm
                  intro _
                  exact ⟨t2, _, rfl, rfl, by rw [shiftV_set, hpos]⟩
        · have hv : ∀ (x : Val), CutRes r cl (.ok x { st' with rest := r2 }) small := by
            intro x hl; simp only [] at hl; omega
          repeat' split
          all_goals first | trivial | exact hv _

end Edn.Proofs
