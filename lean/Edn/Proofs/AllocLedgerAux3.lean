/-
  Edn.Proofs.AllocLedgerAux3 — the builders, the metadata merge, the number reader (with the heap
  copy of a long float literal: `malloc`, `strtod`, `free`) and the leaf readers other than the
  text block keep the ledger (`Good`).
-/
import Edn.Proofs.AllocLedgerAux2
import Edn.Proofs.AllocNumber

namespace Edn.Proofs.AllocLedger
open Edn.Model Edn.Proofs.AllocBasic Edn.Proofs.AllocNumber

/-! ## Builders -/

theorem BSt.add_good (x : ACtx) (b : BSt) (a : ASt) : Good a (b.add x a).2 := by
  unfold BSt.add
  split
  · cases hr : (a.request x.orc .arena).1 <;> simp only [hr] <;> exact request_good x.orc a 0
  · exact Good.refl a

theorem BSt.finish_good (x : ACtx) (b : BSt) (a : ASt) : Good a (b.finish x a).2 := by
  unfold BSt.finish
  split
  · exact request_good x.orc a 0
  · exact Good.refl a

theorem BSt.addPair_good (x : ACtx) (b : BSt) (a : ASt) : Good a (b.addPair x a).2 := by
  unfold BSt.addPair
  split
  · have h1 := request_good x.orc a 0
    have h2 := request_good x.orc (a.request x.orc .arena).2 0
    cases hr1 : (a.request x.orc .arena).1 <;>
      cases hr2 : ((a.request x.orc .arena).2.request x.orc .arena).1 <;>
        simp only [hr1, hr2, Bool.and_self, Bool.and_false, Bool.false_and, Bool.false_eq_true, ↓reduceIte] <;>
          exact Good.trans h1 h2
  · exact Good.refl a

theorem finishPair_good (x : ACtx) (b : BSt) (a : ASt) : Good a (b.finishPair x a).2 := by
  unfold BSt.finishPair
  split
  · have h1 := request_good x.orc a 0
    rcases hq1 : a.request x.orc .arena with ⟨ok1, a1⟩
    rw [hq1] at h1
    dsimp only
    have h2 := request_good x.orc a1 0
    rcases hq2 : a1.request x.orc .arena with ⟨ok2, a2⟩
    rw [hq2] at h2
    exact Good.trans h1 h2
  · exact Good.refl a
theorem metaEntryA_good (x : ACtx) (m : Val) (a : ASt) : Good a (metaEntryA x m a).2 := by
  unfold metaEntryA
  split
  · exact Good.refl a
  · have h1 := request_good x.orc a 0
    rcases hq1 : a.request x.orc .arena with ⟨okV, a1⟩
    rw [hq1] at h1
    cases okV
    · exact h1
    · dsimp only
      have h2 := request_good x.orc a1 0
      rcases hq2 : a1.request x.orc .arena with ⟨ok1, a2⟩
      rw [hq2] at h2
      dsimp only
      have h3 := request_good x.orc a2 0
      rcases hq3 : a2.request x.orc .arena with ⟨ok2, a3⟩
      rw [hq3] at h3
      exact Good.trans h1 (Good.trans h2 h3)

theorem keepOldA_good (x : ACtx) (newKeys ks vs : List Val) (a : ASt) : Good a (keepOldA x newKeys ks vs a).2 := by
  induction ks generalizing vs a with
  | nil => cases vs <;> exact Good.refl a
  | cons k ks ih =>
    cases vs with
    | nil => exact Good.refl a
    | cons v vs =>
      unfold keepOldA
      have h1 := anyA_good (equalA x) (equalA_good x) k newKeys a
      rcases hq1 : anyA (equalA x) k newKeys a with ⟨found, a1⟩
      rw [hq1] at h1
      dsimp only
      have h2 := ih vs a1
      rcases hq2 : keepOldA x newKeys ks vs a1 with ⟨⟨ks', vs'⟩, a2⟩
      rw [hq2] at h2
      exact Good.trans h1 h2

theorem attachMetaA_good (x : ACtx) (m form : Val) (nks nvs : List Val) (a : ASt) :
    Good a (attachMetaA x m form nks nvs a).2 := by
  unfold attachMetaA
  split
  · next h md ks vs _ =>
    have h1 := metaEntryA_good x m a
    rcases hq1 : metaEntryA x m a with ⟨okE, a1⟩
    rw [hq1] at h1
    cases okE
    · exact h1
    · dsimp only
      have h2 := request_good x.orc a1 0
      rcases hq2 : a1.request x.orc .arena with ⟨ok1, a2⟩
      rw [hq2] at h2
      dsimp only
      have h3 := request_good x.orc a2 0
      rcases hq3 : a2.request x.orc .arena with ⟨ok2, a3⟩
      rw [hq3] at h3
      dsimp only
      have h123 : Good a a3 := Good.trans h1 (Good.trans h2 h3)
      cases hb : (!(ok1 && ok2))
      · simp only [Bool.false_eq_true, ↓reduceIte]
        have h4 := keepOldA_good x nks ks vs a3
        rcases hq4 : keepOldA x nks ks vs a3 with ⟨⟨oks, ovs⟩, a4⟩
        rw [hq4] at h4
        simp only [Bool.not_true, Bool.false_eq_true, ↓reduceIte]
        split <;> exact Good.trans h123 h4
      · simp only [↓reduceIte]
        exact h123
  · have h1 := request_good x.orc a 0
    rcases hq1 : a.request x.orc .arena with ⟨okM, a1⟩
    rw [hq1] at h1
    cases okM
    · exact h1
    · dsimp only
      have h2 := metaEntryA_good x m a1
      rcases hq2 : metaEntryA x m a1 with ⟨okE, a2⟩
      rw [hq2] at h2
      cases okE <;> exact Good.trans h1 h2


theorem floatHeapA_good (x : ACtx) (heap : Bool) (a : ASt) : Good a (floatHeapA x heap a).2 := by
  unfold floatHeapA
  split
  · split
    · next i a' e => exact bracket x.orc .malloc (Or.inl rfl) a a' a' i e (Good.refl a')
    · next a' e => exact rawAlloc_none_good x.orc .malloc (Or.inl rfl) a a' e
  · exact Good.refl a

theorem numCreateA_good (x : ACtx) (st : St) (a : ASt) (v : NumVal) (p : Bytes) (validate : Bool) :
    Good a (numCreateA x st a v p validate).2 := by
  unfold numCreateA
  have h1 := request_good x.orc a 0
  have h2 := floatHeapA_good x (numNeedsHeap x.ctx.cfg v (slice st.rest p)) (a.request x.orc .arena).2
  simp only []
  repeat' split
  all_goals first | exact h1 | exact Good.trans h1 h2

theorem readNumberResA_good (x : ACtx) (st : St) (a : ASt) : Good a (readNumberResA x st a).2 := by
  unfold readNumberResA
  apply readNumberK_pred (fun r : Res × ASt => Good a r.2)
  · intro v p validate; exact numCreateA_good x st a v p validate
  · intro cur; exact Good.refl a


theorem readIdentifierA_good (x : ACtx) (st : St) (a : ASt) : Good a (readIdentifierA x st a).2 := by
  unfold readIdentifierA
  cases readIdentifier x.ctx st with
  | ok v st' =>
    cases hr : (a.request x.orc .arena).1 <;> simp only [hr] <;> exact request_good x.orc a 0
  | closer st' => exact Good.refl a
  | err e st' => exact Good.refl a

theorem readCharacterA_good (x : ACtx) (st : St) (a : ASt) : Good a (readCharacterA x st a).2 := by
  unfold readCharacterA
  cases readCharacter x.ctx st with
  | ok v st' =>
    cases hr : (a.request x.orc .arena).1 <;> simp only [hr] <;> exact request_good x.orc a 0
  | closer st' => exact Good.refl a
  | err e st' => exact Good.refl a

theorem readSymbolicA_good (x : ACtx) (st : St) (a : ASt) : Good a (readSymbolicA x st a).2 := by
  unfold readSymbolicA
  cases readSymbolic x.ctx st with
  | ok v st' =>
    cases hr : (a.request x.orc .arena).1 <;> simp only [hr] <;> exact request_good x.orc a 0
  | closer st' => exact Good.refl a
  | err e st' => exact Good.refl a

/-! ## A value is returned only while the parser's arena exists -/

/-- what every reader function guarantees about the allocation state it returns: the ledger is
    kept, and a value is returned only when the parser's arena exists -/
def RG (a : ASt) (r : Res × ASt) : Prop := Good a r.2 ∧ ∀ v st', r.1 = .ok v st' → a.arena = .alive

theorem RG.err {a a' : ASt} (g : Good a a') (e : ErrInfo) (st : St) : RG a (.err e st, a') :=
  ⟨g, nofun⟩

theorem RG.closer {a a' : ASt} (g : Good a a') (st : St) : RG a (.closer st, a') :=
  ⟨g, nofun⟩

theorem RG.fuelOut (a : ASt) (st : St) : RG a (fuelOut st, a) := RG.err (Good.refl a) _ _

/-- a value made by a granted request -/
theorem RG.ok {a a1 : ASt} (g : Good a a1) (orc : Nat → Bool) (h : (a1.request orc .arena).1 = true)
    (v : Val) (st : St) : RG a (.ok v st, (a1.request orc .arena).2) :=
  ⟨Good.trans g (request_good orc a1 0), fun _ _ _ => g.arena ▸ request_arena_alive orc a1 0 h⟩

/-- the result of a later call -/
theorem RG.after {a a1 : ASt} {r : Res × ASt} (g : Good a a1) (h : RG a1 r) : RG a r :=
  ⟨Good.trans g h.1, fun v st' e => g.arena ▸ h.2 v st' e⟩

/-- the value of an earlier call, passed on after further work on the allocation state -/
theorem RG.pass {a a1 a2 : ASt} {w : Val} {st1 : St} (h : RG a (.ok w st1, a1)) (g : Good a1 a2)
    (r : Res) : RG a (r, a2) :=
  ⟨Good.trans h.1 g, fun _ _ _ => h.2 w st1 rfl⟩

theorem readIdentifierA_rg (x : ACtx) (st : St) (a : ASt) : RG a (readIdentifierA x st a) := by
  refine ⟨readIdentifierA_good x st a, fun v st' h => ?_⟩
  unfold readIdentifierA at h
  cases hp : readIdentifier x.ctx st <;> rw [hp] at h
  · cases hr : (a.request x.orc .arena).1
    · simp [hr] at h
    · exact request_arena_alive x.orc a 0 hr
  all_goals cases h

theorem readCharacterA_rg (x : ACtx) (st : St) (a : ASt) : RG a (readCharacterA x st a) := by
  refine ⟨readCharacterA_good x st a, fun v st' h => ?_⟩
  unfold readCharacterA at h
  cases hp : readCharacter x.ctx st <;> rw [hp] at h
  · cases hr : (a.request x.orc .arena).1
    · simp [hr] at h
    · exact request_arena_alive x.orc a 0 hr
  all_goals cases h

theorem readSymbolicA_rg (x : ACtx) (st : St) (a : ASt) : RG a (readSymbolicA x st a) := by
  refine ⟨readSymbolicA_good x st a, fun v st' h => ?_⟩
  unfold readSymbolicA at h
  cases hp : readSymbolic x.ctx st <;> rw [hp] at h
  · cases hr : (a.request x.orc .arena).1
    · simp [hr] at h
    · exact request_arena_alive x.orc a 0 hr
  all_goals cases h

theorem numCreateA_rg (x : ACtx) (st : St) (a : ASt) (v : NumVal) (p : Bytes) (validate : Bool) :
    RG a (numCreateA x st a v p validate) := by
  refine ⟨numCreateA_good x st a v p validate, fun w st' h => ?_⟩
  cases hr : (a.request x.orc .arena).1
  · have := numCreateA_refused x st a v p validate hr
    rw [h] at this
    cases this
  · exact request_arena_alive x.orc a 0 hr

theorem readNumberResA_rg (x : ACtx) (st : St) (a : ASt) : RG a (readNumberResA x st a) := by
  unfold readNumberResA
  apply readNumberK_pred (RG a)
  · intro v p validate; exact numCreateA_rg x st a v p validate
  · intro cur; exact RG.err (Good.refl a) _ _

end Edn.Proofs.AllocLedger
