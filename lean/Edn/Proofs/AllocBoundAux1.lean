/-
  Edn.Proofs.AllocBoundAux1 — vocabulary of the bound on the number of allocation requests of a
  fault-free read (task E17, property C02):

  * `Psi N bufs`: how many of the `N` possible value names (`Hdr.s`, a position of the input) have
    no materialised buffer yet.  A lazily materialised payload (decoded text of a string literal,
    digits of a big number without underscores) is requested at most once per name, so
    `reqs + Psi N bufs` is a potential that the whole duplicate check / metadata merge cannot
    increase by more than its scratch requests.
  * `Stp N c a a'`: from `a` to `a'` that potential grew by at most `c` (and the parser's arena is
    still alive, which is what makes the next request succeed under a fault-free oracle).
  * `Good cfg N v`: every header of the tree `v` is named by a position `< N` and every string
    literal with escapes decodes.  (A literal whose escapes do NOT decode is asked for again at
    every look — see the counterexample in Edn.Proofs.AllocBound — which is why the linear bound
    needs that hypothesis.)
-/
import Edn.Proofs.AllocMono

namespace Edn.Proofs.AllocBound
open Edn.Model Edn.Proofs.AllocBasic

/-! ## The potential -/

/-- names below `N` without a materialised buffer -/
def Psi (N : Nat) (bufs : List Nat) : Nat := (List.range N).countP (fun k => !bufs.contains k)

theorem countP_cons_le (L : List Nat) (k0 : Nat) (bufs : List Nat) :
    L.countP (fun k => !(k0 :: bufs).contains k) ≤ L.countP (fun k => !bufs.contains k) := by
  apply List.countP_mono_left
  intro x _ hx
  simp only [List.contains_cons, Bool.not_or, Bool.and_eq_true] at hx
  exact hx.2

theorem countP_cons_lt (L : List Nat) (k0 : Nat) (bufs : List Nat) (hm : k0 ∈ L) (hc : bufs.contains k0 = false) :
    L.countP (fun k => !(k0 :: bufs).contains k) + 1 ≤ L.countP (fun k => !bufs.contains k) := by
  have hc' : k0 ∉ bufs := by simpa using hc
  induction L with
  | nil => cases hm
  | cons x L ih =>
    by_cases hx : x = k0
    · subst hx
      rw [List.countP_cons_of_neg (by simp), List.countP_cons_of_pos (by simpa using hc')]
      have := countP_cons_le L x bufs
      omega
    · have hm' : k0 ∈ L := by
        cases hm with
        | head => exact absurd rfl hx
        | tail _ h => exact h
      have ih := ih hm'
      by_cases hp : x ∈ bufs
      · rw [List.countP_cons_of_neg (by simp [hp]), List.countP_cons_of_neg (by simp [hp])]
        exact ih
      · rw [List.countP_cons_of_pos (by simp [hp, hx]), List.countP_cons_of_pos (by simp [hp])]
        omega

theorem Psi_cons_le (N k0 : Nat) (bufs : List Nat) : Psi N (k0 :: bufs) ≤ Psi N bufs :=
  countP_cons_le _ k0 bufs

theorem Psi_cons_lt (N k0 : Nat) (bufs : List Nat) (hk : k0 < N) (hc : bufs.contains k0 = false) :
    Psi N (k0 :: bufs) + 1 ≤ Psi N bufs :=
  countP_cons_lt _ k0 bufs (List.mem_range.mpr hk) hc

theorem Psi_le (N : Nat) (bufs : List Nat) : Psi N bufs ≤ N := by
  have := List.countP_le_length (p := fun k => !bufs.contains k) (l := List.range N)
  simpa [Psi] using this

/-- from `a` to `a'` the potential `reqs + Psi N bufs` grew by at most `c`; the parser's arena is alive -/
def Stp (N c : Nat) (a a' : ASt) : Prop :=
  a'.arena = .alive ∧ a'.reqs + Psi N a'.bufs ≤ a.reqs + Psi N a.bufs + c

theorem Stp.refl {N : Nat} {a : ASt} (ha : a.arena = .alive) : Stp N 0 a a := ⟨ha, Nat.le_refl _⟩

theorem Stp.trans {N c1 c2 : Nat} {a a1 a2 : ASt} (h1 : Stp N c1 a a1) (h2 : Stp N c2 a1 a2) :
    Stp N (c1 + c2) a a2 := ⟨h2.1, by have := h1.2; have := h2.2; omega⟩

theorem Stp.mono {N c c' : Nat} {a a' : ASt} (h : Stp N c a a') (hc : c ≤ c') : Stp N c' a a' :=
  ⟨h.1, by have := h.2; omega⟩

theorem Stp.of_eq {N c : Nat} {a a' : ASt} (ha : a.arena = .alive) (hr : a'.reqs = a.reqs + c)
    (hb : a'.bufs = a.bufs) (har : a'.arena = a.arena) : Stp N c a a' :=
  ⟨har.trans ha, by rw [hr, hb]; omega⟩

/-! ## Primitives under a fault-free oracle -/

section
variable {N : Nat} {orc : Nat → Bool} (horc : ∀ n, orc n = false)
include horc

theorem request_ff (k : ReqKind) (a : ASt) (old : Nat) (ha : a.arena = .alive) :
    (a.request orc k old).1 = true ∧ Stp N 1 a (a.request orc k old).2 :=
  ⟨request_succeeds orc k a old (horc _) (fun _ => ha), Stp.of_eq ha rfl rfl rfl⟩

theorem rawAlloc_ff (k : ReqKind) (a : ASt) (ha : a.arena = .alive) :
    (∃ i, (a.rawAlloc orc k).1 = some i) ∧ Stp N 1 a (a.rawAlloc orc k).2 := by
  have h := (request_ff (N := N) horc k a 0 ha).1
  unfold ASt.rawAlloc
  simp only [h, ↓reduceIte]
  exact ⟨⟨_, rfl⟩, Stp.of_eq ha rfl rfl rfl⟩

theorem realloc_ff (old : Nat) (a : ASt) (ha : a.arena = .alive) :
    (∃ i, (a.realloc orc old).1 = some i) ∧ Stp N 1 a (a.realloc orc old).2 := by
  have h := (request_ff (N := N) horc .realloc a old ha).1
  unfold ASt.realloc
  simp only [h, ↓reduceIte]
  exact ⟨⟨_, rfl⟩, Stp.of_eq ha rfl rfl rfl⟩

end

theorem free_stp {N : Nat} (i : Nat) (a : ASt) (ha : a.arena = .alive) : Stp N 0 a (a.free i) :=
  Stp.of_eq ha rfl rfl rfl

theorem freeAll_stp {N : Nat} (ids : List Nat) (a : ASt) (ha : a.arena = .alive) : Stp N 0 a (a.freeAll ids) := by
  induction ids generalizing a with
  | nil => exact Stp.refl ha
  | cons i is ih =>
    show Stp N 0 a ((a.free i).freeAll is)
    exact (free_stp i a ha).trans (ih (a.free i) ha)

theorem release_stp {N : Nat} (b : TbBuf) (a : ASt) (ha : a.arena = .alive) : Stp N 0 a (b.release a) := by
  unfold TbBuf.release
  have h1 := freeAll_stp (N := N) b.ids.reverse a ha
  exact h1.trans (free_stp _ _ h1.1)

/-! ## Well-named, decodable trees -/

/-- every header of the tree carries a name below `N`; every string literal with escapes decodes -/
inductive Good (cfg : Cfg) (N : Nat) : Val → Prop
  | nil (h : Hdr) : h.s < N → Good cfg N (.nil h)
  | bool (h : Hdr) (b : Bool) : h.s < N → Good cfg N (.bool h b)
  | int (h : Hdr) (i : Int) : h.s < N → Good cfg N (.int h i)
  | bigint (h : Hdr) (n : Bool) (r : Nat) (d : Bytes) : h.s < N → Good cfg N (.bigint h n r d)
  | float (h : Hdr) (b : UInt64) : h.s < N → Good cfg N (.float h b)
  | bigdec (h : Hdr) (n : Bool) (t : Bytes) : h.s < N → Good cfg N (.bigdec h n t)
  | ratio (h : Hdr) (n d : Int) : h.s < N → Good cfg N (.ratio h n d)
  | bigratio (h : Hdr) (g : Bool) (n d : Bytes) : h.s < N → Good cfg N (.bigratio h g n d)
  | char (h : Hdr) (cp : Nat) : h.s < N → Good cfg N (.char h cp)
  | str (h : Hdr) (data : Bytes) (esc : Bool) : h.s < N →
      (esc = true → (decodeString cfg (data.length + 1) data).isSome = true) → Good cfg N (.str h data esc)
  | sym (h : Hdr) (md : Option Val) (ns : Option Bytes) (name : Bytes) : h.s < N →
      (∀ m, md = some m → Good cfg N m) → Good cfg N (.sym h md ns name)
  | kw (h : Hdr) (ns : Option Bytes) (name : Bytes) : h.s < N → Good cfg N (.kw h ns name)
  | list (h : Hdr) (md : Option Val) (xs : List Val) : h.s < N →
      (∀ m, md = some m → Good cfg N m) → (∀ x ∈ xs, Good cfg N x) → Good cfg N (.list h md xs)
  | vec (h : Hdr) (md : Option Val) (xs : List Val) : h.s < N →
      (∀ m, md = some m → Good cfg N m) → (∀ x ∈ xs, Good cfg N x) → Good cfg N (.vec h md xs)
  | map (h : Hdr) (md : Option Val) (ks vs : List Val) : h.s < N →
      (∀ m, md = some m → Good cfg N m) → (∀ x ∈ ks, Good cfg N x) → (∀ x ∈ vs, Good cfg N x) →
      Good cfg N (.map h md ks vs)
  | set (h : Hdr) (md : Option Val) (xs : List Val) : h.s < N →
      (∀ m, md = some m → Good cfg N m) → (∀ x ∈ xs, Good cfg N x) → Good cfg N (.set h md xs)
  | tagged (h : Hdr) (md : Option Val) (tag : Bytes) (v : Val) : h.s < N →
      (∀ m, md = some m → Good cfg N m) → Good cfg N v → Good cfg N (.tagged h md tag v)
  | ext (h : Hdr) (t d : Nat) : h.s < N → Good cfg N (.ext h t d)

abbrev GoodL (cfg : Cfg) (N : Nat) (xs : List Val) : Prop := ∀ x ∈ xs, Good cfg N x

section
variable {cfg : Cfg} {N : Nat}

theorem Good.hdr_lt {v : Val} (h : Good cfg N v) : v.hdr.s < N := by
  cases h <;> assumption

theorem Good.setHdr {v : Val} (h : Good cfg N v) (h' : Hdr) (hs : h'.s < N) : Good cfg N (v.setHdr h') := by
  cases h
  all_goals (simp only [Val.setHdr]; constructor <;> assumption)

theorem Good.md {v m : Val} (h : Good cfg N v) (hm : v.md = some m) : Good cfg N m := by
  cases h <;> simp only [Val.md] at hm <;> first | exact absurd hm (by simp) | (rename_i hmd _; exact hmd m hm) | (rename_i hmd _ _; exact hmd m hm) | (rename_i hmd; exact hmd m hm)

theorem Good.setMd {v : Val} (h : Good cfg N v) (m : Option Val) (hm : ∀ m', m = some m' → Good cfg N m') :
    Good cfg N (v.setMd m) := by
  cases h
  all_goals (simp only [Val.setMd]; constructor <;> assumption)

theorem good_list {h : Hdr} {md : Option Val} {xs : List Val} (g : Good cfg N (.list h md xs)) : GoodL cfg N xs := by
  cases g; assumption
theorem good_vec {h : Hdr} {md : Option Val} {xs : List Val} (g : Good cfg N (.vec h md xs)) : GoodL cfg N xs := by
  cases g; assumption
theorem good_set {h : Hdr} {md : Option Val} {xs : List Val} (g : Good cfg N (.set h md xs)) : GoodL cfg N xs := by
  cases g; assumption
theorem good_map_k {h : Hdr} {md : Option Val} {ks vs : List Val} (g : Good cfg N (.map h md ks vs)) : GoodL cfg N ks := by
  cases g; assumption
theorem good_map_v {h : Hdr} {md : Option Val} {ks vs : List Val} (g : Good cfg N (.map h md ks vs)) : GoodL cfg N vs := by
  cases g; assumption
theorem good_tagged {h : Hdr} {md : Option Val} {t : Bytes} {v : Val} (g : Good cfg N (.tagged h md t v)) : Good cfg N v := by
  cases g; assumption
theorem good_str {h : Hdr} {d : Bytes} {e : Bool} (g : Good cfg N (.str h d e)) :
    h.s < N ∧ (e = true → (decodeString cfg (d.length + 1) d).isSome = true) := by
  cases g; exact ⟨by assumption, by assumption⟩
theorem good_bigint {h : Hdr} {n : Bool} {r : Nat} {d : Bytes} (g : Good cfg N (.bigint h n r d)) : h.s < N := by
  cases g; assumption
theorem good_bigdec {h : Hdr} {n : Bool} {d : Bytes} (g : Good cfg N (.bigdec h n d)) : h.s < N := by
  cases g; assumption

theorem GoodL.nil : GoodL cfg N [] := fun _ h => nomatch h

theorem GoodL.cons {v : Val} {xs : List Val} (hv : Good cfg N v) (hxs : GoodL cfg N xs) : GoodL cfg N (v :: xs) := by
  intro y hy
  cases hy with
  | head => exact hv
  | tail _ h => exact hxs y h

theorem GoodL.head {v : Val} {xs : List Val} (h : GoodL cfg N (v :: xs)) : Good cfg N v := h v (List.mem_cons_self ..)
theorem GoodL.tail {v : Val} {xs : List Val} (h : GoodL cfg N (v :: xs)) : GoodL cfg N xs :=
  fun y hy => h y (List.mem_cons_of_mem _ hy)

theorem GoodL.append {xs ys : List Val} (h1 : GoodL cfg N xs) (h2 : GoodL cfg N ys) : GoodL cfg N (xs ++ ys) := by
  intro y hy
  rcases List.mem_append.mp hy with h | h
  · exact h1 y h
  · exact h2 y h

theorem GoodL.reverse {xs : List Val} (h : GoodL cfg N xs) : GoodL cfg N xs.reverse :=
  fun y hy => h y (List.mem_reverse.mp hy)

theorem GoodL.sub {xs ys : List Val} (h : GoodL cfg N ys) (hs : ∀ y ∈ xs, y ∈ ys) : GoodL cfg N xs :=
  fun y hy => h y (hs y hy)

end

/-! ## Lazily materialised payloads -/

section
variable {N : Nat} {x : ACtx} (horc : ∀ n, x.orc n = false)
include horc

theorem strContentA_stp (h : Hdr) (data : Bytes) (esc : Bool) (a : ASt) (ha : a.arena = .alive)
    (g : Good x.ctx.cfg N (.str h data esc)) : Stp N 0 a (strContentA x h data esc a).2 := by
  obtain ⟨hs, hd⟩ := good_str g
  unfold strContentA
  split
  · exact Stp.refl ha
  · next he =>
    split
    · exact Stp.refl ha
    · next hc =>
      have hr := request_ff (N := N) horc .arena a 0 ha
      rcases hq : a.request x.orc .arena with ⟨ok, a1⟩
      rw [hq] at hr
      obtain ⟨hok, hst⟩ := hr
      simp only at hok hst
      subst hok
      simp only [Bool.not_true, Bool.false_eq_true, ↓reduceIte]
      have he' : esc = true := by simpa using he
      have hdec := hd he'
      cases hds : decodeString x.ctx.cfg (data.length + 1) data with
      | none => rw [hds] at hdec; cases hdec
      | some d =>
        simp only
        have hb : a1.bufs = a.bufs := by
          have := request_bufs x.orc .arena a 0; rw [hq] at this; exact this
        have hc' : a1.bufs.contains h.s = false := by rw [hb]; simpa using hc
        refine ⟨hst.1, ?_⟩
        have h1 := Psi_cons_lt N h.s a1.bufs hs hc'
        have h2 := hst.2
        simp only at h1 h2 ⊢
        omega

theorem cleanA_stp (h : Hdr) (d : Bytes) (a : ASt) (ha : a.arena = .alive) (hs : h.s < N) :
    Stp N 0 a (cleanA x h d a).2 := by
  unfold cleanA
  split
  · exact Stp.refl ha
  · split
    · exact Stp.refl ha
    · next hc =>
      have hr := request_ff (N := N) horc .arena a 0 ha
      rcases hq : a.request x.orc .arena with ⟨ok, a1⟩
      rw [hq] at hr
      obtain ⟨hok, hst⟩ := hr
      simp only at hok hst
      subst hok
      simp only [Bool.not_true, Bool.false_eq_true, ↓reduceIte]
      have hb : a1.bufs = a.bufs := by
        have := request_bufs x.orc .arena a 0; rw [hq] at this; exact this
      have hc' : a1.bufs.contains h.s = false := by rw [hb]; simpa using hc
      refine ⟨hst.1, ?_⟩
      have h1 := Psi_cons_lt N h.s a1.bufs hs hc'
      have h2 := hst.2
      simp only at h1 h2 ⊢
      omega

end

end Edn.Proofs.AllocBound
