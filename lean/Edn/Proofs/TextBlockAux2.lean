/-
  Edn.Proofs.TextBlockAux2 — render side of C20: `tbRender` of the scanned lines is the
  denoted text.
-/
import Edn.Proofs.TextBlockAux1

namespace Edn.Proofs
open Edn.Model Edn.Spec

theorem hasEsc_cons_false (c : UInt8) (r : Bytes) (h : hasEsc (c :: r) = false) :
    ¬ [0x5C, 0x22, 0x22, 0x22] <+: c :: r ∧ hasEsc r = false := by
  simp only [hasEsc, Bool.or_eq_false_iff] at h
  refine ⟨fun hp => ?_, h.2⟩
  have := List.isPrefixOf_iff_prefix.mpr hp
  rw [h.1] at this
  exact Bool.noConfusion this

theorem hasEsc_prefix (a b : Bytes) (h : hasEsc (a ++ b) = false) : hasEsc a = false := by
  induction a with
  | nil => rfl
  | cons c r ih =>
    obtain ⟨h1, h2⟩ := hasEsc_cons_false c (r ++ b) h
    have : ([0x5C, 0x22, 0x22, 0x22] : Bytes).isPrefixOf (c :: r) = false := by
      rw [Bool.eq_false_iff]; intro hp
      exact h1 ((List.isPrefixOf_iff_prefix.mp hp).trans (List.prefix_append (c :: r) b))
    simp [hasEsc, this, ih h2]

theorem tbUnescape_cons (c : UInt8) (r : Bytes) (h : ¬ [0x5C, 0x22, 0x22, 0x22] <+: c :: r) :
    tbUnescape (c :: r) = c :: tbUnescape r := by
  conv => lhs; unfold tbUnescape
  split
  · rename_i heq; exact absurd (by rw [heq]; simp) h
  · rename_i heq; cases heq; rfl
  · rename_i heq; cases heq

theorem tbUnescape_esc (r : Bytes) :
    tbUnescape (0x5C :: 0x22 :: 0x22 :: 0x22 :: r) = 0x22 :: 0x22 :: 0x22 :: tbUnescape r := by
  conv => lhs; unfold tbUnescape
  simp

theorem tbUnescape_noEsc (a : Bytes) (h : hasEsc a = false) : tbUnescape a = a := by
  induction a with
  | nil => simp [tbUnescape]
  | cons c r ih =>
    obtain ⟨h1, h2⟩ := hasEsc_cons_false c r h
    rw [tbUnescape_cons c r h1, ih h2]

theorem trimRight_append (b : Bytes) : trimRight b ++ (b.reverse.takeWhile isBlank).reverse = b := by
  unfold trimRight
  rw [← List.reverse_append, List.takeWhile_append_dropWhile, List.reverse_reverse]

theorem drop_min (l : Bytes) (n : Nat) : l.drop (min l.length n) = l.drop n := by
  by_cases h : l.length ≤ n
  · rw [Nat.min_eq_left h, List.drop_length, List.drop_eq_nil_of_le h]
  · rw [Nat.min_eq_right (by omega)]

theorem tbRenderLine_body (n : Nat) (ind body : Bytes) (nl : Bool) (hb : body.isEmpty = false) :
    tbRenderLine n { indent := ind, content := body, hasNewline := nl, needsEsc := hasEsc body, terminal := !nl } =
      lineText n ⟨ind, body⟩ ++ (if nl then [0x0A] else []) := by
  have hu : (if hasEsc body then tbUnescape (trimRight body) else trimRight body) = tbUnescape (trimRight body) := by
    cases he : hasEsc body with
    | true => simp
    | false =>
      have : hasEsc (trimRight body) = false := by
        apply hasEsc_prefix _ ((body.reverse.takeWhile isBlank).reverse)
        rw [trimRight_append]; exact he
      simp [tbUnescape_noEsc _ this]
  simp only [tbRenderLine, lineText, hb, hu, drop_min]

theorem tbRenderLine_toTb (n : Nat) (l : SrcLine) : tbRenderLine n (toTb l) = lineText n l ++ [0x0A] := by
  cases hb : l.body.isEmpty with
  | true => simp [tbRenderLine, toTb, lineText, hb]
  | false =>
    have := tbRenderLine_body n l.indent l.body true hb
    simpa [toTb] using this

theorem tbRenderLine_close (n : Nat) (l : SrcLine) (hb : l.body ≠ []) :
    tbRenderLine n (closeTb l.indent l.body) = lineText n l := by
  have := tbRenderLine_body n l.indent l.body false (by simpa using hb)
  simpa [closeTb] using this

theorem tbRenderLine_close_nil (n : Nat) (ind : Bytes) : tbRenderLine n (closeTb ind []) = [] := by
  simp [tbRenderLine, closeTb]

/-! ### common indentation -/

def minOf : List Nat → Nat
  | [] => 0
  | w :: r => r.foldl min w

theorem tbCommonIndent_eq (ls : List TbLine) :
    tbCommonIndent ls = minOf ((ls.filter fun l => !l.content.isEmpty || l.terminal).map (·.indent.length)) := by
  unfold tbCommonIndent minOf; rfl

theorem commonIndent_eq (lines : List SrcLine) (c : Closer) :
    commonIndent lines c = minOf (((lines.filter fun l => !l.body.isEmpty).map (·.indent.length)) ++
      (match c with | .ownLine ind => [ind.length] | .inline => [])) := by
  unfold commonIndent minOf; rfl

theorem filter_toTb (lines : List SrcLine) :
    ((lines.map toTb).filter fun l => !l.content.isEmpty || l.terminal).map (·.indent.length) =
      (lines.filter fun l => !l.body.isEmpty).map (·.indent.length) := by
  induction lines with
  | nil => rfl
  | cons l ls ih =>
    cases hb : l.body.isEmpty <;> simp [toTb, hb] <;> simpa [toTb] using ih

theorem commonIndent_own (lines : List SrcLine) (ind : Bytes) :
    tbCommonIndent (lines.map toTb ++ [closeTb ind []]) = commonIndent lines (.ownLine ind) := by
  rw [tbCommonIndent_eq, commonIndent_eq, List.filter_append, List.map_append, filter_toTb]
  simp [closeTb]

theorem commonIndent_inline (init : List SrcLine) (l : SrcLine) (hb : l.body ≠ []) :
    tbCommonIndent (init.map toTb ++ [closeTb l.indent l.body]) = commonIndent (init ++ [l]) .inline := by
  rw [tbCommonIndent_eq, commonIndent_eq, List.filter_append, List.map_append, filter_toTb]
  simp [closeTb, hb]

/-! ### the rendered text -/

theorem tbRender_own (lines : List SrcLine) (ind : Bytes) :
    tbRender (lines.map toTb ++ [closeTb ind []]) = blockText lines (.ownLine ind) := by
  unfold tbRender blockText
  rw [commonIndent_own]
  simp [tbRenderLine_close_nil, tbRenderLine_toTb, Function.comp_def]

theorem tbRender_inline (init : List SrcLine) (l : SrcLine) (hb : l.body ≠ []) :
    tbRender (init.map toTb ++ [closeTb l.indent l.body]) = blockText (init ++ [l]) .inline := by
  unfold tbRender blockText
  rw [commonIndent_inline init l hb]
  simp [tbRenderLine_close _ l hb, tbRenderLine_toTb, Function.comp_def]

theorem dropLast_concat_of_getLast? {α : Type} (l : List α) (a : α) (h : l.getLast? = some a) :
    l.dropLast ++ [a] = l := by
  have hne : l ≠ [] := by intro h'; simp [h'] at h
  have := List.dropLast_concat_getLast hne
  rw [List.getLast?_eq_some_getLast hne] at h
  cases h; exact this

end Edn.Proofs
