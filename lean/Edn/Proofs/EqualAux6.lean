/-
  Edn.Proofs.EqualAux6 — reflexivity, hash congruence, and "equal values have the same
  depth" for `eqvF` on well-formed values.
-/
import Edn.Proofs.EqualAux5

namespace Edn.Proofs
open Edn.Model Edn.Spec

theorem eqvF_symm_aux (cfg : Cfg) (f : Nat) : SymAt cfg f := (symm_trans_at cfg f).1
theorem eqvF_trans_aux (cfg : Cfg) (f : Nat) : TransAt cfg f := (symm_trans_at cfg f).2

/-! ### reflexivity -/

theorem floatEq_refl (a : UInt64) : floatEq a a = true := by
  unfold floatEq
  cases ha : isNaNBits a <;> simp

theorem body_leaf_refl (cfg : Cfg) (p : Val → Val → Bool) (a : Val) (hl : leaf a = true) :
    body cfg p a a = true := by
  cases a <;> first | exact absurd hl Bool.false_ne_true | skip
  case nil => rfl
  case float h x => exact floatEq_refl x
  all_goals simp [body]

theorem eqvF_refl_aux (cfg : Cfg) : ∀ (f : Nat) (a : Val), Good cfg f a → eqvF cfg f a a = true := by
  intro f
  induction f with
  | zero => intro a ha; exact absurd ha.1 (Nat.not_lt_zero _)
  | succ f ih =>
    intro a ha
    rw [eqvF_succ]
    by_cases hl : leaf a = true
    · exact body_leaf_refl cfg _ a hl
    cases a <;> first | exact absurd rfl hl | skip
    case list h m xs =>
      show seqBody (eqvF cfg f) xs xs = true
      rw [seqBody_iff]
      exact All₂.refl' xs fun x hx => ih x (ha.child hx)
    case vec h m xs =>
      show seqBody (eqvF cfg f) xs xs = true
      rw [seqBody_iff]
      exact All₂.refl' xs fun x hx => ih x (ha.child hx)
    case set h m xs =>
      show setBody (eqvF cfg f) xs xs = true
      rw [setBody_iff]
      exact ⟨rfl, fun x hx => ⟨x, hx, ih x (ha.child hx)⟩⟩
    case map h m ks vs =>
      show mapBody (eqvF cfg f) ks vs ks vs = true
      have gk : ∀ x ∈ ks, Good cfg f x := fun x hx => ha.child (List.mem_append_left _ hx)
      have gv : ∀ x ∈ vs, Good cfg f x := fun x hx => ha.child (List.mem_append_right _ hx)
      obtain ⟨hd, hl1, -, -⟩ := WF_map ha.2
      refine mapBody_intro ks vs ks vs hl1 rfl (distinct_at cfg f ks hd fun x hx => (gk x hx).1) ?_ ?_
      · intro k hk k1 hk1 k2 hk2 r1 r2
        exact eqvF_trans_aux cfg f k1 k k2 (gk k1 hk1) (gk k hk) (gk k2 hk2)
          (eqvF_symm_aux cfg f k k1 (gk k hk) (gk k1 hk1) r1) r2
      · intro q hq
        have m := List.of_mem_zip (a := q.1) (b := q.2) hq
        exact ⟨q, hq, ih _ (gk _ m.1), ih _ (gv _ m.2)⟩
    case tagged h m t v =>
      show (t == t && eqvF cfg f v v) = true
      rw [Bool.and_eq_true, beq_iff_eq]
      exact ⟨rfl, ih v (ha.child (List.mem_singleton.mpr rfl))⟩

/-! ### hashing -/

theorem hashList_eq_map (cfg : Cfg) : ∀ (xs : List Val), hashList cfg xs = xs.map (hashV cfg) := by
  intro xs
  induction xs with
  | nil => rfl
  | cons x xs ih =>
    show hashV cfg x :: hashList cfg xs = _
    rw [ih]; rfl

theorem pairHashes_map {α : Type} (g : α → UInt64) : ∀ (ks vs : List α),
    pairHashes (ks.map g) (vs.map g) = (ks.zip vs).map fun q => g q.1 ^^^ (g q.2 * fnvPrime) := by
  intro ks
  induction ks with
  | nil => intro vs; rfl
  | cons k ks ih =>
    intro vs
    cases vs with
    | nil => rfl
    | cons v vs =>
      show (g k ^^^ (g v * fnvPrime)) :: pairHashes (ks.map g) (vs.map g) = _
      rw [ih vs]; rfl

theorem xorAll_perm {l₁ l₂ : List UInt64} (h : l₁.Perm l₂) : xorAll l₁ = xorAll l₂ :=
  foldl_xor_perm h 0

def HashAt (cfg : Cfg) (f : Nat) : Prop :=
  ∀ a b, Good cfg f a → Good cfg f b → eqvF cfg f a b = true → hashV cfg a = hashV cfg b

theorem body_hash_step (cfg : Cfg) (f : Nat) (hH : HashAt cfg f) (a b : Val)
    (ha : Good cfg (f + 1) a) (hb : Good cfg (f + 1) b)
    (h : body cfg (eqvF cfg f) a b = true) : hashV cfg a = hashV cfg b := by
  have hS := eqvF_symm_aux cfg f
  have hT := eqvF_trans_aux cfg f
  by_cases hl : leaf a = true
  · exact body_leaf_hash cfg _ a b hl h
  cases a <;> first | exact absurd rfl hl | skip
  all_goals cases b <;> first | exact absurd h Bool.false_ne_true | skip
  case set.set h1 m1 xs h2 m2 ys =>
    have h' : setBody (eqvF cfg f) xs ys = true := h
    have gx : ∀ x ∈ xs, Good cfg f x := fun x hx => ha.child hx
    have gy : ∀ y ∈ ys, Good cfg f y := fun y hy => hb.child hy
    obtain ⟨ys', hperm, hrel⟩ := setBody_matching xs ys
      (distinct_at cfg f xs (WF_set ha.2).1 fun x hx => (gx x hx).1)
      (fun x1 hx1 x2 hx2 y hy r1 r2 =>
        hT x1 y x2 (gx x1 hx1) (gy y hy) (gx x2 hx2) r1 (hS x2 y (gx x2 hx2) (gy y hy) r2)) h'
    have e1 : xs.map (hashV cfg) = ys'.map (hashV cfg) :=
      hrel.map_eq _ _ fun x hx y hy r => hH x y (gx x hx) (gy y (hperm.mem_iff.mp hy)) r
    have e2 : xorAll (hashList cfg xs) = xorAll (hashList cfg ys) := by
      rw [hashList_eq_map, hashList_eq_map, e1]
      exact xorAll_perm (hperm.map _)
    show fnvStep _ (xorAll (hashList cfg xs)) = fnvStep _ (xorAll (hashList cfg ys))
    rw [e2]
  case map.map h1 m1 ks vs h2 m2 ks' vs' =>
    have h' : mapBody (eqvF cfg f) ks vs ks' vs' = true := h
    have gk : ∀ x ∈ ks, Good cfg f x := fun x hx => ha.child (List.mem_append_left _ hx)
    have gv : ∀ x ∈ vs, Good cfg f x := fun x hx => ha.child (List.mem_append_right _ hx)
    have gk' : ∀ x ∈ ks', Good cfg f x := fun x hx => hb.child (List.mem_append_left _ hx)
    have gv' : ∀ x ∈ vs', Good cfg f x := fun x hx => hb.child (List.mem_append_right _ hx)
    obtain ⟨hd, hl1, -, -⟩ := WF_map ha.2
    obtain ⟨hd', hl2, -, -⟩ := WF_map hb.2
    have hpw := distinct_at cfg f ks hd fun x hx => (gk x hx).1
    obtain ⟨qs, hperm, hrel⟩ := mapBody_matching ks vs ks' vs' hl1 hl2 hpw
      (fun x1 hx1 x2 hx2 y hy r1 r2 =>
        hT x1 y x2 (gk x1 hx1) (gk' y hy) (gk x2 hx2) r1 (hS x2 y (gk x2 hx2) (gk' y hy) r2)) h'
    have e1 : (ks.zip vs).map (fun q => hashV cfg q.1 ^^^ (hashV cfg q.2 * fnvPrime))
        = qs.map (fun q => hashV cfg q.1 ^^^ (hashV cfg q.2 * fnvPrime)) := by
      refine hrel.map_eq _ _ ?_
      intro q hq q' hq' r
      have m := List.of_mem_zip (a := q.1) (b := q.2) hq
      have m' := List.of_mem_zip (a := q'.1) (b := q'.2) (hperm.mem_iff.mp hq')
      show hashV cfg q.1 ^^^ (hashV cfg q.2 * fnvPrime) = hashV cfg q'.1 ^^^ (hashV cfg q'.2 * fnvPrime)
      rw [hH _ _ (gk _ m.1) (gk' _ m'.1) r.1, hH _ _ (gv _ m.2) (gv' _ m'.2) r.2]
    have e2 : xorAll (pairHashes (hashList cfg ks) (hashList cfg vs))
        = xorAll (pairHashes (hashList cfg ks') (hashList cfg vs')) := by
      rw [hashList_eq_map, hashList_eq_map, hashList_eq_map, hashList_eq_map,
        pairHashes_map, pairHashes_map, e1]
      exact xorAll_perm (hperm.map _)
    show fnvStep _ (xorAll (pairHashes (hashList cfg ks) (hashList cfg vs)))
      = fnvStep _ (xorAll (pairHashes (hashList cfg ks') (hashList cfg vs')))
    rw [e2]
  case tagged.tagged h1 m1 t v h2 m2 t' v' =>
    have h' : (t == t' && eqvF cfg f v v') = true := h
    rw [Bool.and_eq_true, beq_iff_eq] at h'
    show fnvStep (fnvBytes _ t) (hashV cfg v) = fnvStep (fnvBytes _ t') (hashV cfg v')
    rw [h'.1, hH v v' (ha.child (List.mem_singleton.mpr rfl)) (hb.child (List.mem_singleton.mpr rfl)) h'.2]
  all_goals
    rename_i h1 m1 xs h2 m2 ys
    have h' : seqBody (eqvF cfg f) xs ys = true := h
    rw [seqBody_iff] at h'
    have e1 : hashList cfg xs = hashList cfg ys := by
      rw [hashList_eq_map, hashList_eq_map]
      exact h'.map_eq _ _ fun x hx y hy r => hH x y (ha.child hx) (hb.child hy) r
    show (hashList cfg xs).foldl fnvStep _ = (hashList cfg ys).foldl fnvStep _
    rw [e1]

theorem hash_at (cfg : Cfg) : ∀ f, HashAt cfg f := by
  intro f
  induction f with
  | zero => exact fun a _ ha _ _ => absurd ha.1 (Nat.not_lt_zero _)
  | succ f ih =>
    intro a b ha hb h
    rw [eqvF_succ] at h
    exact body_hash_step cfg f ih a b ha hb h

/-! ### depth -/

theorem body_leaf_depth (cfg : Cfg) (p : Val → Val → Bool) (a b : Val) (hl : leaf a = true)
    (h : body cfg p a b = true) : depth b = 0 := by
  cases a <;> first | exact absurd hl Bool.false_ne_true | skip
  all_goals cases b <;> first | exact absurd h Bool.false_ne_true | rfl

theorem leaf_depth (a : Val) (hl : leaf a = true) : depth a = 0 := by
  cases a <;> first | exact absurd hl Bool.false_ne_true | rfl

/-- the right operand of a successful comparison is no deeper than the left one -/
theorem depth_le_of_eqvF (cfg : Cfg) : ∀ (f : Nat) (a b : Val), depth a < f → WF cfg a → WF cfg b →
    eqvF cfg f a b = true → depth b ≤ depth a := by
  intro f
  induction f with
  | zero => intro a b h; exact absurd h (Nat.not_lt_zero _)
  | succ f ih =>
    intro a b hda hwa hwb h
    have hS := eqvF_symm_aux cfg f
    have hT := eqvF_trans_aux cfg f
    have ha : Good cfg (f + 1) a := ⟨hda, hwa⟩
    rw [eqvF_succ] at h
    by_cases hl : leaf a = true
    · rw [body_leaf_depth cfg _ a b hl h]; exact Nat.zero_le _
    cases a <;> first | exact absurd rfl hl | skip
    all_goals cases b <;> first | exact absurd h Bool.false_ne_true | skip
    case set.set h1 m1 xs h2 m2 ys =>
      have h' : setBody (eqvF cfg f) xs ys = true := h
      have gx : ∀ x ∈ xs, Good cfg f x := fun x hx => ha.child hx
      have wy : ∀ y ∈ ys, WF cfg y := fun y hy => WF_child cfg hwb hy
      obtain ⟨ys', hperm, hrel⟩ := setBody_matching xs ys
        (distinct_at cfg f xs (WF_set ha.2).1 fun x hx => (gx x hx).1)
        (fun x1 hx1 x2 hx2 y hy r1 r2 => by
          have gy : Good cfg f y :=
            ⟨Nat.lt_of_le_of_lt (ih x1 y (gx x1 hx1).1 (gx x1 hx1).2 (wy y hy) r1) (gx x1 hx1).1, wy y hy⟩
          exact hT x1 y x2 (gx x1 hx1) gy (gx x2 hx2) r1 (hS x2 y (gx x2 hx2) gy r2)) h'
      show depthL ys + 1 ≤ depthL xs + 1
      apply Nat.succ_le_succ
      apply depthL_le
      intro y hy
      obtain ⟨x, hx, r⟩ := hrel.mem_right y (hperm.mem_iff.mpr hy)
      exact Nat.le_trans (ih x y (gx x hx).1 (gx x hx).2 (wy y hy) r) (depth_le_depthL_aux xs x hx)
    case map.map h1 m1 ks vs h2 m2 ks' vs' =>
      have h' : mapBody (eqvF cfg f) ks vs ks' vs' = true := h
      have gk : ∀ x ∈ ks, Good cfg f x := fun x hx => ha.child (List.mem_append_left _ hx)
      have gv : ∀ x ∈ vs, Good cfg f x := fun x hx => ha.child (List.mem_append_right _ hx)
      have wk' : ∀ x ∈ ks', WF cfg x := fun x hx => WF_child cfg hwb (List.mem_append_left _ hx)
      have wv' : ∀ x ∈ vs', WF cfg x := fun x hx => WF_child cfg hwb (List.mem_append_right _ hx)
      obtain ⟨hd, hl1, -, -⟩ := WF_map ha.2
      obtain ⟨hd', hl2, -, -⟩ := WF_map hwb
      have hpw := distinct_at cfg f ks hd fun x hx => (gk x hx).1
      obtain ⟨qs, hperm, hrel⟩ := mapBody_matching ks vs ks' vs' hl1 hl2 hpw
        (fun x1 hx1 x2 hx2 y hy r1 r2 => by
          have gy : Good cfg f y :=
            ⟨Nat.lt_of_le_of_lt (ih x1 y (gk x1 hx1).1 (gk x1 hx1).2 (wk' y hy) r1) (gk x1 hx1).1, wk' y hy⟩
          exact hT x1 y x2 (gk x1 hx1) gy (gk x2 hx2) r1 (hS x2 y (gk x2 hx2) gy r2)) h'
      have key : ∀ q' ∈ ks'.zip vs', depth q'.1 ≤ depthL ks ∧ depth q'.2 ≤ depthL vs := by
        intro q' hq'
        obtain ⟨q, hq, r⟩ := hrel.mem_right q' (hperm.mem_iff.mpr hq')
        have m := List.of_mem_zip (a := q.1) (b := q.2) hq
        have m' := List.of_mem_zip (a := q'.1) (b := q'.2) hq'
        exact ⟨Nat.le_trans (ih _ _ (gk _ m.1).1 (gk _ m.1).2 (wk' _ m'.1) r.1) (depth_le_depthL_aux ks _ m.1),
          Nat.le_trans (ih _ _ (gv _ m.2).1 (gv _ m.2).2 (wv' _ m'.2) r.2) (depth_le_depthL_aux vs _ m.2)⟩
      have e1 : depthL ks' ≤ depthL ks := by
        apply depthL_le
        intro k' hk'
        obtain ⟨v', hm⟩ := mem_zip_of_mem_left ks' vs' (Nat.le_of_eq hl2) k' hk'
        exact (key _ hm).1
      have e2 : depthL vs' ≤ depthL vs := by
        apply depthL_le
        intro v' hv'
        obtain ⟨k', hm⟩ := mem_zip_of_mem_right ks' vs' (Nat.le_of_eq hl2.symm) v' hv'
        exact (key _ hm).2
      show max (depthL ks') (depthL vs') + 1 ≤ max (depthL ks) (depthL vs) + 1
      omega
    case tagged.tagged h1 m1 t v h2 m2 t' v' =>
      have h' : (t == t' && eqvF cfg f v v') = true := h
      rw [Bool.and_eq_true] at h'
      have gv := ha.child (x := v) (List.mem_singleton.mpr rfl)
      show depth v' + 1 ≤ depth v + 1
      exact Nat.succ_le_succ (ih v v' gv.1 gv.2 hwb h'.2)
    all_goals
      rename_i h1 m1 xs h2 m2 ys
      have h' : seqBody (eqvF cfg f) xs ys = true := h
      rw [seqBody_iff] at h'
      show depthL ys + 1 ≤ depthL xs + 1
      apply Nat.succ_le_succ
      apply depthL_le
      intro y hy
      obtain ⟨x, hx, r⟩ := h'.mem_right y hy
      have gx := ha.child (x := x) hx
      exact Nat.le_trans (ih x y gx.1 gx.2 (WF_child cfg hwb hy) r) (depth_le_depthL_aux xs x hx)

theorem depth_eq_of_eqvF (cfg : Cfg) (f : Nat) (a b : Val) (hda : depth a < f) (hwa : WF cfg a)
    (hwb : WF cfg b) (h : eqvF cfg f a b = true) : depth b = depth a := by
  have h1 := depth_le_of_eqvF cfg f a b hda hwa hwb h
  have hdb : depth b < f := Nat.lt_of_le_of_lt h1 hda
  have h2 := depth_le_of_eqvF cfg f b a hdb hwb hwa (eqvF_symm_aux cfg f a b ⟨hda, hwa⟩ ⟨hdb, hwb⟩ h)
  exact Nat.le_antisymm h1 h2

end Edn.Proofs
