/-
  Edn.Proofs.IdentSoundAux2 — lexically well-formed tokens without a namespace/name split are
  rejected by the identifier reader.
-/
import Edn.Proofs.IdentSoundAux1

namespace Edn.Proofs
open Edn.Model Edn.Spec

/-- what `splitIdent tok = none` means -/
theorem splitIdent_none {tok : Bytes} (h : splitIdent tok = none) :
    tok ≠ [0x2F] ∧ ∃ k, tok.idxOf? 0x2F = some k ∧ (k = 0 ∨ k = tok.length - 1) := by
  unfold splitIdent at h
  by_cases h1 : tok = [0x2F]
  · subst h1; simp at h
  · have h1' : (tok == [0x2F]) = false := by rw [beq_eq_false_iff_ne]; exact h1
    simp only [h1', Bool.false_eq_true, ↓reduceIte] at h
    refine ⟨h1, ?_⟩
    cases hidx : tok.idxOf? 0x2F with
    | none => simp [hidx] at h
    | some k =>
      simp only [hidx] at h
      refine ⟨k, rfl, ?_⟩
      by_cases h2 : (k == 0 || k == tok.length - 1) = true
      · simpa using h2
      · simp [h2] at h

theorem len_ne_one_of_slash {tok : Bytes} {k : Nat} (h1 : tok ≠ [0x2F]) (hidx : tok.idxOf? 0x2F = some k) :
    tok.length ≠ 1 := by
  intro hl
  match tok, hl with
  | [c], _ =>
    rw [List.idxOf?_cons] at hidx
    by_cases hc : c = 0x2F
    · subst hc; exact h1 rfl
    · have : (c == 0x2F) = false := by simpa using hc
      simp [this] at hidx

/-- a token that does not start with `:` and has no split -/
theorem rid_rej_sym (ctx : Ctx) (tok rest : Bytes) (cl : List Call) (hr : TermD rest) (hl : IdentLex tok)
    (hsp : splitIdent tok = none) :
    ∃ e st', readIdentifier ctx { rest := tok ++ rest, calls := cl } = .err e st' ∧ e.code = .invalidSyntax := by
  apply readIdentifier_invalid
  obtain ⟨hne, hnd, hcc⟩ := hl
  obtain ⟨h1, k, hidx, hk⟩ := splitIdent_none hsp
  have hl1 := len_ne_one_of_slash h1 hidx
  have hlen : 0 < tok.length := List.length_pos_iff.mpr hne
  show (scanIdent (tok ++ rest)).valid = false
  rw [scanIdent_tok tok rest hr hnd hcc, hidx]
  have hl0 : (tok.length == 0) = false := by rw [beq_eq_false_iff_ne]; omega
  have hl1' : (tok.length == 1) = false := by rw [beq_eq_false_iff_ne]; exact hl1
  rcases hk with rfl | rfl
  · simp [identSplit, hl0, hl1']
  · simp [identSplit, hl0, hl1']

/-- the lone colon -/
theorem rid_rej_colon (ctx : Ctx) (rest : Bytes) (cl : List Call) (hr : TermD rest) :
    ∃ e st', readIdentifier ctx { rest := 0x3A :: rest, calls := cl } = .err e st' ∧ e.code = .invalidSyntax := by
  have hl : IdentLex [0x3A] := by
    refine ⟨by simp, ?_, ?_⟩
    · intro c hc
      simp only [List.mem_singleton] at hc
      subst hc
      decide +kernel
    · rintro ⟨a, b, hab⟩
      have := congrArg List.length hab
      simp at this
      omega
  have hs := scanIdent_tok [0x3A] rest hr hl.2.1 hl.2.2
  simp only [List.cons_append, List.nil_append] at hs
  unfold readIdentifier
  simp only [Ctx.pos]
  rw [hs]
  simp [identSplit, peek_cons, mkErr]

/-- a keyword token whose body is `/` or has no split -/
theorem rid_rej_kw (ctx : Ctx) (body rest : Bytes) (cl : List Call) (hr : TermD rest)
    (hl : IdentLex (0x3A :: body)) (hne : body ≠ [])
    (hsp : body = [0x2F] ∨ splitIdent body = none) :
    ∃ e st', readIdentifier ctx { rest := 0x3A :: body ++ rest, calls := cl } = .err e st' ∧
      e.code = .invalidSyntax := by
  obtain ⟨_, hnd, hcc⟩ := hl
  have hs := scanIdent_tok (0x3A :: body) rest hr hnd hcc
  have hix : List.idxOf? 0x2F (0x3A :: body) = (body.idxOf? 0x2F).map (· + 1) := by
    rw [List.idxOf?_cons]
    have : ((0x3A : UInt8) == 0x2F) = false := by decide
    simp only [this, Bool.false_eq_true, ↓reduceIte]
  rw [hix, List.length_cons] at hs
  rcases hsp with rfl | hsp
  · apply readIdentifier_invalid
    show (scanIdent (0x3A :: [0x2F] ++ rest)).valid = false
    rw [hs]
    simp [identSplit]
  · obtain ⟨h1, k, hidx, hk⟩ := splitIdent_none hsp
    have hl1 := len_ne_one_of_slash h1 hidx
    have hlen : 0 < body.length := List.length_pos_iff.mpr hne
    rw [hidx] at hs
    simp only [Option.map_some] at hs
    have hl0 : (body.length + 1 == 0) = false := by rw [beq_eq_false_iff_ne]; omega
    have hl1' : (body.length + 1 == 1) = false := by rw [beq_eq_false_iff_ne]; omega
    have hk0 : (k + 1 == 0) = false := by rw [beq_eq_false_iff_ne]; omega
    by_cases hkl : k = body.length - 1
    · apply readIdentifier_invalid
      show (scanIdent (0x3A :: body ++ rest)).valid = false
      rw [hs]
      have : k + 1 = body.length := by omega
      simp [identSplit, hl0, hl1', this]
    · have hk0' : k = 0 := by
        rcases hk with h | h
        · exact h
        · exact absurd h hkl
      subst hk0'
      have : ¬ 1 = body.length := by omega
      unfold readIdentifier
      simp only [Ctx.pos]
      rw [hs]
      simp [identSplit, hl0, hl1', this, peek_cons, mkErr]

end Edn.Proofs
