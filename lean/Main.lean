/-
  Model driver: the same line protocol as harness/edn_harness.c, answered by the Lean
  model.  Built as a `lean_exe` (nothing it imports uses Mathlib).
-/
import Edn.Model.Dump
import Edn.Model.Arena
import Edn.Model.Registry
import Edn.Model.Builder
import Edn.Model.Uniq
import Edn.Model.ReaderA

open Edn.Model

def hexVal (c : Char) : Nat :=
  if '0' ≤ c && c ≤ '9' then c.toNat - 48
  else if 'a' ≤ c && c ≤ 'f' then c.toNat - 87
  else if 'A' ≤ c && c ≤ 'F' then c.toNat - 55 else 0

def unhex (s : String) : Bytes :=
  if s == "-" then [] else
  let rec go : List Char → Bytes
    | a :: b :: r => UInt8.ofNat (hexVal a * 16 + hexVal b) :: go r
    | _ => []
  go s.toList

def cfgOfBits (n : Nat) : Cfg := ⟨n % 2 == 1, (n / 2) % 2 == 1⟩

/-- preset registry mirrored from the harness -/
def presetRegistry (tag : Bytes) : Option Handler :=
  let t := String.fromUTF8! (ByteArray.mk tag.toArray)
  if t == "id" || t == "my/id" then some ⟨"id", fun v => some v⟩
  else if t == "fail" then some ⟨"fail", fun _ => none⟩
  else if t == "failq" then some ⟨"failq", fun _ => none⟩
  else if t == "ext" then some ⟨"ext", fun v => some (.ext ⟨0, 0, 0, false⟩ 7 (v.hdr.s - v.hdr.e))⟩
  else if t == "inst" then some ⟨"alt", fun v => some v⟩
  else none

def optsOf (opt : Nat) : Opts :=
  { eofValue := opt % 2 == 1, mode := (opt / 2) % 4,
    registry := if (opt / 8) % 2 == 1 then some presetRegistry else none }

def sint (i : Option Nat) : String := match i with | some k => toString k | none => "-1"

def runScan (name : String) (start : Nat) (buf : Bytes) : String :=
  let s := buf.drop start
  let n := buf.length
  let idx (r : Bytes) : Nat := n - r.length
  if name == "ws" then toString (idx (skipWs s))
  else if name == "quote" then
    match findQuote s with
    | none => "none"
    | some (q, esc) => s!"{idx q} esc={b01 esc}"
  else if name == "digits" then toString (idx (scanDigits s))
  else if name == "identsimd" then
    let r := scanIdentRaw s
    s!"{start + r.len} slash={sint (r.slash.map (· + start))} colons={b01 r.colons}"
  else if name == "ident" then
    let r := scanIdent s
    if !r.valid then "invalid"
    else s!"valid len={r.len} ns={match r.ns with | some _ => toString start | none => "-1"} nslen={r.ns.getD 0} name={start + r.nameOff} namelen={r.nameLen}"
  else "bad-scanner"

def runLines (buf : Bytes) : String :=
  let offs := lfPositions buf
  let arr := offs.toArray
  let poss := (List.range (buf.length + 1)).map fun off =>
    let (l, c) := linePos arr off
    s!" {l}:{c}"
  s!"n={offs.length} [{",".intercalate (offs.map toString)}]" ++ String.join poss

def runNum (cfg : Cfg) (args : List String) : String :=
  match args with
  | ["i64", radix, neg, hex] =>
    match parseInt64 cfg (unhex hex) radix.toNat! (neg == "1") with
    | some i => s!"some {i}"
    | none => "none"
  | ["d8", hex] =>
    let w := load64le (unhex hex)
    s!"{b01 (eightDigitsFast w)} {(parseEightDigits w).toNat}"
  | ["dbl", hex] => hex64 (let b := parseDouble cfg (unhex hex); if isNaNBits b then 0x7ff8000000000000 else b)
  | ["gcd", a, b] => toString (Int.ofNat (ratioGcd a.toInt! b.toInt!))
  | _ => "bad-num"

def runArena (toks : List String) : String :=
  let sizes := toks.map fun t =>
    if t.startsWith "M" then sizeMax - (t.drop 1).toNat! else t.toNat!
  let mallocOk (n : Nat) : Bool := n ≤ 2 ^ 40
  let (rs, a) := Arena.run mallocOk Arena.create sizes
  -- capacity of the block a region lives in: look it up in the final state
  let caps := a.blocks.map (·.cap)
  let outs := rs.map fun r =>
    match r with
    | none => "null "
    | some g => s!"b{g.blk}+{g.off}/{caps.getD g.blk 0} "
  String.join outs ++ s!"blocks={a.blocks.length}"

/-- `B <initcap> <n> <schedule of 0/1 or ->` : the life of a collection builder -/
def runBuilder (toks : List String) : String :=
  match toks with
  | [ic, n, sch] =>
    let xs := List.range n.toNat!
    let sched := if sch == "-" then [] else sch.toList.map (· == '1')
    -- growth rule as observed on the current source: next capacity = the next entry of the extracted chain
    let rec lookup : List Nat → Nat → Option Nat
      | c :: n :: rest, cap => if c == cap then some n else lookup rest cap
      | _, _ => none
    let grow : Nat → Nat := fun cap => (lookup Edn.Generated.Tables.builderGrowth cap).getD (growHalf cap)
    match Builder.run grow ic.toNat! xs sched with
    | .addFailed i => s!"addfail {i}"
    | .finished c none => s!"null count={c}"
    | .finished c (some (.heap, ys)) => s!"heap count={c} " ++ (if ys == xs then "ok" else "CORRUPT")
    | .finished c (some (.stack, _)) => s!"STACK count={c}"
  | _ => "bad-line"

def parseOp (t : String) : Char × String × Nat :=
  let op := t.front
  let body := (t.drop 1).toString
  match body.splitOn "=" with
  | [k, h] => (op, k, h.toNat!)
  | _ => (op, body, 0)

def runRegistry (toks : List String) : String :=
  let rec go (r : Registry) (names : List String) : List String → List String
    | [] => []
    | t :: ts =>
      let (op, k, h) := parseOp t
      let names := if names.contains k then names else names ++ [k]
      let kb := k.toUTF8.toList
      let (r', tag) :=
        if op == '+' then (r.register kb (if h == 1 then 1 else 2), "1")
        else if op == '-' then (r.unregister kb, "u")
        else (r, "q")
      let obs := ",".intercalate (names.map fun n => s!"{n}={(r'.lookup n.toUTF8.toList).getD 0}")
      (tag ++ "{" ++ obs ++ "} ") :: go r' names ts
  String.join (go Registry.create [] toks)

def runExternal (toks : List String) : String :=
  let rec go (c : Chain Nat) (ids : List Nat) : List String → List String
    | [] => []
    | t :: ts =>
      let (op, k, h) := parseOp t
      let id := k.toNat!
      let ids := if ids.contains id then ids else ids ++ [id]
      let (c', tag) :=
        -- h = E or EH: equality callback E, hash callback H (0 = none); stored as one code, printed as the harness prints it
        if op == '+' then (c.register id (if h ≥ 10 then (if h % 10 == 0 then h / 10 else h) else (if h == 1 then 1 else 2)), "1")
        else if op == '-' then (c.unregister id, "u")
        else (c, "q")
      let obs := ",".intercalate (ids.map fun n => s!"{n}={(c'.lookup n).getD 0}")
      (tag ++ "{" ++ obs ++ "} ") :: go c' ids ts
  String.join (go [] [] toks)

/-! ### Q : value-algebra scripts -/

inductive PathElem | idx (i : Nat) | md

def parsePath (p : String) : Nat × List PathElem :=
  match p.splitOn "." with
  | [] => (0, [])
  | k :: rest => (k.toNat!, rest.map fun t => if t == "m" then PathElem.md else PathElem.idx t.toNat!)

def childAt (v : Val) (i : Nat) : Option Val :=
  match v with
  | .list _ _ xs | .vec _ _ xs | .set _ _ xs => xs[i]?
  | .map _ _ ks vs => if i % 2 == 0 then ks[i / 2]? else vs[i / 2]?
  | .tagged _ _ _ x => if i == 0 then some x else none
  | _ => none

def getAt : Val → List PathElem → Option Val
  | v, [] => some v
  | v, .idx i :: r => (childAt v i).bind (getAt · r)
  | v, .md :: r => v.md.bind (getAt · r)

def setChild (v : Val) (i : Nat) (c : Val) : Val :=
  match v with
  | .list h m xs => .list h m (xs.set i c)
  | .vec h m xs => .vec h m (xs.set i c)
  | .set h m xs => .set h m (xs.set i c)
  | .map h m ks vs => if i % 2 == 0 then .map h m (ks.set (i / 2) c) vs else .map h m ks (vs.set (i / 2) c)
  | .tagged h m t _ => .tagged h m t c
  | v => v

partial def modifyAt (v : Val) (path : List PathElem) (f : Val → Val) : Val :=
  match path with
  | [] => f v
  | .idx i :: r =>
    match childAt v i with
    | some c => setChild v i (modifyAt c r f)
    | none => v
  | .md :: r =>
    match v.md with
    | some m => v.setMd (some (modifyAt m r f))
    | none => v

def children (v : Val) : List Val :=
  match v with
  | .list _ _ xs | .vec _ _ xs => xs
  | _ => []

def setChildren (v : Val) (xs : List Val) : Val :=
  match v with
  | .list h m _ => .list h m xs
  | .vec h m _ => .vec h m xs
  | v => v

def dumpOpt (cfg : Cfg) (v : Option Val) : String :=
  match v with
  | some x => dumpVal cfg false 0 x
  | none => "none"

def runScript (cfg : Cfg) (toks : List String) : String :=
  let rec go (regs : Array (Option Val)) : List String → List String
    | [] => []
    | t :: ts =>
      if t.startsWith "r" && (t.drop 1).front.isDigit then
        match t.splitOn "=" with
        | [k, hex] =>
          let idx := (k.drop 1).toNat!
          match (read cfg {} (unhex hex)).out with
          | .value v => "ok" :: go (regs.setIfInBounds idx (some v)) ts
          | .error code _ _ => s!"err:{code.name}" :: go (regs.setIfInBounds idx none) ts
          | _ => "err:?" :: go (regs.setIfInBounds idx none) ts
        | _ => "bad-op" :: go regs ts
      else
        let parts := t.splitOn ":"
        let look (p : String) : Option Val :=
          let (k, path) := parsePath p
          (regs.getD k none).bind (getAt · path)
        match parts with
        | ["h", p] =>
          let (k, path) := parsePath p
          match look p with
          | none => hex64 fnvOffset :: go regs ts
          | some v =>
            let (h, _) := hashOp cfg v
            let regs' := match regs.getD k none with
              | some root => regs.setIfInBounds k (some (modifyAt root path fun x => (hashOp cfg x).2))
              | none => regs
            hex64 h :: go regs' ts
        | ["e", p, q] =>
          (match look p, look q with
           | some a, some b => b01 (equal cfg a b)
           | none, none => "1"
           | _, _ => "0") :: go regs ts
        | ["lk", p, q] =>
          (match look p, look q with
           | some m, some key => dumpOpt cfg (mapLookup cfg m key)
           | _, _ => "none") :: go regs ts
        | ["ck", p, q] =>
          (match look p, look q with
           | some m, some key => b01 (mapLookup cfg m key).isSome
           | _, _ => "0") :: go regs ts
        | ["sc", p, q] =>
          (match look p, look q with
           | some m, some x => b01 (setContains cfg m x)
           | _, _ => "0") :: go regs ts
        | ["sg", p] =>
          (match look p with
           | some (.str _ d e) =>
             (match stringGet cfg d e with
              | some b => s!"{b.length}:{hexOf b}"
              | none => "ERR")
           | _ => "ERR") :: go regs ts
        | ["se", p, hex] =>
          (match look p with
           | some (.str _ d e) => b01 (stringEquals cfg d e (unhex hex))
           | _ => "0") :: go regs ts
        | ["gk", p, hex] =>
          (match look p with
           | some m@(.map ..) => dumpOpt cfg (mapLookup cfg m (tempKeyword none ((unhex hex).takeWhile (· != 0))))
           | _ => "none") :: go regs ts
        | ["gs", p, hex] =>
          (match look p with
           | some m@(.map ..) => dumpOpt cfg (mapLookup cfg m (tempString ((unhex hex).takeWhile (· != 0))))
           | _ => "none") :: go regs ts
        | ["gn", p, hns, hname] =>
          (match look p with
           | some m@(.map ..) =>
             dumpOpt cfg (mapLookup cfg m (tempKeyword (some ((unhex hns).takeWhile (· != 0))) ((unhex hname).takeWhile (· != 0))))
           | _ => "none") :: go regs ts
        | ["d", p] =>
          let (k, path) := parsePath p
          (match look p with
           | some v =>
             let (dup, ys) := hasDuplicates cfg (children v)
             let regs' := match regs.getD k none with
               | some root => regs.setIfInBounds k (some (modifyAt root path fun x => setChildren x ys))
               | none => regs
             b01 dup :: go regs' ts
           | none => "0" :: go regs ts)
        | ["t", p] => (match look p with | some x => dumpVal cfg false 0 x | none => "(null)") :: go regs ts
        | [op, p] =>
          -- d<c><m>: edn_has_duplicates with the table (c) / scratch copy (m) allocation failing (0) or not (1)
          if op == "d00" || op == "d01" || op == "d10" || op == "d11" then
            let (k, path) := parsePath p
            (match look p with
             | some v =>
               let (dup, ys) := hasDuplicatesF cfg (op == "d10" || op == "d11") (op == "d01" || op == "d11") (children v)
               let regs' := match regs.getD k none with
                 | some root => regs.setIfInBounds k (some (modifyAt root path fun x => setChildren x ys))
                 | none => regs
               b01 dup :: go regs' ts
             | none => "0" :: go regs ts)
          else "bad-op" :: go regs ts
        | _ => "bad-op" :: go regs ts
  "\t".intercalate (go (Array.replicate 16 none) toks)

/-- growth rule of the collection builder as observed on the current source (next capacity = the next
    entry of the extracted chain), `growHalf` beyond the chain -/
def observedGrow : Nat → Nat :=
  let rec lookup : List Nat → Nat → Option Nat
    | c :: n :: rest, cap => if c == cap then some n else lookup rest cap
    | _, _ => none
  fun cap => (lookup Edn.Generated.Tables.builderGrowth cap).getD (growHalf cap)

/-- the canonical dump with the accessor calls of the harness's dumper made under the schedule: per big integer /
    big decimal three calls of its getter (one by the dump, which prints what it returns, then two by the accessor
    audit that follows the node, which flags a NULL from its first), per string two calls of `edn_string_get` (the
    first is printed; `UNSTABLE` when the second returns something else) -/
partial def dumpValA (x : ACtx) (ranges : Bool) (n : Nat) (v : Val) (a : ASt) : String × ASt :=
  let cfg := x.ctx.cfg
  let h := v.hdr
  let pos := if !ranges then "" else if h.synth then " 0 0" else s!" {n - h.s} {n - h.e}"
  let kids (xs : List Val) (a : ASt) : String × ASt :=
    xs.foldl (fun (acc : String × ASt) y => let (t, a') := dumpValA x ranges n y acc.2; (acc.1 ++ " " ++ t, a')) ("", a)
  let withMd (body : String) (a : ASt) : String × ASt :=
    match v.md with
    | some m => if cfg.clj then (let (t, a') := dumpValA x ranges n m a; (body ++ " ^" ++ t ++ ")", a')) else (body ++ ")", a)
    | none => (body ++ ")", a)
  match v with
  | .bigint _ neg radix _ =>
    -- the node's own dump first, then the accessor audit (two more calls, a NULL from the first of them is flagged)
    let (r1, a1) := materialiseA x v a
    let (r2, a2) := materialiseA x v a1
    let (_, a3) := materialiseA x v a2
    (s!"(bigint{pos} {b01 neg} {radix} {match r1 with | some b => hexOf b | none => "NULL"})" ++
      (if r2.isNone then "!ACCESSOR:bigint_get" else ""), a3)
  | .bigdec _ neg _ =>
    let (r1, a1) := materialiseA x v a
    let (r2, a2) := materialiseA x v a1
    let (_, a3) := materialiseA x v a2
    (s!"(bigdec{pos} {b01 neg} {match r1 with | some b => hexOf b | none => "NULL"})" ++
      (if r2.isNone then "!ACCESSOR:bigdec_get" else ""), a3)
  | .str _ _ _ =>
    let (r1, a1) := materialiseA x v a
    let (r2, a2) := materialiseA x v a1
    let body := match r1 with
      | none => "ERR"
      | some b => s!"{b.length} {hexOf b}"
    (s!"(str{pos} {body}{if r1.isNone && r2.isSome then " UNSTABLE" else ""})", a2)
  | .sym _ _ ns name => withMd s!"(sym{pos} {match ns with | some n => hexOf n | none => "_"} {hexOf name}" a
  | .list _ _ xs => let (t, a1) := kids xs a; withMd s!"(list{pos}{t}" a1
  | .vec _ _ xs => let (t, a1) := kids xs a; withMd s!"(vec{pos}{t}" a1
  | .set _ _ xs => let (t, a1) := kids xs a; withMd s!"(set{pos}{t}" a1
  | .map _ _ ks vs =>
    let (t, a1) := (ks.zip vs).foldl (fun (acc : String × ASt) (kv : Val × Val) =>
      let (tk, a') := dumpValA x ranges n kv.1 acc.2
      let (tv, a'') := dumpValA x ranges n kv.2 a'
      (acc.1 ++ " " ++ tk ++ " " ++ tv, a'')) ("", a)
    withMd s!"(map{pos}{t}" a1
  | .tagged _ _ tag y => let (t, a1) := dumpValA x ranges n y a; withMd s!"(tagged{pos} {hexOf tag} {t}" a1
  | v => (dumpVal cfg ranges n v, a)

/-- `H <k> <mode> <opt> <hex>` : read with logical request k failing (mode 1: only k; mode 2: k and every
    later one; k = 0: none); the outcome as `R` prints it, then the allocation summary -/
def runFaultRead (cfg : Cfg) (k mode o : Nat) (inp : Bytes) : String :=
  -- modes 3 / 4 = 1 / 2 with the schedule running on through the accessor calls of the dump
  let from_ := mode == 2 || mode == 4
  let orc : Nat → Bool := fun n => if k == 0 then false else if from_ then n ≥ k else n == k
  -- bit 5 of opt: the C library's own qsort (glibc merge sort) presents the elements to the comparator; otherwise
  -- the sanitised build is modelled, where ASan's qsort interceptor first runs the comparator over all adjacent pairs
  let touch : Nat → List Nat := if (o / 32) % 2 == 1 then (fun n => msortTouch n 0 n) else List.range
  -- of the preset handlers only `ext` requests memory (edn_external_create)
  let hreq : String → Bool := fun name => name == "ext"
  let r := readA cfg (optsOf o) orc inp observedGrow hreq touch
  let summary (a : ASt) : String := s!" reqs={a.reqs} live={a.live.length} arena={a.arena.render} trace=[{a.renderTrace}]"
  let withCalls := (o / 8) % 2 == 1
  if mode == 3 || mode == 4 then
    match r.out with
    | .value v =>
      let x : ACtx := { ctx := { cfg := cfg, opts := optsOf o }, orc := orc, grow := observedGrow, handlerReq := hreq, sortTouch := touch }
      let (t, a') := dumpValA x true inp.length v r.ast
      let calls := if withCalls then " calls=[" ++ " ".intercalate (r.calls.map fun c => s!"{c.name}@{inp.length - c.s}:{inp.length - c.e}") ++ "]" else ""
      let dtrace := String.join ((a'.trace.take (a'.trace.length - r.ast.trace.length)).reverse.map Ev.render)
      "ok " ++ t ++ calls ++ summary r.ast ++ s!" dump-reqs={a'.reqs} dump-trace=[{dtrace}]"
    | _ => dumpResult cfg withCalls inp.length r.result ++ summary r.ast ++ s!" dump-reqs={r.ast.reqs} dump-trace=[]"
  else dumpResult cfg withCalls inp.length r.result ++ summary r.ast

def step (cfg : Cfg) (line : String) : Cfg × String :=
  match line.trimAscii.toString.splitOn " " with
  | ["C", n] => (cfgOfBits n.toNat!, s!"cfg {n}")
  | ["R", opt, hex] =>
    let o := opt.toNat!
    let inp := unhex hex
    (cfg, dumpResult cfg ((o / 8) % 2 == 1) inp.length (read cfg (optsOf o) inp))
  | ["H", k, mode, opt, hex] => (cfg, runFaultRead cfg k.toNat! mode.toNat! opt.toNat! (unhex hex))
  | ["S", name, start, hex] => (cfg, runScan name start.toNat! (unhex hex))
  | ["L", hex] => (cfg, runLines (unhex hex))
  | "N" :: rest => (cfg, runNum cfg rest)
  | "Q" :: rest => (cfg, runScript cfg rest)
  | "A" :: rest => (cfg, runArena rest)
  | "B" :: rest => (cfg, runBuilder rest)
  | "G" :: rest => (cfg, runRegistry rest)
  | "X" :: rest => (cfg, runExternal rest)
  | [""] => (cfg, "")
  | _ => (cfg, "bad-line")

partial def loop (h : IO.FS.Stream) (out : IO.FS.Stream) (cfg : Cfg) : IO Unit := do
  let line ← h.getLine
  if line.isEmpty then return ()
  let (cfg', o) := step cfg line
  out.putStrLn o
  loop h out cfg'

def main : IO Unit := do
  let stdin ← IO.getStdin
  let stdout ← IO.getStdout
  loop stdin stdout Cfg.core
