-- This module serves as the root of the `Edn` library.
-- Import modules here that should be built as part of the library.
import Edn.Basic
