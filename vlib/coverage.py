"""Coverage of the library's source by everything the checks feed it (correspondence, oracles, fault runs).

  python3 -m vlib.coverage [--checks all|C03,C10] [--tier quick] [--jobs 4]

Works on a scratch copy of /verif (so the committed evidence is not rewritten by instrumented builds): with VERIF_COV=1 every harness the
checks start is the gcov-instrumented -O0 build; afterwards gcov is run on the accumulated counters.  Writes coverage/summary.json and
coverage/REPORT.md: per source file executed / instrumented lines and taken / instrumented branches per configuration and merged, and the
list of lines no input reached.  This measures the *generators*: a line no check input reaches is a line whose behaviour is tied to the
model by nothing but reading.  It is a report, not a registered check."""
import argparse
import glob
import gzip
import json
import os
import re
import shutil
import subprocess
import sys
import tempfile
import time
from concurrent.futures import ThreadPoolExecutor

VERIF = os.path.dirname(os.path.dirname(os.path.abspath(__file__)))
ALL = ["C%02d" % i for i in range(1, 21)]


def sh(cmd, **kw):
    return subprocess.run(cmd, stdout=subprocess.PIPE, stderr=subprocess.STDOUT, text=True, errors="replace", **kw)


def main():
    ap = argparse.ArgumentParser()
    ap.add_argument("--checks", default="all")
    ap.add_argument("--tier", default="quick")
    ap.add_argument("--jobs", type=int, default=4)
    ap.add_argument("--repo", default=os.environ.get("VERIF_REPO", "/repo"))
    a = ap.parse_args()
    checks = ALL if a.checks == "all" else a.checks.split(",")
    scratch = tempfile.mkdtemp(prefix="edn_cov_")
    vf = os.path.join(scratch, "verif")
    t0 = time.time()
    try:
        sh(["rsync", "-a", "--exclude", "replays", "--exclude", ".git", "--exclude", "build/*/*.objs", "--exclude", "build/*/*-cov", VERIF + "/", vf + "/"])
        env = dict(os.environ, VERIF_REPO=a.repo, VERIF_COV="1")
        runs = {}

        def one(c):
            t = time.time()
            r = sh(["./check", c, "--tier", a.tier], cwd=vf, env=env)
            runs[c] = {"exit": r.returncode, "wall_s": round(time.time() - t, 1), "violations": sum(1 for l in r.stdout.split("\n") if l.startswith("VIOLATION"))}
            print("%s exit=%d %.0fs" % (c, r.returncode, time.time() - t), flush=True)

        with ThreadPoolExecutor(max_workers=a.jobs) as ex:
            list(ex.map(one, checks))
        # ---- gcov --------------------------------------------------------------------------------------------------------------
        per = {}   # (cfg, file) -> {line: count}, branches
        for objdir in sorted(glob.glob(os.path.join(vf, "build", "*", "cov-*-*.objs"))):
            m = re.search(r"cov-(unity|wrap)-(\w+)\.objs$", objdir)
            style, cfg = m.group(1), m.group(2)
            gcdas = glob.glob(os.path.join(objdir, "*.gcda"))
            if not gcdas:
                continue
            r = sh(["gcov", "--json-format", "--branch-probabilities", "--stdout"] + gcdas, cwd=objdir)
            # --stdout prints one JSON document per gcda
            dec = json.JSONDecoder()
            txt = r.stdout
            i = 0
            while i < len(txt):
                j = txt.find("{", i)
                if j < 0:
                    break
                try:
                    doc, k = dec.raw_decode(txt, j)
                except ValueError:
                    break
                i = k
                for f in doc.get("files", []):
                    name = f["file"]
                    if "/src/" not in name and not name.startswith("src/"):
                        continue
                    if "harness" in name:
                        continue
                    base = os.path.basename(name)
                    d = per.setdefault((cfg, base), {"lines": {}, "br": {}})
                    for ln in f["lines"]:
                        n = ln["line_number"]
                        d["lines"][n] = d["lines"].get(n, 0) + ln["count"]
                        for bi, b in enumerate(ln.get("branches", [])):
                            key = (n, bi)
                            d["br"][key] = d["br"].get(key, 0) + b["count"]
        files = sorted(set(f for (_, f) in per))
        summary = {"tier": a.tier, "checks": runs, "files": {}, "wall_s": None}
        uncovered = {}
        tl = te = tb = tbt = 0
        for f in files:
            row = {}
            ml, mb = {}, {}
            for cfg in ("core", "clj", "exp", "both"):
                d = per.get((cfg, f))
                if not d:
                    continue
                row[cfg] = {"lines": len(d["lines"]), "lines_hit": sum(1 for c in d["lines"].values() if c), "branches": len(d["br"]), "branches_taken": sum(1 for c in d["br"].values() if c)}
                for n, c in d["lines"].items():
                    ml[(cfg, n)] = c
            # a source line counts as reached when some configuration that compiles it reached it
            lines = sorted(set(n for (_, n) in ml))
            hit = [n for n in lines if any(ml.get((cfg, n), 0) for cfg in ("core", "clj", "exp", "both"))]
            miss = [n for n in lines if n not in set(hit)]
            brs = {}
            for cfg in ("core", "clj", "exp", "both"):
                d = per.get((cfg, f))
                if d:
                    for k, c in d["br"].items():
                        brs[k] = brs.get(k, 0) + c
            row["merged"] = {"lines": len(lines), "lines_hit": len(hit), "branches": len(brs), "branches_taken": sum(1 for c in brs.values() if c)}
            summary["files"][f] = row
            uncovered[f] = miss
            tl += len(lines); te += len(hit); tb += len(brs); tbt += sum(1 for c in brs.values() if c)
        summary["total"] = {"lines": tl, "lines_hit": te, "branches": tb, "branches_taken": tbt}
        summary["uncovered_lines"] = uncovered
        summary["wall_s"] = round(time.time() - t0, 1)
        out = os.path.join(VERIF, "coverage")
        os.makedirs(out, exist_ok=True)
        json.dump(summary, open(os.path.join(out, "summary.json"), "w"), indent=1, sort_keys=True)
        with open(os.path.join(out, "REPORT.md"), "w") as fh:
            fh.write("# Source coverage of /repo/src by the inputs of the checks (%s tiers)\n\n" % a.tier)
            fh.write("Produced by `python3 -m vlib.coverage`: gcov counters of the instrumented harness builds (four configurations, unity and wrap builds) accumulated over "
                     "every harness process the checks start. A line counts as reached if some configuration that compiles it executed it. NEON / WASM / MSVC branches are not compiled and not counted.\n\n")
            fh.write("| file | lines reached | branches taken |\n|---|---|---|\n")
            for f in files:
                m = summary["files"][f]["merged"]
                fh.write("| %s | %d / %d (%.1f%%) | %d / %d (%.1f%%) |\n" % (f, m["lines_hit"], m["lines"], 100.0 * m["lines_hit"] / max(1, m["lines"]), m["branches_taken"], m["branches"], 100.0 * m["branches_taken"] / max(1, m["branches"])))
            fh.write("| **total** | %d / %d (%.1f%%) | %d / %d (%.1f%%) |\n\n" % (te, tl, 100.0 * te / max(1, tl), tbt, tb, 100.0 * tbt / max(1, tb)))
            fh.write("## Lines no check input reached\n\n")
            for f in files:
                if uncovered[f]:
                    src = open(os.path.join(a.repo, "src", f), errors="replace").read().split("\n")
                    fh.write("### %s\n\n```\n" % f)
                    for n in uncovered[f]:
                        fh.write("%5d  %s\n" % (n, src[n - 1] if n - 1 < len(src) else ""))
                    fh.write("```\n\n")
        print(json.dumps(summary["total"]))
    finally:
        shutil.rmtree(scratch, ignore_errors=True)
    return 0


if __name__ == "__main__":
    sys.exit(main())
