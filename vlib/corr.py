"""Correspondence runs: the same protocol lines through the real library (harness) and
through the Lean model (driver); outputs compared line by line."""
from . import common as C


def read_lines(docs, opt=0):
    return ["R %d %s" % (opt, C.hexs(d)) for d in docs]


# protocol lines the harness could not serve because the static helper they call no longer exists in the source
# (renamed, inlined, new signature): configuration -> count.  Such lines are treated as not run.
UNSUPPORTED = {}
# every crash of the harness seen by this process: (configuration, mode, style, line, return code, stderr tail).  Checks report
# crashes themselves; props/util.finish_proof reports any crash no check reported, so that none is ever dropped silently.
CRASHES = []


def run_impl(cfg, lines, mode="san", style="unity", prefix=None, nchunks=16, **kw):
    exe = C.harness(style, cfg, mode)
    outs, crashes = C.run_parallel(exe, lines, nchunks=nchunks, prefix=prefix or [], **kw)
    for idx, rc, err in crashes:
        CRASHES.append((cfg, mode, style, (prefix or []) + [lines[idx]] if 0 <= idx < len(lines) else [], rc, (err or "")[-2500:]))
    for i, o in enumerate(outs):
        if o == "unsupported":
            outs[i] = None
            UNSUPPORTED[cfg] = UNSUPPORTED.get(cfg, 0) + 1
    return outs, crashes


def run_model(cfg, lines, nchunks=16):
    drv = C.driver()
    outs, crashes = C.run_parallel(drv, lines, nchunks=nchunks, prefix=["C %d" % C.CFG_BITS[cfg]], resilient=False)
    return outs, crashes


def correspond(cfg, lines, mode="san", style="unity", prefix=None, project=None, **kw):
    """Returns (impl_outs, model_outs, diffs, crashes); diffs = list of indices."""
    impl, crashes = run_impl(cfg, lines, mode=mode, style=style, prefix=prefix, **kw)
    model, mcr = run_model(cfg, lines)
    diffs = []
    for i, (a, b) in enumerate(zip(impl, model)):
        if a is None:
            continue
        pa, pb = (project(a), project(b)) if project else (a, b)
        if pa != pb:
            diffs.append(i)
    return impl, model, diffs, crashes, mcr


def strip_ranges(dump):
    """Remove the ' s e' pair after every node kind of a dump line with ranges."""
    import re
    return re.sub(r"\((nil|bool|int|bigint|float|bigdec|ratio|bigratio|char|str|sym|kw|list|vec|set|map|tagged|ext) \d+ \d+",
                  r"(\1", dump)
