"""Regenerates lean/Edn/Generated/Tables.lean from /repo's current working tree by
compiling and running harness/extract.c once per feature configuration."""
import os

from . import common as C

OUT = os.path.join(C.LEAN_DIR, "Edn", "Generated", "Tables.lean")
ORDER = ["core", "clj", "exp", "both"]


def parse(txt):
    d = {}
    order = []
    for line in txt.strip().split("\n"):
        parts = line.split()
        key, kind, vals = parts[0], parts[1], parts[2:]
        d[key] = (kind, vals)
        order.append(key)
    return d, order


def lean_value(kind, vals):
    if kind in ("nat", "mask"):
        return "Nat", vals[0]
    if kind == "list":
        return "List Nat", "[" + ", ".join(vals) + "]"
    raise ValueError(kind)


def generate():
    per = {}
    order = None
    for cfg in ORDER:
        d, o = parse(C.extractor_output(cfg))
        per[cfg] = d
        if order is None:
            order = o
    lines = ["/-",
             "  GENERATED FILE - rewritten on every run by vlib/gen_tables.py from the",
             "  repository's current sources (harness/extract.c compiled per configuration).",
             "  Values that differ between feature configurations take (clj exp : Bool).",
             "-/",
             "namespace Edn.Generated.Tables", ""]
    for key in order:
        vals = [per[c].get(key) for c in ORDER]
        if any(v is None for v in vals):
            raise C.BuildError("extractor key %s missing in some configuration" % key)
        ty, v0 = lean_value(*vals[0])
        rendered = [lean_value(*v)[1] for v in vals]
        if all(r == rendered[0] for r in rendered):
            lines.append("def %s : %s := %s" % (key, ty, rendered[0]))
        else:
            lines.append("def %s (clj exp : Bool) : %s :=" % (key, ty))
            lines.append("  if clj then (if exp then %s else %s)" % (rendered[3], rendered[1]))
            lines.append("  else (if exp then %s else %s)" % (rendered[2], rendered[0]))
        lines.append("")
    lines.append("end Edn.Generated.Tables")
    txt = "\n".join(lines) + "\n"
    os.makedirs(os.path.dirname(OUT), exist_ok=True)
    old = None
    if os.path.exists(OUT):
        old = open(OUT).read()
    if old != txt:
        with open(OUT + ".tmp", "w") as fh:
            fh.write(txt)
        os.rename(OUT + ".tmp", OUT)
    return OUT
