"""Self-validation: apply changes to a scratch worktree of /repo and record which checks alarm.

  python3 -m vlib.selftest --checks all|C01,C07 [--tier quick] --out selftest/results.json patch.diff ...

Works on a scratch copy of /verif and a scratch git worktree of /repo (both removed afterwards),
so neither /repo nor the evidence of /verif is touched.  A patch named HARMLESS-* is expected to
leave every check quiet (or at most to break a correspondence: reported as such)."""
import argparse
import json
import os
import re
import shutil
import subprocess
import sys
import tempfile
import time

VERIF = os.path.dirname(os.path.dirname(os.path.abspath(__file__)))
ALL = ["C%02d" % i for i in range(1, 21)]


def sh(cmd, **kw):
    return subprocess.run(cmd, stdout=subprocess.PIPE, stderr=subprocess.STDOUT, text=True, errors="replace", **kw)


def main():
    ap = argparse.ArgumentParser()
    ap.add_argument("patches", nargs="+")
    ap.add_argument("--checks", default="all")
    ap.add_argument("--tier", default="quick")
    ap.add_argument("--out", default=None)
    ap.add_argument("--repo", default="/repo")
    a = ap.parse_args()
    checks = ALL if a.checks == "all" else a.checks.split(",")
    scratch = tempfile.mkdtemp(prefix="edn_selftest_")
    wt = os.path.join(scratch, "repo")
    vf = os.path.join(scratch, "verif")
    results = {}
    if a.out and os.path.exists(a.out):
        results = json.load(open(a.out))
    try:
        r = sh(["git", "-C", a.repo, "worktree", "add", "--detach", "-f", wt, "HEAD"])
        if r.returncode != 0:
            print(r.stdout)
            return 2
        sh(["rsync", "-a", "--exclude", "replays", "--exclude", ".git", "--exclude", "build/*/*.objs", VERIF + "/", vf + "/"])
        env = dict(os.environ, VERIF_REPO=wt)
        for patch in a.patches:
            name = os.path.basename(os.path.dirname(patch)) + "/" + os.path.basename(patch) if "seeded" in patch else os.path.basename(patch)
            sh(["git", "-C", wt, "checkout", "--", "."])
            r = sh(["git", "-C", wt, "apply", os.path.abspath(patch)])
            if r.returncode != 0:
                results[name] = {"error": "patch does not apply: " + r.stdout[-300:]}
                print(name, "DOES NOT APPLY")
                continue
            row = results.setdefault(name, {})
            for c in checks:
                t0 = time.time()
                shutil.rmtree(os.path.join(vf, "replays"), ignore_errors=True)
                r = sh(["./check", c, "--tier", a.tier], cwd=vf, env=env)
                viol = [l for l in r.stdout.split("\n") if l.startswith("VIOLATION")]
                classes = []
                for l in viol:
                    m = re.search(r"replay=(\S+)", l)
                    try:
                        classes.append(json.load(open(m.group(1))).get("class", "?"))
                    except Exception:
                        classes.append("?")
                row[c] = {"exit": r.returncode, "violations": len(viol), "with_input": sum(1 for l in viol if "no-failing-input-found" not in l),
                          "classes": sorted(set(classes))[:8], "wall_s": round(time.time() - t0, 1)}
                print("%-45s %s exit=%d violations=%d (with input: %d) %s" % (name, c, r.returncode, len(viol), row[c]["with_input"], row[c]["classes"][:3]), flush=True)
                if a.out:
                    json.dump(results, open(a.out, "w"), indent=1, sort_keys=True)
    finally:
        sh(["git", "-C", a.repo, "worktree", "remove", "--force", wt])
        shutil.rmtree(scratch, ignore_errors=True)
        sh(["git", "-C", a.repo, "worktree", "prune"])
    return 0


if __name__ == "__main__":
    sys.exit(main())
