"""Regenerates MANIFEST.json from the table below (run: python3 -m vlib.manifest)."""
import json
import os

from . import common as C

NOTE_COMMON = ("Trusted: Lean 4.33.0 kernel (axioms propext, Classical.choice, Quot.sound only; audited every run); "
               "the hand-written model of the C code is tied to /repo by tables regenerated from the working tree and by the "
               "correspondence run (exhaustive on the finite domains listed in the evidence, sampled elsewhere); "
               "harness, extractor, generators and diff are trusted code; NEON/WASM/MSVC branches are not modelled.")

CHECKS = {
    "C12": dict(
        category="proof",
        text=("Lean theorems (Edn.Properties.C12) prove, for inputs of every length, that the block (SSE) form of each "
              "scanner of the model equals its byte-at-a-time specification, that the lane predicates and tables "
              "extracted from the current source agree, and that leading blanks do not change what the reader returns. "
              "The model is tied to the code on every run: 16 lanes x 256 byte values, lengths 0..50 (96 thorough) x special-byte "
              "positions for the five scanner entry points in the sanitised and the -O2 build, against the model and an "
              "independent scalar reference; whole reads with 1..47 leading blanks and with varied bytes after `length`."),
        design_ref="DESIGN.md section 6, C12",
        note=NOTE_COMMON + " SSE lane operations are assumed to be lane-wise as the ISA defines them.",
        technique="Lean 4 proof (induction over 16-byte blocks, decide +kernel over 256 byte values) + correspondence check + scalar oracle",
    ),
    "C04": dict(
        category="proof",
        text=("Lean theorems (Edn.Properties.C04) prove for every input: the SWAR test accepts exactly the 8-byte blocks of ASCII digits "
              "and the multiply-shift cascade returns their decimal value (all 10^8 blocks at once); parse_int64_from_buffer returns "
              "`some n` exactly when the value of the digit string (any length, radix 2..36, either sign, underscores with the "
              "experimental flag) lies in the signed 64-bit range and n is that value; ratio_gcd equals the mathematical gcd for all "
              "int64 operands including INT64_MIN. Tied to the code by direct calls of the static helpers (2^63 neighbourhood for every "
              "radix, 1..40 digits, 20k/1M random 8-digit blocks, every non-digit byte in every lane, gcd operands) and by whole literals "
              "(decimal, N/M suffixes, radix/hex/octal, ratios, underscores) through reader and model, with Python big integers and "
              "Fraction as the oracle."),
        design_ref="DESIGN.md section 6, C04",
        note=NOTE_COMMON + " The reader-level statement (which branch of edn_read_number produces which payload) is covered by the correspondence run, not yet by a theorem.",
        technique="Lean 4 proof (lane-wise SWAR arithmetic, loop invariants, Stein gcd) + correspondence check + big-integer oracle",
    ),
    "C07": dict(
        category="proof",
        text=("Lean theorems (Edn.Properties.C07): on well-formed values (duplicate-free sets/maps, which the reader establishes) structural "
              "equality Eqv is reflexive, symmetric and transitive; Eqv implies equal hashes; for every state of the cache cells in which "
              "each non-empty cell holds that value's hash, the library's edn_value_equal (with its cached-hash short circuit and depth cap) "
              "answers exactly Eqv for all values within the reader's nesting limit; edn_value_hash preserves cache validity. Proved by "
              "induction on the recursion fuel for values of any size. Tied to the code by operation scripts (read/hash/equal/lookup/"
              "string-get on values and sub-values, all histories of up to 3 (4 thorough) preceding calls on selected pairs, nesting to 99) "
              "run through library and model; the oracle knows which generated values are equal and checks symmetry, transitivity over "
              "triples, equal=>same hash and identical answers before/after every history on the real library."),
        design_ref="DESIGN.md section 6, C07",
        note=NOTE_COMMON + " Pointer identity (a == b) and user-supplied external-type callbacks are not modelled.",
        technique="Lean 4 proof (induction on depth fuel, permutation matching for sets/maps) + correspondence check + algebraic oracle",
    ),
    "C08": dict(
        category="proof",
        text=("Lean theorems (Edn.Properties.C08): for every element count (hence each internal strategy and any threshold values) "
              "edn_has_duplicates answers `no duplicates` iff the elements are pairwise non-equal, the verdict is invariant under "
              "permutation, and the elements come back unchanged up to valid cache cells. Tied to the code by set and map literals of "
              "2..1002 (1600 thorough) elements with a planted equal pair of every kind (scalars, escaped/raw strings, composites, "
              "list/vector twins, +0.0/-0.0, NaN, ratios, text blocks) at first/last/adjacent/middle positions, near-miss pairs that must be "
              "accepted, and permutations, through reader and model."),
        design_ref="DESIGN.md section 6, C08",
        note=NOTE_COMMON + " qsort is assumed to return a permutation; calloc/malloc failure fall-backs are not modelled.",
        technique="Lean 4 proof (hash congruence + pairwise characterisation) + correspondence check + planted-duplicate oracle",
    ),
    "C09": dict(
        category="proof",
        text=("Lean theorems (Edn.Properties.C09): in a well-formed map, looking up any value equal to key i returns value i and a value equal "
              "to no key returns not-found, for every valid cache state; set membership likewise; the temporary keys built by the keyword / "
              "namespaced-keyword / string-key helpers are legal probes, so the helpers are instances of the general lookup. Tied to the "
              "code by lookup scripts on maps and sets of 0..120 (1500 thorough) entries with keys of every kind, every index (sampled above 60), "
              "absent probes differing in one leaf, helper lookups incl. escaped spellings, before and after hashing the container."),
        design_ref="DESIGN.md section 6, C09",
        note=NOTE_COMMON,
        technique="Lean 4 proof (corollaries of the equality theorems) + correspondence check + iteration oracle",
    ),
}


def main():
    props = [json.loads(l)["id"] for l in open(os.path.join(C.VERIF, "properties.jsonl"))]
    checks = []
    for pid in props:
        if pid in CHECKS and os.path.exists(os.path.join(C.VERIF, "vlib", "props", pid.lower() + ".py")):
            c = CHECKS[pid]
            checks.append({
                "property_id": pid,
                "quick_cmd": "./check %s --tier quick" % pid,
                "thorough_cmd": "./check %s --tier thorough" % pid,
                "evidence_file": "evidence/%s.json" % pid,
                "replay_cmd_template": "./check %s --replay {path}" % pid,
                "engine": "lean-proofs+correspondence",
                "level_claimed": {"category": c["category"], "text": c["text"], "design_ref": c["design_ref"]},
                "level_note": c["note"],
                "technique": c["technique"],
            })
    claimed = set(c["property_id"] for c in checks)
    m = {
        "version": 1,
        "setup_cmd": "./check --setup",
        "hooks": {"guard": "EDN_VERIF_HOOKS",
                  "enable": "no source hooks are needed: the harness #includes the repository's .c files (unity build) and wraps malloc/calloc/realloc/free/edn_arena_alloc at link time",
                  "baseline_off_cmd": "./check --baseline", "source_commits": [], "add_only": True},
        "engines": [
            {"name": "lean-proofs", "path": "lean/", "serves_properties": sorted(claimed), "kind_free_text": "Lean 4 model, specification and theorems; lake build + #print axioms audit"},
            {"name": "correspondence", "path": "harness/edn_harness.c + lean/Main.lean", "serves_properties": sorted(claimed), "kind_free_text": "line-protocol differential run of the real library against the compiled model driver"},
            {"name": "extractor", "path": "harness/extract.c + vlib/gen_tables.py", "serves_properties": sorted(claimed), "kind_free_text": "compile-and-dump regeneration of lean/Edn/Generated/Tables.lean from /repo"},
            {"name": "impl-oracles", "path": "vlib/props/", "serves_properties": sorted(claimed), "kind_free_text": "per-property oracles on the real library that produce concrete failing inputs"},
        ],
        "checks": checks,
        "not_applicable": [{"property_id": p, "reason": "check not built yet (work in progress; every property is planned, see DESIGN.md section 6)"}
                           for p in props if p not in claimed],
        "notes": "Machine-checked proof in Lean 4 over a hand-written executable model; see DESIGN.md. Repaired defects are listed in known_findings.json.",
    }
    json.dump(m, open(os.path.join(C.VERIF, "MANIFEST.json"), "w"), indent=1)
    print("MANIFEST: %d checks, %d not yet claimed" % (len(checks), len(props) - len(checks)))


if __name__ == "__main__":
    main()
