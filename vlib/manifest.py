"""Regenerates MANIFEST.json from the table below (run: python3 -m vlib.manifest)."""
import json
import os

from . import common as C

NOTE_COMMON = ("Trusted: Lean 4.33.0 kernel (axioms propext, Classical.choice, Quot.sound only; audited every run); "
               "the hand-written model of the C code is tied to /repo by tables regenerated from the working tree and by the "
               "correspondence run (exhaustive on the finite domains listed in the evidence, sampled elsewhere); "
               "harness, extractor, generators and diff are trusted code; NEON/WASM/MSVC branches are not modelled.")

CHECKS = {
    "C12": dict(
        category="proof",
        text=("Lean theorems (Edn.Properties.C12) prove, for inputs of every length, that the block (SSE) form of each "
              "scanner of the model equals its byte-at-a-time specification, that the lane predicates and tables "
              "extracted from the current source agree, and that leading blanks do not change what the reader returns. "
              "The model is tied to the code on every run: 16 lanes x 256 byte values, lengths 0..50 (96 thorough) x special-byte "
              "positions for the five scanner entry points in the sanitised and the -O2 build, against the model and an "
              "independent scalar reference; whole reads with 1..47 leading blanks and with varied bytes after `length`."),
        design_ref="DESIGN.md section 6, C12",
        note=NOTE_COMMON + " SSE lane operations are assumed to be lane-wise as the ISA defines them.",
        technique="Lean 4 proof (induction over 16-byte blocks, decide +kernel over 256 byte values) + correspondence check + scalar oracle",
    ),
}


def main():
    props = [json.loads(l)["id"] for l in open(os.path.join(C.VERIF, "properties.jsonl"))]
    checks = []
    for pid in props:
        if pid in CHECKS and os.path.exists(os.path.join(C.VERIF, "vlib", "props", pid.lower() + ".py")):
            c = CHECKS[pid]
            checks.append({
                "property_id": pid,
                "quick_cmd": "./check %s --tier quick" % pid,
                "thorough_cmd": "./check %s --tier thorough" % pid,
                "evidence_file": "evidence/%s.json" % pid,
                "replay_cmd_template": "./check %s --replay {path}" % pid,
                "engine": "lean-proofs+correspondence",
                "level_claimed": {"category": c["category"], "text": c["text"], "design_ref": c["design_ref"]},
                "level_note": c["note"],
                "technique": c["technique"],
            })
    claimed = set(c["property_id"] for c in checks)
    m = {
        "version": 1,
        "setup_cmd": "./check --setup",
        "hooks": {"guard": "EDN_VERIF_HOOKS",
                  "enable": "no source hooks are needed: the harness #includes the repository's .c files (unity build) and wraps malloc/calloc/realloc/free/edn_arena_alloc at link time",
                  "baseline_off_cmd": "./check --baseline", "source_commits": [], "add_only": True},
        "engines": [
            {"name": "lean-proofs", "path": "lean/", "serves_properties": sorted(claimed), "kind_free_text": "Lean 4 model, specification and theorems; lake build + #print axioms audit"},
            {"name": "correspondence", "path": "harness/edn_harness.c + lean/Main.lean", "serves_properties": sorted(claimed), "kind_free_text": "line-protocol differential run of the real library against the compiled model driver"},
            {"name": "extractor", "path": "harness/extract.c + vlib/gen_tables.py", "serves_properties": sorted(claimed), "kind_free_text": "compile-and-dump regeneration of lean/Edn/Generated/Tables.lean from /repo"},
            {"name": "impl-oracles", "path": "vlib/props/", "serves_properties": sorted(claimed), "kind_free_text": "per-property oracles on the real library that produce concrete failing inputs"},
        ],
        "checks": checks,
        "not_applicable": [{"property_id": p, "reason": "check not built yet (work in progress; every property is planned, see DESIGN.md section 6)"}
                           for p in props if p not in claimed],
        "notes": "Machine-checked proof in Lean 4 over a hand-written executable model; see DESIGN.md. Repaired defects are listed in known_findings.json.",
    }
    json.dump(m, open(os.path.join(C.VERIF, "MANIFEST.json"), "w"), indent=1)
    print("MANIFEST: %d checks, %d not yet claimed" % (len(checks), len(props) - len(checks)))


if __name__ == "__main__":
    main()
