"""Regenerates MANIFEST.json from the table below (run: python3 -m vlib.manifest)."""
import json
import os

from . import common as C

NOTE_COMMON = ("Trusted: Lean 4.33.0 kernel (axioms propext, Classical.choice, Quot.sound only; audited every run); "
               "the hand-written model of the C code is tied to /repo by tables regenerated from the working tree and by the "
               "correspondence run (exhaustive on the finite domains listed in the evidence, sampled elsewhere); "
               "harness, extractor, generators and diff are trusted code; NEON/WASM/MSVC branches are not modelled.")

CHECKS = {
    "C12": dict(
        category="proof",
        text=("Lean theorems (Edn.Properties.C12) prove, for inputs of every length, that the block (SSE) form of each "
              "scanner of the model equals its byte-at-a-time specification, that the lane predicates and tables "
              "extracted from the current source agree, that the vectorised text-block line scanner (indentation and content pre-scans) equals the scalar line reader, and that leading blanks do not change what the reader returns. "
              "The model is tied to the code on every run: 16 lanes x 256 byte values, lengths 0..50 (96 thorough) x special-byte "
              "positions for the five scanner entry points in the sanitised and the -O2 build, against the model and an "
              "independent scalar reference; whole reads with 1..47 leading blanks and with varied bytes after `length`."),
        design_ref="DESIGN.md section 6, C12",
        note=NOTE_COMMON + " SSE lane operations are assumed to be lane-wise as the ISA defines them.",
        technique="Lean 4 proof (induction over 16-byte blocks, decide +kernel over 256 byte values) + correspondence check + scalar oracle",
    ),
    "C04": dict(
        category="proof",
        text=("Lean theorems (Edn.Properties.C04) prove for every input: the SWAR test accepts exactly the 8-byte blocks of ASCII digits "
              "and the multiply-shift cascade returns their decimal value (all 10^8 blocks at once); parse_int64_from_buffer returns "
              "`some n` exactly when the value of the digit string (any length, radix 2..36, either sign, underscores with the "
              "experimental flag) lies in the signed 64-bit range and n is that value; ratio_gcd equals the mathematical gcd for all "
              "int64 operands including INT64_MIN; at reader level edn_read_number consumes exactly a big-decimal / hex / octal / NrD radix / ratio token "
              "followed by a terminator and returns the payload its class denotes (ratios in lowest terms, integer when the denominator divides, big forms "
              "only when an operand does not fit); the number reader accepts exactly the declarative token grammar of its configuration (CoreNum, CljNum, ExpNum: *_number_reader_is_the_grammar) and "
              "removing `_` separators never changes the value (separators_do_not_change_the_value). Tied to the code by direct calls of the static helpers (2^63 neighbourhood for every "
              "radix, 1..40 digits, 20k/1M random 8-digit blocks, every non-digit byte in every lane, gcd operands) and by whole literals "
              "(decimal, N/M suffixes, radix/hex/octal, ratios, underscores) through reader and model, with Python big integers and "
              "Fraction as the oracle."),
        design_ref="DESIGN.md section 6, C04",
        note=NOTE_COMMON + " Reader-level theorems cover decimal integers (C03), big decimals, and with the Clojure flag hex, octal, radix and ratio tokens (reads_hex ... reads_ratio); underscore spellings of the experimental flag are covered by exp_number_reader_is_the_grammar (experimental only) and clj_number_reader_is_the_grammar (both flags).",
        technique="Lean 4 proof (lane-wise SWAR arithmetic, loop invariants, Stein gcd) + correspondence check + big-integer oracle",
    ),
    "C07": dict(
        category="proof",
        text=("Lean theorems (Edn.Properties.C07): on well-formed values (duplicate-free sets/maps, which the reader establishes) structural "
              "equality Eqv is reflexive, symmetric and transitive; Eqv implies equal hashes; for every state of the cache cells in which "
              "each non-empty cell holds that value's hash, the library's edn_value_equal (with its cached-hash short circuit and depth cap) "
              "answers exactly Eqv for all values within the reader's nesting limit; edn_value_hash preserves cache validity. Proved by "
              "induction on the recursion fuel for values of any size. Tied to the code by operation scripts (read/hash/equal/lookup/"
              "string-get on values and sub-values, all histories of up to 3 (4 thorough) preceding calls on selected pairs, nesting to 99) "
              "run through library and model; the oracle knows which generated values are equal and checks symmetry, transitivity over "
              "triples, equal=>same hash and identical answers before/after every history on the real library."),
        design_ref="DESIGN.md section 6, C07",
        note=NOTE_COMMON + " Pointer identity (a == b) and user-supplied external-type callbacks are not modelled.",
        technique="Lean 4 proof (induction on depth fuel, permutation matching for sets/maps) + correspondence check + algebraic oracle",
    ),
    "C08": dict(
        category="proof",
        text=("Lean theorems (Edn.Properties.C08): for every element count (hence each internal strategy and any threshold values) "
              "edn_has_duplicates answers `no duplicates` iff the elements are pairwise non-equal, the verdict is invariant under "
              "permutation, and the elements come back unchanged up to valid cache cells. Tied to the code by set and map literals of "
              "2..1002 (1600 thorough) elements with a planted equal pair of every kind (scalars, escaped/raw strings, composites, "
              "list/vector twins, +0.0/-0.0, NaN, ratios, text blocks) at first/last/adjacent/middle positions, near-miss pairs that must be "
              "accepted, and permutations, through reader and model."),
        design_ref="DESIGN.md section 6, C08",
        note=NOTE_COMMON + " qsort is assumed to return a permutation; calloc/malloc failure fall-backs are not modelled.",
        technique="Lean 4 proof (hash congruence + pairwise characterisation) + correspondence check + planted-duplicate oracle",
    ),
    "C09": dict(
        category="proof",
        text=("Lean theorems (Edn.Properties.C09): in a well-formed map, looking up any value equal to key i returns value i and a value equal "
              "to no key returns not-found, for every valid cache state; set membership likewise; the temporary keys built by the keyword / "
              "namespaced-keyword / string-key helpers are legal probes, so the helpers are instances of the general lookup. Tied to the "
              "code by lookup scripts on maps and sets of 0..120 (1500 thorough) entries with keys of every kind, every index (sampled above 60), "
              "absent probes differing in one leaf, helper lookups incl. escaped spellings, before and after hashing the container."),
        design_ref="DESIGN.md section 6, C09",
        note=NOTE_COMMON,
        technique="Lean 4 proof (corollaries of the equality theorems) + correspondence check + iteration oracle",
    ),
    "C06": dict(
        category="proof",
        text=("Lean theorems (Edn.Properties.C06) over an inductive specification of literal content (plain bytes and the escapes of the "
              "build's escape set, with the bytes they denote): the scan stops exactly at the closing quote of any spelled content and "
              "reports an escape exactly when the content has a backslash; reading the literal and fetching it returns exactly the denoted "
              "bytes (so the length is exact with embedded NUL); content without escapes is returned as is; an undefined escape is an "
              "access-time error; edn_string_equals agrees with the returned bytes. In the model a string is the byte list the accessor "
              "returns, so stability and exact length hold by construction there; the correspondence run checks the real accessor: all literals "
              "of length <=5 (6 thorough) over 9 byte classes, lengths to 300 with quote/backslash/escape at every offset, random escape mixes "
              "per configuration, each string fetched twice (same pointer, same length, NUL after the end) and get/get/equals in all orders, "
              "against a Python decoder."),
        design_ref="DESIGN.md section 6, C06",
        note=NOTE_COMMON + " Pointer identity of repeated edn_string_get calls is only observable on the real code (checked by the harness).",
        technique="Lean 4 proof (induction over the content derivation) + correspondence check + reference decoder",
    ),
    "C11": dict(
        category="proof",
        text=("Lean theorems (Edn.Properties.C11) for every input, configuration and option set without handler registry: every range "
              "in the returned tree is non-empty and inside the input, a parent's range encloses its children's, siblings (map keys and "
              "values in reading order) do not overlap and appear in source order, metadata lies inside its target, a value spans exactly "
              "the bytes consumed for it (six-fold induction over the reader); values the reader synthesises (rewritten namespaced-map keys, "
              "merged metadata maps, implicit `true`) carry the range (0,0) and are exempt; every error range satisfies 0<=start<=end<=length; "
              "the line-feed index is complete and strictly ascending, binary_search_line finds the last line feed before an offset, and "
              "line/column equal 1 + number of line feeds before the offset and 1 + distance from the byte after the last of them. "
              "Tied to the code by the correspondence run (every range and error position compared) over generated, extension-syntax, "
              "corrupted and multi-line documents; the oracle re-checks enclosure/order/disjointness on the real tree and re-reads every "
              "sub-value's byte range on the real library; re-reading is also a theorem: the bytes of any ranged sub-value, read on their own, "
              "return that sub-value again (continuation independence + depth monotonicity + hereditary re-readability by induction on fuel)."),
        design_ref="DESIGN.md section 6, C11",
        note=NOTE_COMMON + " Handler-returned values are outside the theorem (a handler may return anything); their ranges are overwritten by the reader and checked by the oracle.",
        technique="Lean 4 proof (six-fold induction on reader fuel with accumulator invariants; binary-search invariant) + correspondence check + range/re-read oracle",
    ),
    "C14": dict(
        category="proof",
        text=("Lean theorems (Edn.Properties.C14): for every sequence of register / re-register / unregister calls the 16-bucket chained reader "
              "registry and the external-type list answer lookups exactly like the abstract map `most recent registration or none`; the "
              "reader's step for a tagged element is characterised (no registry or discard mode: generic tagged value and no handler call; "
              "registered: exactly one call appended after the inner value's calls, handler failure is the result; unregistered: the selected "
              "default). Whole documents (configurations without the Clojure flag): reading with a registry of well-behaved handlers "
              "equals the declarative dispatch (Edn.Spec.dispatchV: handlers bottom-up in source order, one logged call each with the operand's range, "
              "never inside discards, modes keep / unwrap / reject) applied to the tree the same input reads to without a registry - same value up to "
              "cache cells, same call log, or the same error code and range with the calls made until then (handler failure, unknown tag in error mode, "
              "results colliding in a set or as map keys); proved as a simulation between the two runs by induction on fuel. For every configuration incl. the Clojure flag "
              "(where the registry-free tree is proved insufficient: namespaced-map keys are qualified after their handler ran) one syntax tree of the input determines the result of reading under "
              "every option set - value, call log, or error code, range and calls so far - with no hypothesis on the handlers (reading_is_determined_by_syntax_tree). Tied to the code by all operation sequences up to length 4 (5 thorough) over 4 tags including a bucket-colliding "
              "pair x 2 handlers on both tables, and by generated tagged documents under 3 default modes x {registry, none}, with discards, "
              "checked against an independent Python re-implementation of dispatch on the passthrough tree (call log in post-order)."),
        design_ref="DESIGN.md section 6, C14",
        note=NOTE_COMMON + " Handlers are fixed mirrored functions in harness and driver; the theorems are parametric in the handler functions.",
        technique="Lean 4 proof (refinement to an abstract map, chain invariants) + correspondence check + dispatch oracle",
    ),
    "C15": dict(
        category="proof",
        text=("Lean theorems (Edn.Properties.C15), by induction over arbitrary request sequences and for every behaviour of malloc: every region "
              "edn_arena_alloc returns is 8-aligned, at least the requested size, inside its block and disjoint from all others; earlier "
              "blocks are never moved or shrunk; refused requests (incl. sizes whose rounding would wrap) change nothing. Tied to the code by "
              "request sequences over the size classes 0,1,7,8,9, block edges, 2^20, SIZE_MAX-k (all pairs / triples, random long runs) "
              "against the model and a geometric oracle. The reader half is proved over the allocation-aware reader model Edn.Model.ReaderA (every edn_arena_alloc / malloc / calloc / realloc / free / "
              "arena create and destroy the library makes while reading, in order, under an arbitrary fault oracle): for EVERY oracle each reader function returns with the raw heap blocks it was called with, the event "
              "trace of a whole read is well-formed (a free follows a granted request of that block, once, never after a realloc took it away; each arena destroyed once) and ends with no live raw block; the "
              "temporary arena is gone at return; the parser's arena is alive exactly when a value is returned and destroyed or never created otherwise; accessors make arena requests only. "
              "That model is tied to the code by the H stream: for every document of the fault corpus and every request index k (alone / from k on) harness and model must print the same outcome AND the same event trace. "
              "What the model cannot exhibit (that free really releases, that handed-out pointers stay mapped and unchanged, registry destroyed before values) is monitored by the "
              "allocation ledger (--wrap), ASan and LeakSanitizer over accepted, rejected, extension and large-collection documents."),
        design_ref="DESIGN.md section 6, C15",
        note=NOTE_COMMON + " malloc is assumed to return disjoint, 8-aligned blocks or NULL. The ledger theorems are about the model's event trace; that the C code produces that trace is what the H correspondence observes (every fault point of the corpus), not a theorem (partial).",
        technique="Lean 4 proof (allocator invariant by induction over requests; ledger invariant by induction on reader fuel over the allocation-aware model, for every fault oracle) + trace correspondence + allocation ledger / LeakSanitizer",
    ),
    "C02": dict(
        category="proof",
        text=("Lean theorems (Edn.Properties.C02): for every input, configuration and option set the reader returns (the recursion fuel "
              "4*length+8 is never exhausted; results do not depend on the fuel once sufficient); every successfully read form consumes at "
              "least one byte; at the nesting limit read from the source the reader does not descend into any collection, tag, discard or "
              "metadata form, so recursion depth is bounded independently of the input; ratio_gcd terminates with the mathematical gcd for "
              "all int64 operands incl. INT64_MIN; a fault-free read of an n-byte document whose string literals decode makes at most 5n + n/64 + 9 allocation requests (over the allocation-aware model; the request count is "
              "compared with the code by the H stream of C16; without the hypothesis the count grows like n^1.9 on a family the proof attempt produced - recorded in DESIGN.md). Real stack and time are monitored, not proved: nesting families (each opener, #tag, #_, ^x, "
              "namespaced maps, mixed, discard runs, comment runs, closers) at depths 1..3*10^5 (10^6 thorough) run in the -O2, -O0 and sanitised "
              "builds under a 1 MiB stack and a CPU limit; generated and corrupted documents under the same limits; wall time on widening "
              "families must grow at most quadratically."),
        design_ref="DESIGN.md section 6, C02",
        note=NOTE_COMMON + " Partial: real stack frames and real time are only measured; the cost model (step counts) is not a theorem.",
        technique="Lean 4 proof (progress, fuel monotonicity/sufficiency by induction on fuel; Stein gcd termination) + resource-limited runs",
    ),
    "C03": dict(
        category="proof",
        text=("Lean theorem (Edn.Properties.C03): an inductive relation Renders (Edn.Spec.Renders) says which byte strings spell which values "
              "of the data model - nil, booleans, decimal integers (int64 range -> int, beyond or N suffix -> big integer keeping sign and digits), floats (the double nearest to the "
              "token's exact decimal value), big decimals, "
              "strings with every escape of the build, characters (named, \\uXXXX, printable), keywords, symbols, lists, vectors, sets and maps with "
              "pairwise distinct elements/keys, tagged elements, any mix of the 11 whitespace bytes, commas, comments and discarded forms between "
              "forms - and for every derivation within the nesting limit edn_read accepts the bytes, consumes exactly them and returns a tree "
              "with exactly that content (kinds, payloads, order, counts, tag bytes), at every depth and in discard mode too. The accepted language exactly, in all four configurations "
              "(reader_accepts_exactly_the_grammar and its instances): edn_read returns a tree with content a (metadata included) iff the input starts with a form of the declarative grammar "
              "Edn.Spec.FormX cfg denoting a within the nesting limit - metadata chains with the merge stated on contents, namespaced maps with keys qualified before the duplicate check, Clojure number tokens, "
              "text blocks, separators; soundness by induction on fuel, completeness by recursion over derivations. Tied to the code by the correspondence run; a grammar sampler derived from docs/edn.ebnf and the "
              "value generator feed accepted documents whose expected tree is known; the 11 listed grammar-vs-reader differences are known findings."),
        design_ref="DESIGN.md section 6, C03",
        note=NOTE_COMMON + " Renders is my reading of the EDN specification; FormX (GrammarX.lean) is the liberal grammar of what the reader accepts in each configuration, extension syntax included.",
        technique="Lean 4 proof (mutual structural induction over rendering derivations; token lemmas per kind) + correspondence check + grammar sampler / expected-tree oracle",
    ),
    "C10": dict(
        category="proof",
        text=("Lean theorems (Edn.Properties.C10): for every input edn_read returns exactly one of value / caller's end-of-input value / error, "
              "and an error's code is never OK (six-fold induction); string, character, identifier/symbolic and number tokens fail with their own class; "
              "one-step characterisations give the class and range of each structural defect: stray closer (UNMATCHED_DELIMITER), wrong closer, "
              "input ending inside a sequence or map (UNTERMINATED_COLLECTION from the opener to the end), odd map (INVALID_SYNTAX), discard or tag "
              "without operand (INVALID_DISCARD / INVALID_SYNTAX / UNEXPECTED_EOF). Document level (core configuration): a well-formed open context followed by a defect is rejected with that defect's "
              "class and range (first_defect_decides): end of input exactly for top-level trivia, the innermost unterminated collection, stray / mismatched closers, odd map, orphan tag / discard, bad tokens, "
              "unterminated strings; no prefix in the grammar => never a value. Tied to the code by all strings of length <=4 (5 thorough) over a "
              "24-symbol structural alphabet in two option modes (value-xor-error checked on the real result structure) and by corruptions of "
              "generated documents whose class is predicted from the dump (truncation inside collection/string, wrong/stray/missing closer, odd map, "
              "orphan discard/tag/metadata marker, bad token); the value-xor-error invariant on every fault point (every request failed alone / from there on) of a short corpus per configuration; "
              "90k extension number tokens (separator / hex / octal / radix / ratio pieces in every combination) whose expected verdict is the proven number grammar of the configuration."),
        design_ref="DESIGN.md section 6, C10",
        note=NOTE_COMMON + " Error message texts are compared by the C17 check, not modelled.",
        technique="Lean 4 proof (induction on reader fuel; one-step unfoldings) + correspondence check + predicted-error-class oracle",
    ),
    "C13": dict(
        category="proof",
        text=("Lean theorems (Edn.Properties.C13): any run of whitespace bytes, commas and closed comments in front of a form leaves the result of "
              "edn_read_value unchanged (value, end-relative ranges, remaining input, handler calls); a discarded form in front of a form is skipped "
              "and reading continues with the same call log; in discard mode no reader function ever appends to the call log (no handler runs); "
              "trivia-only input reads as end of input (error at the end, or exactly the caller's end-of-input value), and in every configuration the top-level end-of-input outcome occurs iff the input is top-level trivia (blanks, comments, complete discarded forms of the configuration's grammar). Tied to the code by pairs of "
              "plain and trivia-decorated renderings of generated values (every trivia kind at every gap, nested discards, tags with handlers), "
              "discarded tagged forms with failing handlers, and trivia-only documents, through library and model."),
        design_ref="DESIGN.md section 6, C13",
        note=NOTE_COMMON,
        technique="Lean 4 proof (scanner lemmas, induction on reader fuel) + correspondence check + metamorphic trivia oracle",
    ),
    "C18": dict(
        category="proof",
        text=("Lean theorems (Edn.Properties.C18): if the core configuration accepts a document that contains none of the byte patterns an "
              "extension re-interprets (`^`, the text-block opener, backslash+FF/BS, an extension string escape inside a discarded form) and every "
              "string of the result decodes with the core escapes, then every flag combination returns the same tree - kinds, payloads, children, "
              "ranges, remaining input, call log - up to cache cells (simulation by induction on reader fuel, for every form at every depth); "
              "numbers the core accepts are read identically everywhere; strings decodable by the core decode to the same bytes everywhere. All "
              "other extension spellings are rejected by the core, so they fall under `the core accepts`. Tied to the code by reading core-generator "
              "documents, corruptions, byte contexts and all strings of length <=3 (4 thorough) over a 28-symbol alphabet containing every reserved "
              "spelling in the four builds and the model in four configurations; dumps must agree whenever the theorem's hypotheses hold and any "
              "difference must be attributable to a reserved spelling."),
        design_ref="DESIGN.md section 6, C18",
        note=NOTE_COMMON + " The attribution of differences on rejected documents to reserved spellings is an oracle check (over-approximating detector), not a theorem.",
        technique="Lean 4 proof (simulation between configurations by induction on fuel) + correspondence check in 4 builds + cross-configuration oracle",
    ),
    "C19": dict(
        category="proof",
        text=("Lean theorems (Edn.Properties.C19): `#:p{body}` and `{body}` run the same entry loop - same error before the closing brace, "
              "otherwise same values, and the namespaced map holds the plain map's keys passed through the key rewriting (unqualified keyword/symbol "
              "-> p/name, `_`-qualified -> unqualified, others kept) with the duplicate verdict taken after rewriting; the prefix must be an unqualified "
              "keyword followed by optional blanks and `{`; the five annotation forms expand as documented; merging a further outer annotation keeps "
              "keys pairwise distinct and a lookup yields the outer value when it has the key, else the inner one; attaching metadata leaves hash, "
              "depth and equality of the target unchanged; metadata is accepted exactly on collections, symbols and tagged values; a marker without "
              "annotation or target, or with an annotation of another kind, is INVALID_SYNTAX. Tied to the code by scripts in both Clojure-flag "
              "configurations: generated namespaced literals with mixed key kinds and planted post-qualification collisions against their explicit "
              "expansion (equal, same hash, same dump, or both DUPLICATE_KEY); metadata chains of length 1..6 over the five forms with overlapping keys "
              "on every target kind at nine nesting positions against the independently computed merge; scalar targets, wrong annotation kinds, "
              "markers before closing delimiters and malformed prefixes must be rejected."),
        design_ref="DESIGN.md section 6, C19",
        note=NOTE_COMMON,
        technique="Lean 4 proof (loop factorisation by induction on fuel, merge lemmas over the equality theorems) + correspondence check + desugaring oracle",
    ),
    "C20": dict(
        category="proof",
        text=("Lean theorems (Edn.Properties.C20): the documented algorithm is a function of a block's source lines (indent, body) and closer position "
              "(Edn.Spec.blockText: common indentation = minimum over lines with a body and the closing-delimiter line, trailing blanks stripped, relative "
              "indentation and blank lines kept, escaped triple quote unescaped, final line feed iff the closer is on its own line); for every well-formed "
              "block - any number of lines, any space/tab indentation incl. 0 on the first line, any number of escapes - the reader with the experimental "
              "flag returns a string value holding exactly those bytes (exact length, no pending escapes), spanning the literal and leaving the rest "
              "untouched; such a value is Eqv to and hashes like the ordinary literal of the same content; conversely the text-block reader returns a value only for a well-formed block, "
              "consumed exactly, with a unique decomposition into lines / closer / rest, and everything else is INVALID_STRING (block_reader_is_the_grammar, ill_formed_block_is_rejected). Tied to the code by an independent Python "
              "implementation of the algorithm over source lines: all 0..2-line blocks (3 lines sampled in thorough) over 5 indentations x 9 bodies x 6 closers, "
              "random blocks to 12 lines / indentation 20 / lines crossing 16-byte blocks; exact length and bytes, equality and hash against the ordinary "
              "literal, collision in a set and as map keys, truncated blocks; model and library compared on every case."),
        design_ref="DESIGN.md section 6, C20",
        note=NOTE_COMMON,
        technique="Lean 4 proof (scanner inversion by induction over body derivations and lines) + correspondence check + reference implementation of the algorithm",
    ),
    "C01": dict(
        category="proof",
        text=("Lean theorems (Edn.Properties.C01): every fixed-width accumulator of the number reader stays in range for every input (float mantissa "
              "< 10^18, exponent <= 10009, radix prefix <= 369, the uint64 accumulator never exceeds its bound in the SWAR and both scalar tiers), the "
              "integer parser's result fits int64 so conversion and negation incl. -2^63 are defined; every range stored in a returned tree lies inside "
              "the input. The model reads its input only through total list operations on the given bytes, so it cannot depend on memory outside "
              "input[0,length) - by construction. That the C code does not either is monitored, not proved: generated, extension, truncated-at-every-offset, "
              "mutated, NUL/invalid-UTF-8 and byte-context documents in the four configurations run in the ASan+UBSan -O1 build and the clang MemorySanitizer build (input in an exact-size heap "
              "block) and in the -O2 -msse4.2 build with the last byte flush against a PROT_NONE page, read-only input pages and every start phase mod 16, "
              "followed by hash/equal/lookup/accessor scripts on the tree; all outputs must equal the model's."),
        design_ref="DESIGN.md section 6, C01",
        note=NOTE_COMMON + " Partial: memory safety and absence of UB of the compiled C code are run-time observations on the explored inputs (sanitizers, guard pages); the theorems cover the arithmetic ranges and the slices.",
        technique="Lean 4 proof (range invariants of accumulators; range theorem) + correspondence check under ASan/UBSan and guard-page placement",
    ),
    "C16": dict(
        category="proof",
        text=("Lean theorems (Edn.Properties.C16) over the allocation-aware reader model Edn.Model.ReaderA - every logical allocation request the library makes while reading (each edn_arena_alloc call, each "
              "direct malloc / calloc / realloc, the mallocs of edn_arena_create), in the order the C code makes it, answered by an arbitrary fault oracle, with the code's reaction to each refusal - for EVERY oracle (every single "
              "failure, every from-k-on failure, every other schedule): with no refused request the allocation-aware reader is exactly the reader of the other properties (refinement); under any schedule a returned value is the "
              "fault-free value up to hash-cache cells with the same handler-call log, the end-of-input value appears only where the fault-free read gives it, and everything else is an error - never a different or partial tree; "
              "an accessor materialising a lazy payload returns the complete payload or NULL. The first proof attempt failed with two counterexamples that were genuine defects of the code (a refused lazy decode inside the duplicate check made "
              "equality compare raw text: a set of two equal strings was returned) - repaired by fix: commits, after which the theorem holds unconditionally. Also, as before, for every schedule: the collection builder ends in a failed add, NULL, or a "
              "heap array holding exactly the elements added - never its in-frame storage; the duplicate verdict is independent of which scratch allocations fail. The model is tied to the code by the H stream: for every "
              "document of the fault corpus (every reader, growth path, lazy materialisation and error path; four configurations) and every request index k, alone and from k on (all k for documents up to 5 kB, sampled above), harness and "
              "model print the same outcome, request count, live-block count, arena state and event trace; traces are also replayed against an independent ledger. Monitoring for what the model cannot exhibit (the compiled code returns normally, "
              "touches no dead stack or freed memory, leaks nothing): every raw allocation call of every corpus document failed alone and from there on under ASan with stack-use-after-return detection and a live-block ledger."),
        design_ref="DESIGN.md section 6, C16",
        note=NOTE_COMMON + " Partial: that the C code makes exactly the requests of the model and reacts as the model says is observed by the H correspondence on the enumerated (document, k, mode) triples, not proved; tag handlers must not inspect hash-cache cells (hypothesis of the fault theorem, shown necessary).",
        technique="Lean 4 proof (simulation between the allocation-aware and the plain reader by induction on fuel, for every fault oracle; builder / duplicate-strategy invariants) + event-trace correspondence on every fault point + fault enumeration under ASan",
    ),
    "C17": dict(
        category="proof",
        text=("Lean theorems (Edn.Properties.C17): the model is a function of configuration, options and bytes (no history, addresses, heap or threads "
              "exist in it; the input is an immutable value), and its answer is independent of every artefact it abstracts: the recursion budget, the order "
              "in which the duplicate check examines elements (qsort/address order in C), which scratch allocations succeed, the state of the hash caches, "
              "what follows a form in the buffer and which blanks precede it. That the compiled code computes this one function whatever the compiler, heap "
              "and schedule is monitoring, not proof: generated, mutated, truncated and extension documents (incl. sets/maps of composites in the sorted-"
              "strategy range) are read with message texts by gcc -O0/-O2/-O3, clang -O2, ASan+UBSan and MemorySanitizer builds (identical results, equal to the model; no use of uninitialised memory); again "
              "in shuffled order interleaved with unrelated reads under two MALLOC_PERTURB_ fill patterns and from read-only guard-page mappings (identical to "
              "the first read); by 2, 4, 8 and 16 threads sharing input buffers and a read-only registry under ThreadSanitizer and -O2 (every dump equals "
              "the single-threaded one, no race); nm audit: no writable global in the library objects besides the external-type table."),
        design_ref="DESIGN.md section 6, C17",
        note=NOTE_COMMON + " Partial: compiler, allocator and scheduler behaviour cannot be exhibited by the model; determinism across them is observed on the explored documents, builds and schedules only.",
        technique="Lean 4 proof (independence lemmas over the functional model) + correspondence check across 5 builds + history/heap-pattern/thread monitoring (TSan)",
    ),
    "C05": dict(
        category="proof",
        text=("Lean theorems (Edn.Properties.C05), with round-to-nearest-even defined in exact natural-number arithmetic: every entry of the "
              "power-of-ten table extracted from the compiled source is exactly 10^k; rounding depends only on the value n/d; the fast path "
              "(mantissa <= 2^53-1, |exponent| <= 22) returns the double nearest to mant*10^e with a single rounding for multiplication and "
              "division alike; the clamp used for astronomically large exponents changes no result; at reader level a float token followed by a terminator is consumed exactly and read as rne of its decimal value in every configuration. The slow path is strtod, assumed correctly "
              "rounded. Tied to the code by bit patterns from parse_double_from_buffer and whole reads: every (1..19 digits) x (exponent -26..26) "
              "cell with and without a decimal point, exact half-way cases, subnormal/overflow thresholds, shortest round-trip renderings of "
              "random doubles, literals of 20..2000 significant characters, random shapes - against Python's correctly rounded float()."),
        design_ref="DESIGN.md section 6, C05",
        note=NOTE_COMMON + " Assumed: IEEE-754 single rounding of cvtsi2sd/mulsd/divsd, glibc strtod correctly rounded in the C locale. The decimal value of a literal is defined by the model function decimalParts (a direct digit-by-digit reading of sign, digits, point and exponent); literal_correctly_rounded proves parse_double_from_buffer equals rne of that value for every float literal on both paths.",
        technique="Lean 4 proof (exact-arithmetic rounding, scale invariance, table check by decide +kernel) + correspondence check + float() oracle",
    ),
}


def main():
    props = [json.loads(l)["id"] for l in open(os.path.join(C.VERIF, "properties.jsonl"))]
    checks = []
    for pid in props:
        if pid in CHECKS and os.path.exists(os.path.join(C.VERIF, "vlib", "props", pid.lower() + ".py")):
            c = CHECKS[pid]
            checks.append({
                "property_id": pid,
                "quick_cmd": "./check %s --tier quick" % pid,
                "thorough_cmd": "./check %s --tier thorough" % pid,
                "evidence_file": "evidence/%s.json" % pid,
                "replay_cmd_template": "./check %s --replay {path}" % pid,
                "engine": "lean-proofs+correspondence",
                "level_claimed": {"category": c["category"], "text": c["text"], "design_ref": c["design_ref"]},
                "level_note": c["note"],
                "technique": c["technique"],
            })
    claimed = set(c["property_id"] for c in checks)
    m = {
        "version": 1,
        "setup_cmd": "./check --setup",
        "hooks": {"guard": "EDN_VERIF_HOOKS",
                  "enable": "no source hooks are needed: the harness #includes the repository's .c files (unity build) and wraps malloc/calloc/realloc/free/edn_arena_alloc at link time",
                  "baseline_off_cmd": "./check --baseline", "source_commits": [], "add_only": True},
        "engines": [
            {"name": "lean-proofs", "path": "lean/", "serves_properties": sorted(claimed), "kind_free_text": "Lean 4 model, specification and theorems; lake build + #print axioms audit"},
            {"name": "correspondence", "path": "harness/edn_harness.c + lean/Main.lean", "serves_properties": sorted(claimed), "kind_free_text": "line-protocol differential run of the real library against the compiled model driver"},
            {"name": "extractor", "path": "harness/extract.c + vlib/gen_tables.py", "serves_properties": sorted(claimed), "kind_free_text": "compile-and-dump regeneration of lean/Edn/Generated/Tables.lean from /repo"},
            {"name": "impl-oracles", "path": "vlib/props/", "serves_properties": sorted(claimed), "kind_free_text": "per-property oracles on the real library that produce concrete failing inputs"},
        ],
        "checks": checks,
        "not_applicable": [{"property_id": p, "reason": "check not built yet"}
                           for p in props if p not in claimed],
        "notes": "Machine-checked proof in Lean 4 over a hand-written executable model; see DESIGN.md. Repaired defects are listed in known_findings.json.",
    }
    json.dump(m, open(os.path.join(C.VERIF, "MANIFEST.json"), "w"), indent=1)
    print("MANIFEST: %d checks, %d not yet claimed" % (len(checks), len(props) - len(checks)))


if __name__ == "__main__":
    main()
