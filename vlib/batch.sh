#!/bin/bash
# batch self-validation helper (run from a /verif checkout or a `vp run` snapshot):
#   vlib/batch.sh seeded   : every seeded defect against the quick tier of its own property's check
#   vlib/batch.sh harmless <glob> : every harmless patch matching the glob against all 20 checks
# results: selftest_out/*.json
set -u
cd "$(dirname "$0")/.."
mkdir -p selftest_out
./check --setup > selftest_out/setup.log 2>&1
case "$1" in
 seeded)
  ls -d seeded/C*-*/ | xargs -P ${JOBS:-5} -I{} sh -c 'p=$(basename {}); c=${p%%-*}; python3 -m vlib.selftest --checks $c --out selftest_out/$p.json {}patch.diff 2>&1 | grep -v WARNING';;
 harmless)
  ls $2 | xargs -P ${JOBS:-5} -I{} sh -c 'p=$(basename {} .diff); python3 -m vlib.selftest --checks all --out selftest_out/$p.json {} 2>&1 | grep -v WARNING';;
esac
case "$1" in
 thorough)
  for p in C01 C02 C03 C04 C05 C06 C07 C08 C09 C10 C11 C12 C13 C14 C15 C16 C17 C18 C19 C20; do
    /usr/bin/time -f "$p wall=%es" ./check $p --tier thorough > selftest_out/thorough_$p.log 2>&1; echo "$p exit=$? $(grep -c ^VIOLATION selftest_out/thorough_$p.log) $(tail -2 selftest_out/thorough_$p.log | tr '\n' ' ' | cut -c1-200)"
  done;;
esac
case "$1" in
 seeds)
  for sd in $2; do
   printf "%s\n" C01 C02 C03 C04 C05 C06 C07 C08 C09 C10 C11 C12 C13 C14 C15 C16 C17 C18 C19 C20 | xargs -P 3 -I{} bash -c "VERIF_SEED=$sd ./check {} --tier quick > selftest_out/seed${sd}_{}.log 2>&1; echo \"seed=$sd {} exit=\$? \$(grep -c ^VIOLATION selftest_out/seed${sd}_{}.log) \$(tail -1 selftest_out/seed${sd}_{}.log | cut -c1-100)\""
  done;;
esac
