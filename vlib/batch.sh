#!/bin/bash
# batch self-validation helper (run from a /verif checkout or a `vp run` snapshot):
#   vlib/batch.sh seeded   : every seeded defect against the quick tier of its own property's check
#   vlib/batch.sh harmless <glob> : every harmless patch matching the glob against all 20 checks
# results: selftest_out/*.json
set -u
cd "$(dirname "$0")/.."
mkdir -p selftest_out
./check --setup > selftest_out/setup.log 2>&1
case "$1" in
 seeded)
  ls -d seeded/C*-*/ | xargs -P ${JOBS:-5} -I{} sh -c 'p=$(basename {}); c=${p%%-*}; python3 -m vlib.selftest --checks $c --out selftest_out/$p.json {}patch.diff 2>&1 | grep -v WARNING';;
 harmless)
  ls $2 | xargs -P ${JOBS:-5} -I{} sh -c 'p=$(basename {} .diff); python3 -m vlib.selftest --checks all --out selftest_out/$p.json {} 2>&1 | grep -v WARNING';;
esac
