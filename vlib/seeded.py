"""Confirms a seeded defect produced by a sub-agent and files it under /verif/seeded/<id>/.

  python3 -m vlib.seeded confirm <dir>/<mN>   (expects <mN>.patch.diff, <mN>.demo.c|.sh, <mN>.meta.json)

Confirmation = in a scratch git worktree of /repo (removed afterwards): the patch applies, all
four configurations compile, the repository's 754 pinned tests pass, and the demonstration
prints something different on the changed tree than on the original tree."""
import glob
import json
import os
import shutil
import subprocess
import sys
import tempfile

VERIF = os.path.dirname(os.path.dirname(os.path.abspath(__file__)))
FLAGS = {"core": [], "clj": ["-DEDN_ENABLE_CLOJURE_EXTENSION"], "exp": ["-DEDN_ENABLE_EXPERIMENTAL_EXTENSION"],
         "both": ["-DEDN_ENABLE_CLOJURE_EXTENSION", "-DEDN_ENABLE_EXPERIMENTAL_EXTENSION"]}


def sh(cmd, **kw):
    return subprocess.run(cmd, stdout=subprocess.PIPE, stderr=subprocess.STDOUT, text=True, errors="replace", **kw)


def run_tests(tree):
    b = os.path.join(tree, "_tbuild")
    shutil.rmtree(b, ignore_errors=True)
    r = sh(["cmake", "-G", "Ninja", "-S", tree, "-B", b])
    if r.returncode:
        return False, r.stdout[-1500:]
    targets = sorted(f[:-2] for f in os.listdir(os.path.join(tree, "test")) if f.startswith("test_") and f.endswith(".c"))
    r = sh(["cmake", "--build", b, "--"] + targets)
    if r.returncode:
        return False, "BUILD FAILED " + r.stdout[-1500:]
    passed = set()
    for t in targets:
        try:
            out = sh([os.path.join(b, t)], timeout=900).stdout
        except subprocess.TimeoutExpired:
            out = ""
        for line in out.split("\n"):
            s = line.strip()
            if s.startswith("Running test_") and "..." in s and s.endswith("PASS"):
                passed.add(s.split("...")[0].strip())
    shutil.rmtree(b, ignore_errors=True)
    want = set(json.load(open("/root/.vp/BASELINE.json"))["stable_pass"])
    missing = sorted(want - passed)
    return (not missing), "%d of %d pinned tests pass%s" % (len(want & passed), len(want), (" missing: " + ", ".join(missing[:5])) if missing else "")


def build_demo(tree, demo, cfg, out):
    if demo.endswith(".sh"):
        return None
    srcs = sorted(glob.glob(os.path.join(tree, "src", "*.c")))
    head = open(demo).read()[:4000]
    extra = []
    if "-fsanitize=undefined" in head:
        extra += ["-fsanitize=undefined", "-fno-sanitize-recover=undefined"]
    if "-fsanitize=address" in head:
        extra += ["-fsanitize=address"]
    import re
    wraps = re.findall(r"-Wl,--wrap=[A-Za-z0-9_,=\-]+", head)
    extra += sorted(set(wraps))
    for fl in re.findall(r"-D(EDN_ENABLE_[A-Z_]+)", head):
        if ("-D" + fl) not in FLAGS[cfg]:
            extra += ["-D" + fl]
    if "-D_GNU_SOURCE" in head:
        extra += ["-D_GNU_SOURCE"]
    r = sh(["gcc", "-std=gnu11", "-O1", "-msse4.2", "-w", "-pthread"] + extra + FLAGS[cfg] + ["-I" + os.path.join(tree, "include"), "-I" + os.path.join(tree, "src"), demo] + srcs +
           ["-lm", "-lpthread", "-o", out])
    return r


def run_demo(tree, demo, cfg, scratch, tag):
    if demo.endswith(".sh"):
        r = sh(["bash", demo, tree], timeout=600)
        return r.returncode, r.stdout[-6000:]
    exe = os.path.join(scratch, "demo_" + tag)
    r = build_demo(tree, demo, cfg, exe)
    if r.returncode:
        return -1, "DEMO BUILD FAILED: " + r.stdout[-2000:]
    try:
        r = sh([exe], timeout=300, cwd=scratch)
        return r.returncode, r.stdout[-6000:]
    except subprocess.TimeoutExpired:
        return -9, "TIMEOUT (300 s)"


def confirm(prefix, repo="/repo"):
    patch = prefix + ".patch.diff"
    meta = json.load(open(prefix + ".meta.json"))
    demo = prefix + ".demo.c" if os.path.exists(prefix + ".demo.c") else prefix + ".demo.sh"
    cfg = meta.get("config", "core")
    if cfg not in FLAGS:
        cfg = "both" if "both" in cfg or ("clj" in cfg and "exp" in cfg) else ("clj" if "clj" in cfg or "clojure" in cfg.lower() else ("exp" if "exp" in cfg else "core"))
    scratch = tempfile.mkdtemp(prefix="edn_seeded_")
    orig = os.path.join(scratch, "orig")
    mut = os.path.join(scratch, "mut")
    res = {"applies": False}
    try:
        for wt in (orig, mut):
            r = sh(["git", "-C", repo, "worktree", "add", "--detach", "-f", wt, "HEAD"])
            if r.returncode:
                res["error"] = r.stdout
                return res
        r = sh(["git", "-C", mut, "apply", os.path.abspath(patch)])
        res["applies"] = r.returncode == 0
        if r.returncode:
            res["error"] = r.stdout[-500:]
            return res
        res["touches"] = sh(["git", "-C", mut, "diff", "--stat"]).stdout.strip().split("\n")[-1]
        comp = {}
        for c, fl in FLAGS.items():
            ok = True
            for f in sorted(glob.glob(os.path.join(mut, "src", "*.c"))):
                r = sh(["gcc", "-std=c11", "-O2", "-msse4.2", "-w"] + fl + ["-I" + os.path.join(mut, "include"), "-I" + os.path.join(mut, "src"), "-c", f, "-o", os.path.join(scratch, "x.o")])
                if r.returncode:
                    ok = False
                    comp[c + "_error"] = r.stdout[-500:]
                    break
            comp[c] = ok
        res["compiles"] = comp
        ok, msg = run_tests(mut)
        res["tests_pass"] = ok
        res["tests"] = msg
        rc0, out0 = run_demo(orig, demo, cfg, scratch, "orig")
        rc1, out1 = run_demo(mut, demo, cfg, scratch, "mut")
        res["demo_original"] = {"exit": rc0, "stdout": out0}
        res["demo_changed"] = {"exit": rc1, "stdout": out1}
        res["demo_differs"] = (rc0, out0) != (rc1, out1) and rc0 not in (-1,) and rc1 not in (-1,)
        res["confirmed"] = bool(res["applies"] and all(comp.get(c) for c in FLAGS) and ok and res["demo_differs"])
        res["config"] = cfg
    finally:
        for wt in (orig, mut):
            sh(["git", "-C", repo, "worktree", "remove", "--force", wt])
        sh(["git", "-C", repo, "worktree", "prune"])
        shutil.rmtree(scratch, ignore_errors=True)
    return res


def main():
    if len(sys.argv) < 3 or sys.argv[1] != "confirm":
        print(__doc__)
        return 2
    rc = 0
    for prefix in sys.argv[2:]:
        res = confirm(prefix)
        meta = json.load(open(prefix + ".meta.json"))
        pid = meta.get("property", "C??")
        n = os.path.basename(prefix).lstrip("m")
        print("%s: confirmed=%s applies=%s compiles=%s tests=%s demo_differs=%s" % (
            prefix, res.get("confirmed"), res.get("applies"), res.get("compiles"), res.get("tests"), res.get("demo_differs")))
        if not res.get("confirmed"):
            print(json.dumps(res, indent=1)[:3000])
            rc = 1
            continue
        d = os.path.join(VERIF, "seeded", "%s-%s" % (pid, n))
        os.makedirs(d, exist_ok=True)
        shutil.copy(prefix + ".patch.diff", os.path.join(d, "patch.diff"))
        demo = prefix + ".demo.c" if os.path.exists(prefix + ".demo.c") else prefix + ".demo.sh"
        shutil.copy(demo, os.path.join(d, os.path.basename(demo).split(".", 1)[1]))
        meta_out = {"property": pid, "written_by": "fresh sub-agent given only the property text and a scratch worktree",
                    "summary": meta.get("summary"), "mechanism": meta.get("mechanism"), "config": res["config"],
                    "failing_input": meta.get("failing_input"), "confirmed": {k: res[k] for k in ("applies", "compiles", "tests_pass", "tests", "demo_differs", "touches")},
                    "demo_original": res["demo_original"], "demo_changed": res["demo_changed"]}
        json.dump(meta_out, open(os.path.join(d, "meta.json"), "w"), indent=1)
    return rc


if __name__ == "__main__":
    sys.exit(main())
