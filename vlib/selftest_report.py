"""Builds seeded/README.md and selftest/RESULTS.md from the JSON files written by vlib.selftest.

  python3 -m vlib.selftest_report"""
import glob
import json
import os

VERIF = os.path.dirname(os.path.dirname(os.path.abspath(__file__)))


def load(pattern):
    res = {}
    for f in sorted(glob.glob(os.path.join(VERIF, "selftest", pattern))):
        for name, row in json.load(open(f)).items():
            res.setdefault(name, {}).update(row)
    return res


def cell(r):
    if r is None:
        return ""
    if r.get("exit") == 0:
        return "·"
    return "**X**" if r.get("with_input") else "x"


def main():
    seeded = load("cross_*.json")
    for pat in ("seeded_results.json", "final_own.json", "round7_first_contact.json", "final_round4.json"):
        for name, row in load(pat).items():
            for c, r in row.items():
                seeded.setdefault(name, {})[c] = r  # later, targeted runs override (final_own.json: last full pass with the final checks)
    checks = ["C%02d" % i for i in range(1, 21)]
    out = ["# Seeded defects", "",
           "Each directory `Cnn-k/` holds a change to DotFox/edn.c written by a fresh sub-agent that was given only the text of property Cnn and",
           "its own scratch worktree (nothing from /verif): `patch.diff`, the agent's demonstration `demo.c`, and `meta.json` with what was",
           "confirmed here (`python3 -m vlib.seeded confirm`): the patch applies, all four configurations compile, the 754 pinned tests pass, and",
           "the demonstration behaves differently on the changed tree. To run a check against one: `git -C /repo apply seeded/Cnn-k/patch.diff;",
           "./check Cnn; git -C /repo checkout -- .` (or `python3 -m vlib.selftest --checks Cnn seeded/Cnn-k/patch.diff`, which uses a scratch worktree).", "",
           "Legend: **X** = the check exits 1 with a concrete failing input; x = exits 1 on a broken proof obligation / correspondence only",
           "(`no-failing-input-found`); · = quiet; blank = not run.", "",
           "| seeded | what it changes | " + " | ".join(c[1:] for c in checks) + " |", "|---|---|" + "---|" * len(checks)]
    missed = []
    for d in sorted(glob.glob(os.path.join(VERIF, "seeded", "C*-*"))):
        sid = os.path.basename(d)
        meta = json.load(open(os.path.join(d, "meta.json")))
        row = seeded.get(sid + "/patch.diff", {})
        own = row.get(sid[:3])
        if own is not None and own.get("exit") == 0:
            missed.append(sid)
        summ = (meta.get("summary") or "").replace("|", "/").replace("\n", " ")
        if len(summ) > 150:
            summ = summ[:147] + "..."
        out.append("| %s | %s | %s |" % (sid, summ, " | ".join(cell(row.get(c)) for c in checks)))
    out += ["", "Seeded defects not caught by the check of their own property: %s" % (", ".join(missed) if missed else "none"), ""]
    hist = os.path.join(VERIF, "seeded", "HISTORY.md")
    if os.path.exists(hist):
        out += open(hist).read().split("\n")
    open(os.path.join(VERIF, "seeded", "README.md"), "w").write("\n".join(out) + "\n")

    own = load("own_results.json")
    for pat in ("harmless_0*.json", "harmless_fix.json", "harmless5_results.json"):  # later files override
        for name, row in load(pat).items():
            own.setdefault(name, {}).update(row)
    o2 = ["# Own mutants and harmless rewrites", "",
          "`selftest/own/*.diff`: reverts of the `fix:` commits, small hand-made defects, and HARMLESS-* rewrites that keep every property true;",
          "`selftest/harmless/HARMLESS-agent-*.diff`: behaviour-preserving maintenance commits written by sub-agents (refactor / constant or strategy",
          "cut-over / control-flow restructuring, three per property for eight properties); `selftest/harmless5/HARMLESS5-*.diff`: 24 more (12 source areas x 2, last session). Legend as in seeded/README.md; HARMLESS rows should be all `·`.", "",
          "| change | " + " | ".join(c[1:] for c in checks) + " |", "|---|" + "---|" * len(checks)]
    for name in sorted(own):
        o2.append("| %s | %s |" % (name.replace(".diff", ""), " | ".join(cell(own[name].get(c)) for c in checks)))
    open(os.path.join(VERIF, "selftest", "RESULTS.md"), "w").write("\n".join(o2) + "\n")
    print("seeded: %d rows, missed by own check: %s; own: %d rows" % (len(glob.glob(os.path.join(VERIF, "seeded", "C*-*"))), missed, len(own)))


if __name__ == "__main__":
    main()
