"""Parser for the canonical dump produced by harness/edn_harness.c and lean/Main.lean."""


class Node:
    __slots__ = ("kind", "s", "e", "args", "kids", "meta")

    def __init__(self, kind):
        self.kind = kind
        self.s = None
        self.e = None
        self.args = []
        self.kids = []
        self.meta = None

    def walk(self):
        yield self
        for k in self.kids:
            yield from k.walk()
        if self.meta is not None:
            yield from self.meta.walk()

    def strip(self):
        """dump without ranges"""
        parts = [self.kind] + list(self.args) + [k.strip() for k in self.kids]
        out = "(" + " ".join(parts)
        if self.meta is not None:
            out += " ^" + self.meta.strip()
        return out + ")"


def parse(text, ranges=True):
    """text = '(kind s e payload... [^meta])' -> Node"""
    pos = [0]

    def node():
        assert text[pos[0]] == "(", text[pos[0]:pos[0] + 20]
        pos[0] += 1
        j = pos[0]
        while text[j] not in " )":
            j += 1
        n = Node(text[pos[0]:j])
        pos[0] = j
        toks = []
        while True:
            c = text[pos[0]]
            if c == " ":
                pos[0] += 1
            elif c == ")":
                pos[0] += 1
                break
            elif c == "(":
                n.kids.append(node())
            elif c == "^":
                pos[0] += 1
                n.meta = node()
            else:
                j = pos[0]
                while text[j] not in " )":
                    j += 1
                toks.append(text[pos[0]:j])
                pos[0] = j
        if ranges and len(toks) >= 2 and n.kind not in ("null", "deep"):
            n.s, n.e = int(toks[0]), int(toks[1])
            toks = toks[2:]
        n.args = toks
        return n

    return node()


def parse_result(line, ranges=True):
    """'ok <tree>' -> Node, otherwise None"""
    if line is None or not line.startswith("ok "):
        return None
    body = line[3:]
    if " calls=[" in body:
        body = body.split(" calls=[")[0]
    return parse(body, ranges)
