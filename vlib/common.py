"""Shared machinery: paths, builds (cached by source hash), harness/driver runners,
evidence, violations and known findings.  Standard library only."""
import fcntl
import hashlib
import json
import os
import random
import re
import resource
import shutil
import subprocess
import sys
import time

VERIF = os.path.dirname(os.path.dirname(os.path.abspath(__file__)))
REPO = os.environ.get("VERIF_REPO", "/repo")
LEAN_DIR = os.path.join(VERIF, "lean")
BUILD_ROOT = os.path.join(VERIF, "build")
EVIDENCE_DIR = os.path.join(VERIF, "evidence")
REPLAY_DIR = os.path.join(VERIF, "replays")
CORPUS_DIR = os.path.join(VERIF, "corpus")
KNOWN_FINDINGS = os.path.join(VERIF, "known_findings.json")

CFGS = {
    "core": [],
    "clj": ["-DEDN_ENABLE_CLOJURE_EXTENSION"],
    "exp": ["-DEDN_ENABLE_EXPERIMENTAL_EXTENSION"],
    "both": ["-DEDN_ENABLE_CLOJURE_EXTENSION", "-DEDN_ENABLE_EXPERIMENTAL_EXTENSION"],
}
CFG_BITS = {"core": 0, "clj": 1, "exp": 2, "both": 3}  # bit0 = clojure, bit1 = experimental

SRC_FILES = ["edn.c", "arena.c", "simd.c", "string.c", "number.c", "character.c", "identifier.c",
             "symbolic.c", "equality.c", "uniqueness.c", "collection.c", "tagged.c", "discard.c",
             "reader.c", "metadata.c", "newline_finder.c"]

MODES = {
    # name: (compiler, flags)
    "san": ("gcc", ["-std=c11", "-O1", "-g", "-msse4.2", "-fsanitize=address,undefined",
                    "-fno-sanitize-recover=all", "-fno-omit-frame-pointer"]),
    "o2": ("gcc", ["-std=c11", "-O2", "-msse4.2", "-DNDEBUG"]),
    "o0": ("gcc", ["-std=c11", "-O0", "-msse4.2"]),
    "o3": ("gcc", ["-std=c11", "-O3", "-msse4.2", "-DNDEBUG"]),
    "clang": ("clang-14", ["-std=c11", "-O2", "-msse4.2", "-DNDEBUG"]),
    "tsan": ("gcc", ["-std=c11", "-O1", "-g", "-msse4.2", "-fsanitize=thread"]),
    "msan": ("clang-14", ["-std=c11", "-O1", "-g", "-msse4.2", "-fsanitize=memory", "-fno-omit-frame-pointer"]),
    # coverage measurement of the correspondence / oracle inputs (vlib/coverage.py); never used by a registered check
    "cov": ("gcc", ["-std=c11", "-O0", "-g", "-msse4.2", "--coverage", "-fprofile-update=atomic"]),
}

WRAPS = "-Wl,--wrap=malloc,--wrap=calloc,--wrap=realloc,--wrap=free,--wrap=edn_arena_alloc,--wrap=edn_arena_create,--wrap=edn_arena_destroy"


def log(*a):
    print(*a, file=sys.stderr, flush=True)


def seed():
    try:
        return int(os.environ.get("VERIF_SEED", "1"))
    except ValueError:
        return 1


def rng(tag=""):
    return random.Random("%d/%s" % (seed(), tag))


def sha(data):
    if isinstance(data, str):
        data = data.encode()
    return hashlib.sha256(data).hexdigest()


def repo_hash():
    h = hashlib.sha256()
    for d in ("src", "include"):
        base = os.path.join(REPO, d)
        for root, _, files in sorted(os.walk(base)):
            for f in sorted(files):
                p = os.path.join(root, f)
                h.update(os.path.relpath(p, REPO).encode())
                with open(p, "rb") as fh:
                    h.update(fh.read())
    for f in sorted(os.listdir(os.path.join(VERIF, "harness"))):
        with open(os.path.join(VERIF, "harness", f), "rb") as fh:
            h.update(f.encode())
            h.update(fh.read())
    h.update(json.dumps(MODES, sort_keys=True).encode())
    return h.hexdigest()[:16]


class Lock:
    def __init__(self, name):
        os.makedirs(BUILD_ROOT, exist_ok=True)
        self.path = os.path.join(BUILD_ROOT, name + ".lock")

    def __enter__(self):
        self.fh = open(self.path, "w")
        fcntl.flock(self.fh, fcntl.LOCK_EX)
        return self

    def __exit__(self, *a):
        fcntl.flock(self.fh, fcntl.LOCK_UN)
        self.fh.close()


def build_dir():
    d = os.path.join(BUILD_ROOT, repo_hash())
    os.makedirs(d, exist_ok=True)
    return d


def prune_builds(keep):
    """Remove build directories of older source hashes (disk is limited)."""
    if not os.path.isdir(BUILD_ROOT):
        return
    for name in os.listdir(BUILD_ROOT):
        p = os.path.join(BUILD_ROOT, name)
        if os.path.isdir(p) and name != keep and len(name) == 16:
            shutil.rmtree(p, ignore_errors=True)


class BuildError(Exception):
    pass


def _run_cc(cmd):
    r = subprocess.run(cmd, stdout=subprocess.PIPE, stderr=subprocess.STDOUT, text=True)
    if r.returncode != 0:
        raise BuildError("build failed: %s\n%s" % (" ".join(cmd), r.stdout[-4000:]))


HELPERS = ["N_I64", "N_D8", "N_DBL", "N_GCD", "S_IDENT", "B_BUILDER"]

_CLASH_RE = re.compile(r"error: (?:redefinition of|conflicting types for|conflicting type qualifiers for|redeclaration of enumerator|static declaration of) "
                       r"['\u2018](?:(?:struct|union|enum) )?(\w+)['\u2019]")


def unity_renames(cfg):
    """-D flags for the single-translation-unit builds (harness, extractor, probe #include every src/*.c): two library files may
    define the same file-private name (a static function, table, struct tag) - legal for the library, whose files are compiled
    separately, but a redefinition inside one translation unit.  That is a limitation of OUR build, not a change of behaviour, so
    each such name N is compiled as N__<file> in every file (-DN=VF_CAT(N__,VF_FILE); the harness sets VF_FILE before each
    #include).  Names are found from the compiler's own redefinition errors on harness/probe.c; with no clash (the usual case)
    the list is empty and nothing is renamed.  A name that is shared on purpose (defined in one file, used in another) would no
    longer link and the build fails as it did before.  Cached per source hash and configuration."""
    bd = build_dir()
    cache = os.path.join(bd, "renames-%s.json" % cfg)
    if os.path.exists(cache):
        names = json.load(open(cache))
    else:
        with Lock("renames-%s" % cfg):
            if os.path.exists(cache):
                names = json.load(open(cache))
            else:
                inc = ["-I" + os.path.join(REPO, "src"), "-I" + os.path.join(REPO, "include")]
                names = []
                for _ in range(6):
                    r = subprocess.run(["gcc", "-std=c11", "-msse4.2", "-fsyntax-only", "-w"] + _rename_flags(names) + CFGS[cfg] + inc +
                                       [os.path.join(VERIF, "harness", "probe.c")], stdout=subprocess.PIPE, stderr=subprocess.STDOUT, text=True, errors="replace")
                    more = sorted(set(_CLASH_RE.findall(r.stdout)) - set(names)) if r.returncode != 0 else []
                    if not more:
                        break
                    names += more
                with open(cache + ".tmp%d" % os.getpid(), "w") as fh:
                    json.dump(names, fh)
                os.rename(cache + ".tmp%d" % os.getpid(), cache)
    return _rename_flags(names)


def _rename_flags(names):
    if not names:
        return []
    return ["-DVF_CAT_(a,b)=a##b", "-DVF_CAT(a,b)=VF_CAT_(a,b)"] + ["-D%s=VF_CAT(%s__,VF_FILE)" % (n, n) for n in names]


def helper_flags(cfg):
    """-DHAVE_<X> for every static helper of the library that still exists with the signature the harness calls
    (probed by compiling harness/probe.c with -fsyntax-only; cached per source hash and configuration)."""
    bd = build_dir()
    cache = os.path.join(bd, "helpers-%s.json" % cfg)
    if os.path.exists(cache):
        have = json.load(open(cache))
    else:
        with Lock("probe-%s" % cfg):
            if os.path.exists(cache):
                have = json.load(open(cache))
            else:
                inc = ["-I" + os.path.join(REPO, "src"), "-I" + os.path.join(REPO, "include")]
                have = {}
                for h in HELPERS:
                    if h == "N_GCD" and cfg not in ("clj", "both"):
                        have[h] = False
                        continue
                    r = subprocess.run(["gcc", "-std=c11", "-msse4.2", "-fsyntax-only", "-Werror=implicit-function-declaration", "-DPROBE_" + h] + unity_renames(cfg) + CFGS[cfg] + inc +
                                       [os.path.join(VERIF, "harness", "probe.c")], stdout=subprocess.PIPE, stderr=subprocess.STDOUT, text=True)
                    have[h] = r.returncode == 0
                with open(cache + ".tmp", "w") as fh:
                    json.dump(have, fh)
                os.rename(cache + ".tmp", cache)
    return (["-DHAVE_" + h for h in HELPERS if have.get(h)] + unity_renames(cfg),
            [h for h in HELPERS if not have.get(h) and not (h == "N_GCD" and cfg not in ("clj", "both"))])


def missing_helpers(cfg="core"):
    return helper_flags(cfg)[1]


def harness(style, cfg, mode):
    """Build (or reuse) a harness binary.  style: 'unity' or 'wrap'."""
    if os.environ.get("VERIF_COV") and mode != "cov":
        # coverage run (vlib/coverage.py): every harness process is the gcov-instrumented build
        return cov_harness(style, cfg)
    bd = build_dir()
    out = os.path.join(bd, "%s-%s-%s" % (style, cfg, mode))
    if os.path.exists(out):
        return out
    with Lock("cc-%s-%s-%s" % (style, cfg, mode)):
        if os.path.exists(out):
            return out
        cc, flags = MODES[mode]
        inc = ["-I" + os.path.join(REPO, "src"), "-I" + os.path.join(REPO, "include")]
        hsrc = os.path.join(VERIF, "harness", "edn_harness.c")
        tmp = out + ".tmp%d" % os.getpid()
        if style == "unity":
            _run_cc([cc] + flags + CFGS[cfg] + helper_flags(cfg)[0] + ["-DVERIF_UNITY", "-w"] + inc + [hsrc, "-o", tmp, "-lm", "-lpthread"])
        else:
            objdir = out + ".objs"
            os.makedirs(objdir, exist_ok=True)
            objs = []
            for f in SRC_FILES:
                o = os.path.join(objdir, f[:-2] + ".o")
                _run_cc([cc] + flags + CFGS[cfg] + ["-w", "-c"] + inc + [os.path.join(REPO, "src", f), "-o", o])
                objs.append(o)
            _run_cc([cc] + flags + CFGS[cfg] + ["-DVERIF_WRAP", "-w"] + inc + [hsrc] + objs +
                    [WRAPS, "-o", tmp, "-lm", "-lpthread"])
            shutil.rmtree(objdir, ignore_errors=True)
        os.rename(tmp, out)
    return out


def cov_harness(style, cfg):
    """gcov-instrumented harness; objects (and their .gcno/.gcda files) are kept in <build>/cov-<style>-<cfg>.objs/"""
    bd = build_dir()
    out = os.path.join(bd, "%s-%s-cov" % (style, cfg))
    if os.path.exists(out):
        return out
    with Lock("cc-%s-%s-cov" % (style, cfg)):
        if os.path.exists(out):
            return out
        cc, flags = MODES["cov"]
        inc = ["-I" + os.path.join(REPO, "src"), "-I" + os.path.join(REPO, "include")]
        hsrc = os.path.join(VERIF, "harness", "edn_harness.c")
        objdir = os.path.join(bd, "cov-%s-%s.objs" % (style, cfg))
        os.makedirs(objdir, exist_ok=True)
        tmp = out + ".tmp%d" % os.getpid()
        if style == "unity":
            o = os.path.join(objdir, "edn_harness.o")
            _run_cc([cc] + flags + CFGS[cfg] + helper_flags(cfg)[0] + ["-DVERIF_UNITY", "-w", "-c"] + inc + [hsrc, "-o", o])
            _run_cc([cc] + flags + [o, "-o", tmp, "-lm", "-lpthread"])
        else:
            objs = []
            for f in SRC_FILES:
                o = os.path.join(objdir, f[:-2] + ".o")
                _run_cc([cc] + flags + CFGS[cfg] + ["-w", "-c"] + inc + [os.path.join(REPO, "src", f), "-o", o])
                objs.append(o)
            ho = os.path.join(objdir, "edn_harness.o")
            _run_cc([cc, "-std=c11", "-O0", "-g", "-msse4.2"] + CFGS[cfg] + ["-DVERIF_WRAP", "-w", "-c"] + inc + [hsrc, "-o", ho])
            _run_cc([cc] + flags + [ho] + objs + [WRAPS, "-o", tmp, "-lm", "-lpthread"])
        os.rename(tmp, out)
    return out


def extractor_output(cfg):
    bd = build_dir()
    out = os.path.join(bd, "extract-%s.txt" % cfg)
    if os.path.exists(out):
        return open(out).read()
    with Lock("extract-%s" % cfg):
        if os.path.exists(out):
            return open(out).read()
        exe = os.path.join(bd, "extract-%s" % cfg)
        inc = ["-I" + os.path.join(REPO, "src"), "-I" + os.path.join(REPO, "include")]
        _run_cc(["gcc", "-std=c11", "-O1", "-msse4.2", "-w"] + CFGS[cfg] + helper_flags(cfg)[0] + inc +
                [os.path.join(VERIF, "harness", "extract.c"), "-o", exe, "-lm"])
        r = subprocess.run([exe], stdout=subprocess.PIPE, text=True, check=True)
        with open(out + ".tmp", "w") as fh:
            fh.write(r.stdout)
        os.rename(out + ".tmp", out)
        return r.stdout


# ---------------------------------------------------------------------------
# running the harness and the model driver
# ---------------------------------------------------------------------------

class RunResult:
    def __init__(self, outputs, crashed_at, returncode, stderr):
        self.outputs = outputs          # list of output lines (one per input line processed)
        self.crashed_at = crashed_at    # index of the input line that crashed, or None
        self.returncode = returncode
        self.stderr = stderr


def _limits(stack_kb=None, cpu_s=None, as_mb=None):
    def f():
        if as_mb:
            resource.setrlimit(resource.RLIMIT_AS, (as_mb << 20, as_mb << 20))
        if stack_kb:
            resource.setrlimit(resource.RLIMIT_STACK, (stack_kb * 1024, stack_kb * 1024))
        if cpu_s:
            resource.setrlimit(resource.RLIMIT_CPU, (cpu_s, cpu_s + 5))
    return f


def run_lines(exe, lines, stack_kb=None, cpu_s=None, timeout=3600, env=None, as_mb=None):
    """Feed lines to a line-protocol program; returns RunResult.  A crash is
    attributed to the first input line that has no output line."""
    data = ("\n".join(lines) + "\n").encode()
    e = dict(os.environ)
    e["ASAN_OPTIONS"] = "detect_leaks=1:abort_on_error=0:allocator_may_return_null=1:detect_stack_use_after_return=1"
    e["UBSAN_OPTIONS"] = "print_stacktrace=1:halt_on_error=1"
    if env:
        e.update(env)
    try:
        p = subprocess.run([exe] if isinstance(exe, str) else exe, input=data, stdout=subprocess.PIPE,
                           stderr=subprocess.PIPE, preexec_fn=_limits(stack_kb, cpu_s, as_mb), timeout=timeout, env=e)
        rc, out, err = p.returncode, p.stdout, p.stderr
    except subprocess.TimeoutExpired as ex:
        rc, out, err = -999, ex.stdout or b"", (ex.stderr or b"") + b"\nTIMEOUT"
    outs = out.decode("latin-1").split("\n")
    if outs and outs[-1] == "":
        outs.pop()
    crashed = None
    if rc != 0 or len(outs) < len(lines):
        crashed = min(len(outs), len(lines) - 1) if lines else None
        if rc == 0 and len(outs) >= len(lines):
            crashed = None
    return RunResult(outs[:len(lines)], crashed, rc, err.decode("latin-1")[-6000:])


def run_lines_resilient(exe, lines, **kw):
    """Like run_lines but continues after a crashing line.  Returns (outputs, crashes)
    where outputs[i] is None for a crashing line and crashes is a list of
    (index, returncode, stderr)."""
    outputs = [None] * len(lines)
    crashes = []
    start = 0
    # stateful prefix lines (P, D) must be replayed after a crash
    sticky = []
    while start < len(lines):
        chunk = lines[start:]
        r = run_lines(exe, sticky + chunk, **kw)
        outs = r.outputs[len(sticky):]
        for i, o in enumerate(outs):
            outputs[start + i] = o
        for l in chunk[:len(outs)]:
            if l[:1] in ("P", "D"):
                sticky = [s for s in sticky if s[:1] != l[:1]] + [l]
        if r.crashed_at is None:
            break
        idx = start + max(0, r.crashed_at - len(sticky))
        outputs[idx] = None
        crashes.append((idx, r.returncode, r.stderr))
        if len(crashes) > 200:
            break
        start = idx + 1
    return outputs, crashes


def parallel_map(fn, items, workers=None):
    from concurrent.futures import ThreadPoolExecutor
    workers = workers or min(16, max(1, len(items)))
    with ThreadPoolExecutor(max_workers=workers) as ex:
        return list(ex.map(fn, items))


def chunked(lines, n):
    return [lines[i:i + n] for i in range(0, len(lines), n)]


def run_parallel(exe, lines, nchunks=16, resilient=True, prefix=None, **kw):
    """Split lines into chunks balanced by size, run the chunks in parallel processes.  prefix
    lines (P/D settings) are prepended to each chunk and their outputs dropped.  Outputs and
    crash indices are reported in the order of `lines`."""
    prefix = prefix or []
    if not lines:
        return [], []
    nb = max(1, min(nchunks, len(lines)))
    bins = [[] for _ in range(nb)]
    load = [0] * nb
    for i in sorted(range(len(lines)), key=lambda i: -len(lines[i])):
        b = load.index(min(load))
        bins[b].append(i)
        load[b] += len(lines[i]) + 64
    bins = [sorted(b) for b in bins if b]

    def work(idxs):
        ch = [lines[i] for i in idxs]
        if resilient:
            o, c = run_lines_resilient(exe, prefix + ch, **kw)
        else:
            r = run_lines(exe, prefix + ch, **kw)
            o = r.outputs + [None] * (len(prefix) + len(ch) - len(r.outputs))
            c = [(r.crashed_at, r.returncode, r.stderr)] if r.crashed_at is not None else []
        return o[len(prefix):], [(i - len(prefix), rc, err) for (i, rc, err) in c]

    res = parallel_map(work, bins)
    outs = [None] * len(lines)
    crashes = []
    for (o, c), idxs in zip(res, bins):
        for j, i in enumerate(idxs):
            outs[i] = o[j] if j < len(o) else None
        for (j, rc, err) in c:
            crashes.append((idxs[j] if 0 <= j < len(idxs) else idxs[0], rc, err))
    crashes.sort(key=lambda t: t[0])
    return outs, crashes


def hexs(b):
    if isinstance(b, str):
        b = b.encode("latin-1")
    return b.hex() if b else "-"


# ---------------------------------------------------------------------------
# Lean side
# ---------------------------------------------------------------------------

def gen_tables():
    from . import gen_tables as g
    return g.generate()


def lake(args, timeout=3600):
    with Lock("lake"):
        r = subprocess.run(["lake"] + args, cwd=LEAN_DIR, stdout=subprocess.PIPE, stderr=subprocess.STDOUT,
                           text=True, timeout=timeout)
    return r.returncode, r.stdout


def driver():
    """Build (incrementally) and return the compiled model driver."""
    gen_tables()
    rc, out = lake(["build", "edn_driver"])
    if rc != 0:
        raise BuildError("lake build edn_driver failed:\n" + out[-6000:])
    return os.path.join(LEAN_DIR, ".lake", "build", "bin", "edn_driver")


ALLOWED_AXIOMS = {"propext", "Classical.choice", "Quot.sound"}
FORBIDDEN_TOKENS = ["sorry", "admit", "native_decide", "bv_decide", "implemented_by", "unsafe ",
                    "maxHeartbeats 0", "axiom "]


def strip_lean_comments(src):
    out = []
    i = 0
    depth = 0
    n = len(src)
    while i < n:
        if src.startswith("/-", i):
            depth += 1
            i += 2
            continue
        if depth and src.startswith("-/", i):
            depth -= 1
            i += 2
            continue
        if depth:
            i += 1
            continue
        if src.startswith("--", i):
            j = src.find("\n", i)
            i = n if j < 0 else j
            continue
        out.append(src[i])
        i += 1
    return "".join(out)


def lean_sources():
    res = []
    for root, _, files in os.walk(os.path.join(LEAN_DIR, "Edn")):
        for f in files:
            if f.endswith(".lean"):
                res.append(os.path.join(root, f))
    res.append(os.path.join(LEAN_DIR, "Main.lean"))
    return sorted(res)


def import_closure(module):
    """Files of this project that `module` (e.g. Edn.Properties.C12) transitively imports."""
    seen, todo, files = set(), [module], []
    while todo:
        m = todo.pop()
        if m in seen or not m.startswith("Edn"):
            continue
        seen.add(m)
        path = os.path.join(LEAN_DIR, *m.split(".")) + ".lean"
        if not os.path.exists(path):
            continue
        files.append(path)
        for line in strip_lean_comments(open(path).read()).split("\n"):
            line = line.strip()
            if line.startswith("import "):
                todo.extend(line.split()[1:])
    return sorted(files)


def forbidden_scan(module=None):
    hits = []
    files = import_closure(module) if module else lean_sources()
    for p in files:
        src = strip_lean_comments(open(p).read())
        for tok in FORBIDDEN_TOKENS:
            if tok == "axiom ":
                for line in src.split("\n"):
                    if line.strip().startswith("axiom "):
                        hits.append((os.path.relpath(p, LEAN_DIR), "axiom"))
                continue
            if tok in src:
                hits.append((os.path.relpath(p, LEAN_DIR), tok.strip()))
    return hits


def headline_theorems(pid):
    """Names of the theorems stated in Edn/Properties/<pid>.lean."""
    p = os.path.join(LEAN_DIR, "Edn", "Properties", pid + ".lean")
    names = []
    ns = []
    for line in strip_lean_comments(open(p).read()).split("\n"):
        s = line.strip()
        if s.startswith("namespace "):
            ns.append(s.split()[1])
        elif s.startswith("end ") and ns and s.split()[1] == ns[-1]:
            ns.pop()
        elif s.startswith("theorem "):
            nm = s.split()[1].split("(")[0].split(":")[0].strip()
            names.append(".".join(ns + [nm]))
    return names


def lean_obligations(pid):
    """Build the property module, audit axioms.  Returns dict with obligations,
    discharged, failures (list of strings), axioms (name -> list)."""
    gen_tables()
    res = {"obligations": 0, "discharged": 0, "failures": [], "axioms": {}, "theorems": []}
    try:
        names = headline_theorems(pid)
    except FileNotFoundError:
        res["failures"].append("no Properties/%s.lean" % pid)
        return res
    res["theorems"] = names
    res["obligations"] = len(names)
    rc, out = lake(["build", "Edn.Properties." + pid])
    if rc != 0:
        res["failures"].append("lake build Edn.Properties.%s failed:\n%s" % (pid, out[-5000:]))
        # which theorems fail? Try to name them from the error output
        res["build_log"] = out[-8000:]
        return res
    for path, tok in forbidden_scan("Edn.Properties." + pid):
        res["failures"].append("forbidden token '%s' in %s" % (tok, path))
    audit = os.path.join(build_dir(), "Audit_%s.lean" % pid)
    with open(audit, "w") as fh:
        fh.write("import Edn.Properties.%s\n" % pid)
        for nm in names:
            fh.write("#print axioms %s\n" % nm)
    with Lock("lake"):
        r = subprocess.run(["lake", "env", "lean", audit], cwd=LEAN_DIR, stdout=subprocess.PIPE,
                           stderr=subprocess.STDOUT, text=True)
    txt = r.stdout
    if r.returncode != 0:
        res["failures"].append("axiom audit failed:\n" + txt[-3000:])
        return res
    # parse "'name' depends on axioms: [a, b]" / "'name' does not depend on any axioms"
    import re
    flat = txt.replace("\n", " ")
    for nm in names:
        m = re.search(r"'%s' depends on axioms: \[([^\]]*)\]" % re.escape(nm), flat)
        if m:
            axs = [a.strip() for a in m.group(1).split(",") if a.strip()]
        elif re.search(r"'%s' does not depend on any axioms" % re.escape(nm), flat):
            axs = []
        else:
            res["failures"].append("no axiom report for %s" % nm)
            continue
        res["axioms"][nm] = axs
        bad = [a for a in axs if a not in ALLOWED_AXIOMS]
        if bad:
            res["failures"].append("theorem %s depends on disallowed axioms %s" % (nm, bad))
        else:
            res["discharged"] += 1
    return res


def leanchecker(pid):
    with Lock("lake"):
        r = subprocess.run(["lake", "env", "leanchecker", "Edn.Properties." + pid], cwd=LEAN_DIR,
                           stdout=subprocess.PIPE, stderr=subprocess.STDOUT, text=True)
    return r.returncode, r.stdout[-2000:]


# ---------------------------------------------------------------------------
# findings, violations, evidence
# ---------------------------------------------------------------------------

def load_known():
    try:
        return json.load(open(KNOWN_FINDINGS))
    except FileNotFoundError:
        return {"findings": [], "fixed": []}


class Report:
    """Collects what a check run found and writes evidence / replay files."""

    def __init__(self, pid, tier, level):
        self.pid = pid
        self.tier = tier
        self.level = level
        self.t0 = time.time()
        self.violations = []     # (class_key, description, replay_dict)
        self.known_seen = []
        self.coverage = {"evaluations": 0, "distinct_nontrivial": 0, "samples": [], "rule": ""}
        self.assumptions = []
        self._distinct = set()
        self.known = load_known()
        self.hist = {}

    def count(self, key, n=1):
        self.hist[key] = self.hist.get(key, 0) + n

    def note_case(self, case_repr, nontrivial=True, trace=None):
        self.coverage["evaluations"] += 1
        if nontrivial:
            self._distinct.add(sha(trace if trace is not None else case_repr)[:16])
        if len(self.coverage["samples"]) < 12 and (self.coverage["evaluations"] % 97 == 1):
            self.coverage["samples"].append(case_repr if len(str(case_repr)) < 400 else str(case_repr)[:400] + "...")

    def note_cases(self, n, distinct_keys, sample=None):
        self.coverage["evaluations"] += n
        for k in distinct_keys:
            self._distinct.add(k)
        if sample is not None and len(self.coverage["samples"]) < 12:
            self.coverage["samples"].append(sample)

    def finding(self, class_key, description, replay):
        """A concrete failing case on the real code.  Known class -> KNOWN-FINDING."""
        for k in self.known.get("findings", []):
            if k.get("property") == self.pid and k.get("class") == class_key:
                if class_key not in [c for c, _ in self.known_seen]:
                    self.known_seen.append((class_key, k.get("what_fails", description)))
                return False
        # only keep the first violation per class
        if class_key not in [c for c, _, _ in self.violations]:
            self.violations.append((class_key, description, replay))
        return True

    def broken_obligation(self, what, detail, found_input=False, extra=None):
        # at most three witnesses per obligation / correspondence stream
        if sum(1 for c, _, _ in self.violations if c == "obligation/" + what) >= 3:
            return
        rp = {"kind": "proof-or-correspondence", "what": what, "detail": detail, "no_failing_input_found": not found_input}
        if extra:
            rp.update(extra)
        self.violations.append(("obligation/" + what, detail, rp))

    def finish(self, extra_cov=None, exit_now=True):
        os.makedirs(EVIDENCE_DIR, exist_ok=True)
        os.makedirs(REPLAY_DIR, exist_ok=True)
        cov = dict(self.coverage)
        if not cov.get("rule"):
            cov["rule"] = ("obligations = headline theorems of lean/Edn/Properties/%s.lean, discharged = those that build and depend only on the allowed axioms. "
                           "evaluations = protocol lines (documents, operation scripts, helper calls, fault schedules) generated from VERIF_SEED by vlib/props/%s.py "
                           "(finite families enumerated completely, the rest drawn from the structured generators of vlib/gen.py) and sent to the real library; every one is "
                           "compared with the Lean model's answer and/or the oracle's expectation. distinct_nontrivial = number of distinct cases by SHA-256 of the case text "
                           "(a case is non-trivial when it reached the library and its output took part in a comparison; duplicates produced by the generators count once)."
                           % (self.pid, self.pid.lower()))
        cov["distinct_nontrivial"] = len(self._distinct)
        cov["histogram"] = dict(sorted(self.hist.items()))
        cov["known_findings_seen"] = [c for c, _ in self.known_seen]
        if extra_cov:
            cov.update(extra_cov)
        lines = []
        for cls, what in self.known_seen:
            lines.append("KNOWN-FINDING: property=%s %s [%s]" % (self.pid, what, cls))
        nviol = 0
        for cls, desc, replay in self.violations:
            nviol += 1
            rid = sha(json.dumps(replay, sort_keys=True, default=str))[:12]
            path = os.path.join(REPLAY_DIR, "%s-%s.json" % (self.pid, rid))
            body = {"property": self.pid, "class": cls, "description": desc, "seed": seed(), "tier": self.tier,
                    "repo": REPO}
            body.update(replay if isinstance(replay, dict) else {"replay": replay})
            with open(path, "w") as fh:
                json.dump(body, fh, indent=1, default=str)
            suffix = " no-failing-input-found" if (isinstance(replay, dict) and replay.get("no_failing_input_found")) else ""
            lines.append("VIOLATION property=%s replay=%s%s" % (self.pid, path, suffix))
        ev = {"property_id": self.pid, "tier": self.tier, "seed": seed(), "level": self.level, "coverage": cov,
              "assumptions": self.assumptions, "wall_s": round(time.time() - self.t0, 2), "violations": nviol}
        with open(os.path.join(EVIDENCE_DIR, self.pid + ".json"), "w") as fh:
            json.dump(ev, fh, indent=1, default=str)
        for l in lines:
            print(l, flush=True)
        if nviol == 0:
            print("OK property=%s tier=%s evaluations=%d distinct=%d wall=%.1fs" % (
                self.pid, self.tier, cov["evaluations"], cov["distinct_nontrivial"], time.time() - self.t0), flush=True)
        if exit_now:
            sys.exit(1 if nviol else 0)
        return nviol
