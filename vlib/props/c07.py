"""C07 - equality is an equivalence consistent with hashing and free of history effects.

Lean: Edn.Properties.C07 (Eqv reflexive/symmetric/transitive on well-formed values, hash
congruence, equal = Eqv for every valid cache state, hashOp preserves cache validity).
Correspondence: operation scripts (read / hash / equal / lookup / string-get, on values and
sub-values) through the real library and the model.  Oracle: the generator knows which
values are equal (canonical form), so symmetry, transitivity, hash consistency and
history-independence are checked on the real library directly."""
import itertools
import json

from .. import common as C
from .. import corr as K
from .. import gen as G
from . import util as U

PID = "C07"


def variants(rng, v, cfg):
    """(variant, expected_equal) pairs"""
    out = [(v, True)]
    t = v[0]
    if t in ("list", "vec"):
        out.append((("vec" if t == "list" else "list", v[1]), True))
        if len(v[1]) >= 2:
            xs = list(v[1])
            xs[0], xs[-1] = xs[-1], xs[0]
            out.append(((t, xs), G.canon((t, xs)) == G.canon(v)))
            out.append(((t, v[1][:-1]), False))
    if t == "set" and len(v[1]) >= 2:
        xs = list(v[1])
        rng.shuffle(xs)
        out.append((("set", xs), True))
        out.append((("set", xs[:-1]), False))
    if t == "map" and len(v[1]) >= 2:
        xs = list(v[1])
        rng.shuffle(xs)
        out.append((("map", xs), True))
        k0, x0 = xs[0]
        xs2 = [(k0, ("kw", None, "zzz-changed"))] + xs[1:]
        out.append((("map", xs2), G.canon(("map", xs2)) == G.canon(v)))
    if t == "float" and float(v[1]) in (float("inf"), float("-inf")):
        pass  # the literal overflows: repr() of the value is not a literal
    elif t == "float":
        f = float(v[1])
        if f == 0:
            out.append((("float", "-0.0"), True))
            out.append((("float", "0.0"), True))
        else:
            out.append((("float", repr(f)), True))
            out.append((("float", repr(f * 2)), False))
    if t == "int":
        out.append((("int", v[1] + 1 if v[1] < 2 ** 63 - 1 else v[1] - 1), False))
        out.append((("float", "%d.0" % v[1]), False))
        out.append((("bigintN", v[1] < 0, str(abs(v[1]))), False))
    if t == "str":
        out.append((("str", v[1] + b"x"), False))
        out.append((("sym", None, "s"), False))
    if t == "symf" and v[1] == "NaN":
        out.append((("symf", "NaN"), True))
    if t == "tagged":
        out.append((("tagged", v[1] + "x", v[2]), False))
        out.append((v[2], False))
    if t in ("kw", "sym"):
        out.append(((t, v[1], v[2] + "x"), False))
        out.append((("kw" if t == "sym" else "sym", v[1], v[2]), False))
    return out


def one_leaf_changed(rng, v):
    """copy of v with one leaf replaced (False = could not)"""
    t = v[0]
    if t in ("list", "vec", "set") and v[1]:
        i = rng.randrange(len(v[1]))
        sub = one_leaf_changed(rng, v[1][i])
        if sub is None:
            return None
        xs = list(v[1])
        xs[i] = sub
        return (t, xs)
    if t == "map" and v[1]:
        i = rng.randrange(len(v[1]))
        k, x = v[1][i]
        sub = one_leaf_changed(rng, x)
        if sub is None:
            return None
        xs = list(v[1])
        xs[i] = (k, sub)
        return (t, xs)
    if t == "tagged":
        sub = one_leaf_changed(rng, v[2])
        return None if sub is None else (t, v[1], sub)
    if t == "int":
        return ("int", v[1] ^ 1)
    if t == "str":
        return ("str", v[1] + b"!")
    if t in ("kw", "sym"):
        return (t, v[1], v[2] + "q")
    if t == "bool":
        return ("bool", not v[1])
    if t == "nil":
        return ("bool", False)
    return None


def nest(v, depth, kind):
    for i in range(depth):
        k = kind[i % len(kind)]
        if k == "v":
            v = ("vec", [v])
        elif k == "l":
            v = ("list", [v])
        elif k == "s":
            v = ("set", [v])
        elif k == "m":
            v = ("map", [(("kw", None, "k"), v)])
        else:
            v = ("tagged", "t", v)
    return v


HISTORY_OPS = ["h:0", "h:1", "e:0:1", "e:1:0", "h:0.0", "h:1.0", "sg:0", "lk:0:1", "d:0", "sc:0:1"]


def run(tier):
    rep = C.Report(PID, tier, "proof")
    rng = C.rng(PID)
    lean = U.lean_part(rep, PID)
    found = False
    npool = 60 if tier == "quick" else 400
    for cfg in (["core", "both"] if tier == "quick" else ["core", "clj", "exp", "both"]):
        scripts, expects = [], []
        pool = []
        for _ in range(npool):
            v = G.gen_value(rng, cfg, depth=rng.choice([1, 2, 3]), width=3)
            pool.append(v)
        # near-miss variants, both orders, hashes; plain script = no history
        for v in pool:
            vs = variants(rng, v, cfg)
            lc = one_leaf_changed(rng, v)
            if lc is not None:
                vs.append((lc, G.canon(lc) == G.canon(v)))
            for w, eq in vs:
                a = G.render(rng, v, cfg, rich=False)
                b = G.render(rng, w, cfg, rich=rng.random() < 0.3)
                base = "Q r0=%s r1=%s" % (C.hexs(a), C.hexs(b))
                hists = [[]]
                hists += [[rng.choice(HISTORY_OPS) for _ in range(rng.randint(1, 4))] for _ in range(3)]
                for h in hists:
                    scripts.append(base + " " + " ".join(h + ["e:0:1", "e:1:0", "h:0", "h:1", "e:0:1", "e:1:0"]))
                    expects.append(("pair", eq, len(h), (a, b)))
        # literal twins (different spellings of one value; every flag-specific spelling incl. underscores) and near misses
        from . import c08 as C08
        text_pairs = [(a, b, True) for a, b in C08.twin_kinds(cfg)] + [(a, b, False) for a, b in C08.near_kinds(cfg)]
        # containers above the 16-element strategy cut-over whose members include distinct values with equal hashes, reordered
        fill = b" ".join(b"%d" % i for i in range(1, 16))
        for x, y in ((b":user/id", b":userid"), (b"a/bc", b"abc"), (b"{1 2, 3 4}", b"{1 4, 3 2}"), (b"[:a/bc]", b"[:abc]")):
            text_pairs.append((b"#{" + x + b" " + y + b" " + fill + b"}", b"#{" + y + b" " + x + b" " + fill + b"}", True))
            text_pairs.append((b"#{" + fill + b" " + x + b" " + y + b"}", b"#{" + y + b" " + fill + b" " + x + b"}", True))
            text_pairs.append((b"#{" + x + b" " + fill + b" 16 17}", b"#{" + y + b" " + fill + b" 16 17}", False))
            text_pairs.append((b"{" + x + b" 1 " + y + b" 2 " + b" ".join(b"%d %d" % (i, i) for i in range(1, 16)) + b"}",
                               b"{" + y + b" 2 " + b" ".join(b"%d %d" % (i, i) for i in range(1, 16)) + b" " + x + b" 1}", True))
        for a, b, eq in text_pairs:
            for h in ([], ["h:0"], ["h:1", "h:0"], ["e:0:1"]):
                scripts.append("Q r0=%s r1=%s %s" % (C.hexs(a), C.hexs(b), " ".join(h + ["e:0:1", "e:1:0", "h:0", "h:1", "e:0:1", "e:1:0"])))
                expects.append(("pair", eq, len(h), (a, b)))
        # fetching the text of a string (directly, or by walking the tree as a printer does) is not allowed to change what
        # equality and hashing say: plain and escaped spellings, alone and inside collections, fetched on either side
        for x, y, eq in ((b'"name"', b'"name"', True), (b'"name"', b'"other"', False), (b'"a\\nb"', b'"a\\nb"', True), (b'"a\\tb"', b'"a\tb"', True),
                         (b'""', b'""', True), (b'"x"', b'""', False), (b'"0123456789abcdef0123"', b'"0123456789abcdef0123"', True),
                         (b'"0123456789abcdef0123"', b'"0123456789abcdef0124"', False)):
            for wrap in (b"%s", b"[%s 1]", b"{%s 1}", b"#{%s}", b"{:k [%s]}"):
                a, b = wrap % x, wrap % y
                for h in (["d:0"], ["d:1"], ["d:0", "d:1"], ["d:0", "h:0"], ["h:0", "d:0"], ["e:0:1", "d:0"], ["d:0", "d:0"]) + ((["sg:0"], ["sg:1"], ["sg:0", "sg:1"]) if wrap == b"%s" else ()):
                    scripts.append("Q r0=%s r1=%s %s" % (C.hexs(a), C.hexs(b), " ".join(list(h) + ["e:0:1", "e:1:0", "h:0", "h:1", "e:0:1", "e:1:0"])))
                    expects.append(("pair", eq, len(h), (a, b)))
        # membership and lookup must give the answer equality gives (a container holding a, probed with w), for containers
        # below, at and above the element count where keys get hashed at read time, before and after hashing
        mpairs = [(G.render(rng, v, cfg, rich=False), G.render(rng, w, cfg, rich=False), eq) for v in pool for w, eq in variants(rng, v, cfg)]
        mpairs += text_pairs
        for a, b, eq in mpairs:
            for extra in (1, 15, 16):
                fl = [b":filler%d" % i for i in range(extra)]
                sdoc = b"#{" + a + b" " + b" ".join(fl) + b"}"
                mdoc = b"{" + a + b" 1 " + b" ".join(f + b" 0" for f in fl) + b"}"
                scripts.append("Q r0=%s r1=%s r2=%s r3=%s e:0:1 sc:2:1 ck:3:1 h:2 sc:2:1 ck:3:1 lk:3:1 h:3 lk:3:1 h:1 lk:3:1 ck:3:1" % (
                    C.hexs(a), C.hexs(b), C.hexs(sdoc), C.hexs(mdoc)))
                expects.append(("member", eq, 0, (a, b)))
        # exhaustive histories (up to 4 preceding calls over 6 operations) on a few pairs
        few = [(("list", [("int", 1), ("int", 2)]), ("vec", [("int", 1), ("int", 2)])),
               (("float", "0.0"), ("float", "-0.0")),
               (("set", [("int", i) for i in range(20)]), ("set", [("int", i) for i in reversed(range(20))])),
               (("map", [(("str", b"a\nb"), ("int", 1))]), ("map", [(("str", b"a\nb"), ("int", 2))])),
               (("vec", [("str", b"x\ty")]), ("list", [("str", b"x\ty")]))]
        ops6 = HISTORY_OPS[:6]
        maxh = 4 if tier == "thorough" else 3
        for va, vb in few:
            a = G.render(rng, va, cfg, rich=False)
            b = G.render(rng, vb, cfg, rich=False)
            eq = G.canon(va) == G.canon(vb)
            for n in range(0, maxh + 1):
                for h in itertools.product(ops6, repeat=n):
                    scripts.append("Q r0=%s r1=%s %s" % (C.hexs(a), C.hexs(b), " ".join(list(h) + ["e:0:1", "e:1:0", "h:0", "h:1", "e:0:1", "e:1:0"])))
                    expects.append(("pair", eq, n, (a, b)))
        # nesting up to 64 (and 100, the reader's limit): a copy is equal, one changed leaf is not
        for depth in (1, 8, 32, 64, 99):
            for kind in ("v", "l", "s", "m", "t", "vlsmt"):
                leaf = ("int", 7)
                va = nest(leaf, depth, kind)
                vb = nest(leaf, depth, kind)
                vc = nest(("int", 8), depth, kind)
                for w, eq in ((vb, True), (vc, False)):
                    a = G.render(rng, va, cfg, rich=False)
                    b = G.render(rng, w, cfg, rich=False)
                    scripts.append("Q r0=%s r1=%s e:0:1 e:1:0 h:0 h:1 e:0:1 e:1:0" % (C.hexs(a), C.hexs(b)))
                    expects.append(("pair", eq, 0, (a, b)))
        # triples for transitivity
        for _ in range(npool):
            v = rng.choice(pool)
            vs = [w for w, _ in variants(rng, v, cfg)]
            if len(vs) < 3:
                continue
            x, y, z = rng.sample(vs, 3) if len(vs) >= 3 else (vs[0], vs[0], vs[0])
            tx = [C.hexs(G.render(rng, q, cfg, rich=False)) for q in (x, y, z)]
            scripts.append("Q r0=%s r1=%s r2=%s e:0:1 e:1:2 e:0:2 h:0 h:1 h:2 e:0:1 e:1:2 e:0:2" % tuple(tx))
            expects.append(("triple", (G.canon(x) == G.canon(y), G.canon(y) == G.canon(z), G.canon(x) == G.canon(z)), 0, tx))

        impl, model, diffs, crashes, mcr = K.correspond(cfg, scripts)
        rep.count("scripts/" + cfg, len(scripts))
        for idx, rc, err in crashes:
            found = True
            rep.finding("crash", "equality/hash script crashed", {"kind": "script", "config": cfg, "line": scripts[idx], "stderr": err[:3000]})
        for i in diffs[:5]:
            rep.broken_obligation("correspondence/script", "model %r vs code %r on %s" % (model[i], impl[i], scripts[i][:400]), False)
        for i, (out, exp) in enumerate(zip(impl, expects)):
            if out is None:
                continue
            toks = out.split("\t")
            kind, eq, nh, what = exp
            if kind == "member":
                if toks[:4] != ["ok", "ok", "ok", "ok"]:
                    continue
                e01, sc1, ck1, _h, sc2, ck2, lk1, _h3, lk2, _h1, lk3, ck3 = toks[4:16]
                want = "1" if eq else "0"
                wlk = "(int 1)" if eq else "none"
                if not (e01 == sc1 == ck1 == sc2 == ck2 == ck3 == want and lk1 == lk2 == lk3 == wlk):
                    found = True
                    rep.finding("algebra/membership-disagrees", "equal=%s set-contains=%s/%s contains-key=%s/%s/%s lookup=%s/%s/%s, expected %s" % (e01, sc1, sc2, ck1, ck2, ck3, lk1, lk2, lk3, want),
                                {"kind": "script", "config": cfg, "line": scripts[i], "observed": out, "a": what[0].decode("latin-1"), "b": what[1].decode("latin-1")})
                continue
            if kind == "pair":
                if not (toks[0] == "ok" and toks[1] == "ok"):
                    continue  # one of the documents was not accepted (e.g. nesting limit)
                tail = toks[2 + nh:]
                e01, e10, h0, h1, e01b, e10b = tail[:6]
                problems = []
                if e01 != e10 or e01b != e10b:
                    problems.append("asymmetric")
                if e01 != ("1" if eq else "0"):
                    problems.append("equality answer %s, expected %s" % (e01, "1" if eq else "0"))
                if e01b != e01 or e10b != e10:
                    problems.append("answer changed after hashing")
                if e01 == "1" and h0 != h1:
                    problems.append("equal values hash differently")
                if problems:
                    found = True
                    rep.finding("algebra/" + problems[0].split(",")[0].replace(" ", "-")[:40], "; ".join(problems),
                                {"kind": "script", "config": cfg, "line": scripts[i], "observed": out, "a": what[0].decode("latin-1"), "b": what[1].decode("latin-1")})
            else:
                if toks[:3] != ["ok", "ok", "ok"]:
                    continue
                e = toks[3:6]
                e2 = toks[9:12]
                want = ["1" if x else "0" for x in eq]
                if e != want or e2 != want:
                    found = True
                    rep.finding("algebra/triple", "triple answers %s / %s, expected %s" % (e, e2, want),
                                {"kind": "script", "config": cfg, "line": scripts[i], "observed": out})
                if e[0] == "1" and e[1] == "1" and e[2] != "1":
                    found = True
                    rep.finding("algebra/intransitive", "not transitive", {"kind": "script", "config": cfg, "line": scripts[i], "observed": out})
        rep.note_cases(len(scripts), set(C.sha(s)[:16] for s in scripts), sample={"script": scripts[0][:300], "result": impl[0]})
    U.finish_proof(rep, lean, found)


def replay(path):
    r = json.load(open(path))
    print(json.dumps(r, indent=1)[:3000])
    if r.get("kind") == "script":
        exe = C.harness("unity", r["config"], "san")
        out = C.run_lines(exe, [r["line"]])
        print("now:", out.outputs)
        return 0
    return 1
