"""C07 - equality is an equivalence consistent with hashing and free of history effects.

Lean: Edn.Properties.C07 (Eqv reflexive/symmetric/transitive on well-formed values, hash
congruence, equal = Eqv for every valid cache state, hashOp preserves cache validity).
Correspondence: operation scripts (read / hash / equal / lookup / string-get, on values and
sub-values) through the real library and the model.  Oracle: the generator knows which
values are equal (canonical form), so symmetry, transitivity, hash consistency and
history-independence are checked on the real library directly."""
import itertools
import json

from .. import common as C
from .. import corr as K
from .. import gen as G
from . import util as U

PID = "C07"


def variants(rng, v, cfg):
    """(variant, expected_equal) pairs"""
    out = [(v, True)]
    t = v[0]
    if t in ("list", "vec"):
        out.append((("vec" if t == "list" else "list", v[1]), True))
        if len(v[1]) >= 2:
            xs = list(v[1])
            xs[0], xs[-1] = xs[-1], xs[0]
            out.append(((t, xs), G.canon((t, xs)) == G.canon(v)))
            out.append(((t, v[1][:-1]), False))
    if t == "set" and len(v[1]) >= 2:
        xs = list(v[1])
        rng.shuffle(xs)
        out.append((("set", xs), True))
        out.append((("set", xs[:-1]), False))
    if t == "map" and len(v[1]) >= 2:
        xs = list(v[1])
        rng.shuffle(xs)
        out.append((("map", xs), True))
        k0, x0 = xs[0]
        xs2 = [(k0, ("kw", None, "zzz-changed"))] + xs[1:]
        out.append((("map", xs2), G.canon(("map", xs2)) == G.canon(v)))
    if t == "float" and float(v[1]) in (float("inf"), float("-inf")):
        pass  # the literal overflows: repr() of the value is not a literal
    elif t == "float":
        f = float(v[1])
        if f == 0:
            out.append((("float", "-0.0"), True))
            out.append((("float", "0.0"), True))
        else:
            out.append((("float", repr(f)), True))
            out.append((("float", repr(f * 2)), False))
    if t == "int":
        out.append((("int", v[1] + 1 if v[1] < 2 ** 63 - 1 else v[1] - 1), False))
        out.append((("float", "%d.0" % v[1]), False))
        out.append((("bigintN", v[1] < 0, str(abs(v[1]))), False))
    if t == "str":
        out.append((("str", v[1] + b"x"), False))
        out.append((("sym", None, "s"), False))
    if t == "symf" and v[1] == "NaN":
        out.append((("symf", "NaN"), True))
    if t == "tagged":
        out.append((("tagged", v[1] + "x", v[2]), False))
        out.append((v[2], False))
    if t in ("kw", "sym"):
        out.append(((t, v[1], v[2] + "x"), False))
        out.append((("kw" if t == "sym" else "sym", v[1], v[2]), False))
    return out


def one_leaf_changed(rng, v):
    """copy of v with one leaf replaced (False = could not)"""
    t = v[0]
    if t in ("list", "vec", "set") and v[1]:
        i = rng.randrange(len(v[1]))
        sub = one_leaf_changed(rng, v[1][i])
        if sub is None:
            return None
        xs = list(v[1])
        xs[i] = sub
        return (t, xs)
    if t == "map" and v[1]:
        i = rng.randrange(len(v[1]))
        k, x = v[1][i]
        sub = one_leaf_changed(rng, x)
        if sub is None:
            return None
        xs = list(v[1])
        xs[i] = (k, sub)
        return (t, xs)
    if t == "tagged":
        sub = one_leaf_changed(rng, v[2])
        return None if sub is None else (t, v[1], sub)
    if t == "int":
        return ("int", v[1] ^ 1)
    if t == "str":
        return ("str", v[1] + b"!")
    if t in ("kw", "sym"):
        return (t, v[1], v[2] + "q")
    if t == "bool":
        return ("bool", not v[1])
    if t == "nil":
        return ("bool", False)
    return None


def nest(v, depth, kind):
    for i in range(depth):
        k = kind[i % len(kind)]
        if k == "v":
            v = ("vec", [v])
        elif k == "l":
            v = ("list", [v])
        elif k == "s":
            v = ("set", [v])
        elif k == "m":
            v = ("map", [(("kw", None, "k"), v)])
        else:
            v = ("tagged", "t", v)
    return v


HISTORY_OPS = ["h:0", "h:1", "e:0:1", "e:1:0", "h:0.0", "h:1.0", "sg:0", "lk:0:1", "d:0", "sc:0:1"]

# groups of pairwise DIFFERENT values that the library gives one hash (namespace and name bytes of an identifier are hashed back to
# back; the entry hashes of a map and the element hashes of a set are XOR-combined; list and vector are seeded alike).  Nothing below
# relies on the hashes being equal: only equality, membership and lookup answers are demanded; the collisions are what makes any
# strategy that matches members up by hash (sorting, bucketing) go wrong when the members come in a different relative order.
COLLIDERS = [
    [b":a/bc", b":ab/c"], [b":user/id", b":userid"], [b"a/bc", b"ab/c", b"abc"], [b":p/qrs", b":pq/rs", b":pqr/s", b":pqrs"],
    [b"{1 :a 2 :b}", b"{1 :b 2 :a}"], [b"{:k [1] :l [2] :m 3}", b"{:l [1] :k [2] :m 3}"], [b"[:a/bc 7]", b"(:ab/c 7)"],
    [b"#t :a/bc", b"#t :ab/c"], [b"#{:a/bc 5}", b"#{5 :ab/c}"], [b"[[a/bc]]", b"[[abc]]"],
]


def big_collection_pairs(rng, sizes, nshuffle):
    """(text a, text b, equal?, family) : sets and maps of `sizes` members (above the cut-over where the reader's duplicate check,
    and possibly equality, switch to a hash-based strategy) that contain a group of different members with one hash, written in
    different relative orders; with near misses of the same size (and of the same hash)."""
    out = []

    def S(xs):
        return b"#{" + b" ".join(xs) + b"}"

    for g in COLLIDERS:
        kv = dict((x, b"%d" % (100 + i)) for i, x in enumerate(g))

        def MK(xs, swap=False):  # group members are keys
            d = dict(kv)
            if swap:
                d[g[0]], d[g[1]] = d[g[1]], d[g[0]]
            return b"{" + b", ".join(x + b" " + d.get(x, x) for x in xs) + b"}"

        for n in sizes:
            F = [b"%d" % i for i in range(1, n - len(g) + 1)]
            spare = b"%d" % (n + 7)
            mid = len(F) // 2
            front, back = g + F, F + g
            inter = [g[0]] + F[:mid] + g[1:] + F[mid:]
            orders = [(front, g[::-1] + F, "swap-only"), (back, g[1:] + g[:1] + F, "moved"), (inter, back[::-1], "reversed")]
            for _ in range(nshuffle):
                x, y = list(inter), list(inter)
                rng.shuffle(x)
                rng.shuffle(y)
                orders.append((x, y, "shuffled"))
            for x, y, how in orders:
                out.append((S(x), S(y), True, "set/" + how))
                out.append((MK(x), MK(y), True, "map-keys/" + how))
                # group members as the values of integer keys (the i-th member of x under key i)
                vals = dict((b"%d" % (i + 1), m) for i, m in enumerate(front))
                order_y = [b"%d" % (front.index(m) + 1) for m in y]
                order_x = [b"%d" % (front.index(m) + 1) for m in x]
                out.append((b"{" + b" ".join(k + b" " + vals[k] for k in order_x) + b"}", b"{" + b" ".join(k + b" " + vals[k] for k in order_y) + b"}", True, "map-values/" + how))
            # near misses with the same number of members
            out.append((S(front), S(g[:-1] + F + [spare]), False, "set/one-member-replaced"))
            F1 = [b"%d" % i for i in range(1, n)]
            out.append((S([g[0]] + F1), S(F1 + [g[1]]), False, "set/member-replaced-by-same-hash"))
            out.append((MK(front), MK(g[::-1] + F, swap=True), False, "map-keys/values-of-same-hash-keys-swapped"))
            out.append((MK([g[0]] + F1), MK(F1 + [g[1]], swap=True), False, "map-keys/key-replaced-by-same-hash"))
            out.append((b"{" + b" ".join(b"%d %s" % (i + 1, m) for i, m in enumerate(front)) + b"}",
                        b"{" + b" ".join(b"%d %s" % (i + 1, m) for i, m in enumerate(g[::-1] + F)) + b"}", False, "map-values/same-hash-values-swapped"))
    return out


def _hx(b):
    return C.hexs(b)


def convenience_scripts(rng, cfg, sizes, nrandom):
    """(script, probes, nreads, what, family): the convenience lookups (keyword / namespaced keyword / string key) and edn_string_equals as
    part of the history-independence statement.  A map of n entries (below, at and above the size where the reader hashes the keys)
    holds one target key (plain keyword, namespaced keyword, string; first, middle, last) next to keys of every kind, among them
    different keys with the target's hash.  The same probes are asked on the fresh map, after a history of hash / equal / lookup /
    string-get calls, after hashing the stored key itself and after hashing the map: the target's value every time, and `none` every
    time for a key that is not there.  probes = [(operation index, expected output or None = the answer of the first time this probe
    was asked)]."""
    out = []
    # (kind, stored text, probe op for map register 0, texts of different keys that hash like it, their probe ops)
    targets = [
        ("keyword", b":nsk", "gk:0:" + _hx(b"nsk"), [b":ns/k", b":n/sk"]),
        ("keyword", b":plain", "gk:0:" + _hx(b"plain"), [b":pla/in", b"\"plain\""]),
        ("namespaced-keyword", b":ns/k", "gn:0:%s:%s" % (_hx(b"ns"), _hx(b"k")), [b":nsk", b":n/sk"]),
        ("namespaced-keyword", b":user.name/first-name", "gn:0:%s:%s" % (_hx(b"user.name"), _hx(b"first-name")), [b":user.namefirst-name", b":user.name/first-nam"]),
        ("namespaced-keyword", b":a/bc", "gn:0:%s:%s" % (_hx(b"a"), _hx(b"bc")), [b":ab/c", b":abc"]),
        ("string", b"\"nsk\"", "gs:0:" + _hx(b"nsk"), [b":nsk", b"\"ns/k\""]),
        ("string", b"\"a b, c\"", "gs:0:" + _hx(b"a b, c"), [b"\"a b,c\"", b"\"a b, c \""]),
    ]
    absent = {b":ns/k": "gn:0:%s:%s" % (_hx(b"ns"), _hx(b"k")), b":n/sk": "gn:0:%s:%s" % (_hx(b"n"), _hx(b"sk")), b":nsk": "gk:0:" + _hx(b"nsk"),
              b":pla/in": "gn:0:%s:%s" % (_hx(b"pla"), _hx(b"in")), b"\"plain\"": "gs:0:" + _hx(b"plain"),
              b":user.namefirst-name": "gk:0:" + _hx(b"user.namefirst-name"), b":user.name/first-nam": "gn:0:%s:%s" % (_hx(b"user.name"), _hx(b"first-nam")),
              b":ab/c": "gn:0:%s:%s" % (_hx(b"ab"), _hx(b"c")), b":abc": "gk:0:" + _hx(b"abc"), b"\"ns/k\"": "gs:0:" + _hx(b"ns/k"),
              b"\"a b,c\"": "gs:0:" + _hx(b"a b,c"), b"\"a b, c \"": "gs:0:" + _hx(b"a b, c ")}

    def filler(i):
        return [b":f%d" % i, b":g%d/f" % i, b"\"s%d\"" % i, b"%d" % i, b"f%d" % i, b":g/f%d" % i][i % 6]

    for n in sizes:
        for kind, tkey, tprobe, twins in targets:
            for pos in sorted(set([0, n // 2, n - 1])):
                for present_twins in ((0, 1) if n >= 3 else (0,)):
                    # the other keys: fillers of every kind; optionally the first different key of equal hash is in the map too
                    others = [filler(i) for i in range(n - 1)]
                    if present_twins:
                        others[(pos + 1) % (n - 1)] = twins[0]
                    keys = others[:pos] + [tkey] + others[pos:]
                    val = dict((k, b"%d" % (100 + i)) for i, k in enumerate(keys))
                    doc = b"{" + b" ".join(k + b" " + val[k] for k in keys) + b"}"
                    perm = list(keys)
                    rng.shuffle(perm)
                    doc2 = b"{" + b", ".join(k + b" " + val[k] for k in perm) + b"}"
                    want = "(int %s)" % val[tkey].decode()
                    probes = [(tprobe, want), ("lk:0:2", want), ("ck:0:2", "1")]
                    for tw in twins:
                        probes.append((absent[tw], "(int %s)" % val[tw].decode() if tw in val else "none"))
                    tk, tv = "0.%d" % (2 * pos), "0.%d" % (2 * pos + 1)
                    allkeys = ["h:0.%d" % (2 * i) for i in range(n)]
                    hists = [[], ["h:0"], ["h:" + tk], ["h:" + tv], allkeys, ["lk:0:2"], ["ck:0:2"], ["e:0:1"], ["e:1:0", "h:1"], ["e:%s:2" % tk], ["h:2", "e:2:" + tk],
                             ["h:2", "lk:0:2"], [tprobe, tprobe], ["sg:" + tk], ["h:0", "h:" + tk, "h:2"], ["lk:1:2", "h:1.%d" % (2 * perm.index(tkey))]]
                    pool = hists[1:] and [op for h in hists[1:] for op in h]
                    for _ in range(nrandom):
                        hists.append([rng.choice(pool) for _ in range(rng.randint(2, 5))])
                    for h in hists:
                        ops, pr = ["r0=" + _hx(doc), "r1=" + _hx(doc2), "r2=" + _hx(tkey)], []
                        for stage in (h, ["h:" + tk], ["h:0"], None):
                            for p, w in probes:
                                pr.append((len(ops), w))
                                ops.append(p)
                            if stage is not None:
                                ops += stage
                        out.append(("Q " + " ".join(ops), pr, 3, "%s key %s at %d of %d%s" % (kind, tkey.decode(), pos, n, ", with a different key of the same hash" if present_twins else ""),
                                    "%s/%s-entries" % (kind, "over-16" if n > 16 else "up-to-16")))
    # the reader-made keys of a namespaced map (Clojure option) and escaped spellings: only `the same answer every time` is demanded
    soft = [(b"{\"a\\nb\" 1 :k 2}", "gs:0:" + _hx(b"a\nb"), "0.0"), (b"{\"tab\\there\" 1}", "gs:0:" + _hx(b"tab\there"), "0.0")]
    if cfg in ("clj", "both"):
        soft += [(b"#:ns{:k 1 :other/x 2 :_/y 3}", "gn:0:%s:%s" % (_hx(b"ns"), _hx(b"k")), "0.0"), (b"#:ns{:a 1 :k 2}", "gn:0:%s:%s" % (_hx(b"ns"), _hx(b"k")), "0.2"),
                 (b"#:ns{" + b" ".join(b":k%d %d" % (i, i) for i in range(20)) + b"}", "gn:0:%s:%s" % (_hx(b"ns"), _hx(b"k7")), "0.14")]
    for doc, probe, tk in soft:
        for h in ([], ["h:0"], ["h:" + tk], ["sg:" + tk], ["h:" + tk, "h:0"], ["e:0:1"], ["lk:0:1." + tk[2:]], ["h:1", "e:1:0", "h:" + tk]):
            ops = ["r0=" + _hx(doc), "r1=" + _hx(doc), probe] + list(h) + [probe, "h:" + tk, probe, "h:0", probe]
            pr = [(i, None) for i, o in enumerate(ops) if o == probe]
            out.append(("Q " + " ".join(ops), pr, 2, "lookup %s in %s" % (probe, doc.decode("latin-1")), "same-answer-every-time"))
    # edn_string_equals before and after hashing / fetching / comparing the string
    strs = [(b"\"name\"", b"name", "1"), (b"\"name\"", b"nam", "0"), (b"\"name\"", b"name2", "0"), (b"\"\"", b"", "1"), (b"\"\"", b"x", "0"),
            (b"\"0123456789abcdef0123456789abcdef!\"", b"0123456789abcdef0123456789abcdef!", "1"), (b"\"0123456789abcdef0123456789abcdef!\"", b"0123456789abcdef0123456789abcdef?", "0"),
            (b"\"a\\nb\"", b"a\nb", None), (b"\"a\\nb\"", b"a\\nb", None), (b"\"q\\\\\"", b"q\\", None)]
    for sdoc, text, want in strs:
        for wrap, path in ((b"%s", "0"), (b"[1 %s]", "0.1"), (b"{%s 1}", "0.0"), (b"#{%s}", "0.0")):
            doc = wrap % sdoc
            probe = "se:%s:%s" % (path, _hx(text))
            for h in ([], ["h:" + path], ["sg:" + path], ["h:0"], ["e:0:1"], ["sg:" + path, "h:" + path], ["h:" + path, "sg:" + path], ["e:1:0", "h:1", "sg:1" + path[1:]]):
                ops = ["r0=" + _hx(doc), "r1=" + _hx(doc), probe] + list(h) + [probe, "sg:" + path, probe, "h:0", probe]
                pr = [(i, want) for i, o in enumerate(ops) if o == probe]
                out.append(("Q " + " ".join(ops), pr, 2, "edn_string_equals(%s, %r)" % (sdoc.decode("latin-1"), text.decode("latin-1")), "string-equals"))
    return out


def run(tier):
    rep = C.Report(PID, tier, "proof")
    rng = C.rng(PID)
    lean = U.lean_part(rep, PID)
    found = False
    npool = 60 if tier == "quick" else 400
    for cfg in (["core", "both"] if tier == "quick" else ["core", "clj", "exp", "both"]):
        scripts, expects = [], []
        pool = []
        for _ in range(npool):
            v = G.gen_value(rng, cfg, depth=rng.choice([1, 2, 3]), width=3)
            pool.append(v)
        # near-miss variants, both orders, hashes; plain script = no history
        for v in pool:
            vs = variants(rng, v, cfg)
            lc = one_leaf_changed(rng, v)
            if lc is not None:
                vs.append((lc, G.canon(lc) == G.canon(v)))
            for w, eq in vs:
                a = G.render(rng, v, cfg, rich=False)
                b = G.render(rng, w, cfg, rich=rng.random() < 0.3)
                base = "Q r0=%s r1=%s" % (C.hexs(a), C.hexs(b))
                hists = [[]]
                hists += [[rng.choice(HISTORY_OPS) for _ in range(rng.randint(1, 4))] for _ in range(3)]
                for h in hists:
                    scripts.append(base + " " + " ".join(h + ["e:0:1", "e:1:0", "h:0", "h:1", "e:0:1", "e:1:0"]))
                    expects.append(("pair", eq, len(h), (a, b)))
        # literal twins (different spellings of one value; every flag-specific spelling incl. underscores) and near misses
        from . import c08 as C08
        text_pairs = [(a, b, True) for a, b in C08.twin_kinds(cfg)] + [(a, b, False) for a, b in C08.near_kinds(cfg)]
        # containers above the 16-element strategy cut-over whose members include distinct values with equal hashes, reordered
        fill = b" ".join(b"%d" % i for i in range(1, 16))
        for x, y in ((b":user/id", b":userid"), (b"a/bc", b"abc"), (b"{1 2, 3 4}", b"{1 4, 3 2}"), (b"[:a/bc]", b"[:abc]")):
            text_pairs.append((b"#{" + x + b" " + y + b" " + fill + b"}", b"#{" + y + b" " + x + b" " + fill + b"}", True))
            text_pairs.append((b"#{" + fill + b" " + x + b" " + y + b"}", b"#{" + y + b" " + fill + b" " + x + b"}", True))
            text_pairs.append((b"#{" + x + b" " + fill + b" 16 17}", b"#{" + y + b" " + fill + b" 16 17}", False))
            text_pairs.append((b"{" + x + b" 1 " + y + b" 2 " + b" ".join(b"%d %d" % (i, i) for i in range(1, 16)) + b"}",
                               b"{" + y + b" 2 " + b" ".join(b"%d %d" % (i, i) for i in range(1, 16)) + b" " + x + b" 1}", True))
        big = big_collection_pairs(rng, (17, 18, 40) if tier == "quick" else (17, 18, 19, 32, 33, 40, 100), 1 if tier == "quick" else 4)
        for a, b, eq, fam in big:
            rep.count("big-collection-with-same-hash-members/%s/%s" % (fam, cfg))
            for h in ([], ["h:0"], ["h:1", "h:0"], ["e:0:1"], ["h:0.0", "h:1.1", "h:1.0"], ["e:0.0:1.0", "e:0.0:1.1", "e:0.1:1.0"]):
                scripts.append("Q r0=%s r1=%s %s" % (C.hexs(a), C.hexs(b), " ".join(h + ["e:0:1", "e:1:0", "h:0", "h:1", "e:0:1", "e:1:0"])))
                expects.append(("pair", eq, len(h), (a, b)))
        # ... and such collections as members themselves: inside a vector, as the key and the value of a map, as a set member
        for a, b, eq, fam in big:
            if not (fam.endswith("swap-only") or fam.endswith("swapped")) or len(a) > 200:
                continue
            for wrap in (b"[%s 1]", b"{%s 1}", b"{:k %s}", b"#{%s 1}", b"#t %s"):
                rep.count("big-collection-nested/%s" % cfg)
                for h in ([], ["h:0", "h:1"], ["h:0.0"]):
                    scripts.append("Q r0=%s r1=%s %s" % (C.hexs(wrap % a), C.hexs(wrap % b), " ".join(h + ["e:0:1", "e:1:0", "h:0", "h:1", "e:0:1", "e:1:0"])))
                    expects.append(("pair", eq, len(h), (wrap % a, wrap % b)))
        big_members = [(a, b, eq) for a, b, eq, fam in big if len(a) < 200 and ("shuffled" not in fam and "moved" not in fam)]
        # the convenience lookups and edn_string_equals, fresh and after every kind of earlier call
        conv = convenience_scripts(rng, cfg, (1, 2, 3, 16, 17, 40) if tier == "quick" else (1, 2, 3, 4, 8, 15, 16, 17, 18, 33, 40, 100), 2 if tier == "quick" else 8)
        for line, probes, nreads, what, fam in conv:
            rep.count("convenience-lookup-histories/%s/%s" % (fam, cfg))
            scripts.append(line)
            expects.append(("probe", probes, nreads, what))
        for a, b, eq in text_pairs:
            for h in ([], ["h:0"], ["h:1", "h:0"], ["e:0:1"]):
                scripts.append("Q r0=%s r1=%s %s" % (C.hexs(a), C.hexs(b), " ".join(h + ["e:0:1", "e:1:0", "h:0", "h:1", "e:0:1", "e:1:0"])))
                expects.append(("pair", eq, len(h), (a, b)))
        # fetching the text of a string (directly, or by walking the tree as a printer does) is not allowed to change what
        # equality and hashing say: plain and escaped spellings, alone and inside collections, fetched on either side
        for x, y, eq in ((b'"name"', b'"name"', True), (b'"name"', b'"other"', False), (b'"a\\nb"', b'"a\\nb"', True), (b'"a\\tb"', b'"a\tb"', True),
                         (b'""', b'""', True), (b'"x"', b'""', False), (b'"0123456789abcdef0123"', b'"0123456789abcdef0123"', True),
                         (b'"0123456789abcdef0123"', b'"0123456789abcdef0124"', False)):
            for wrap in (b"%s", b"[%s 1]", b"{%s 1}", b"#{%s}", b"{:k [%s]}"):
                a, b = wrap % x, wrap % y
                for h in (["d:0"], ["d:1"], ["d:0", "d:1"], ["d:0", "h:0"], ["h:0", "d:0"], ["e:0:1", "d:0"], ["d:0", "d:0"]) + ((["sg:0"], ["sg:1"], ["sg:0", "sg:1"]) if wrap == b"%s" else ()):
                    scripts.append("Q r0=%s r1=%s %s" % (C.hexs(a), C.hexs(b), " ".join(list(h) + ["e:0:1", "e:1:0", "h:0", "h:1", "e:0:1", "e:1:0"])))
                    expects.append(("pair", eq, len(h), (a, b)))
        # membership and lookup must give the answer equality gives (a container holding a, probed with w), for containers
        # below, at and above the element count where keys get hashed at read time, before and after hashing
        mpairs = [(G.render(rng, v, cfg, rich=False), G.render(rng, w, cfg, rich=False), eq) for v in pool for w, eq in variants(rng, v, cfg)]
        mpairs += text_pairs
        rep.count("membership-pairs/" + cfg, len(mpairs) + len(big_members))
        for a, b, eq, sizes in [(a, b, eq, (1, 15, 16)) for a, b, eq in mpairs] + [(a, b, eq, (1, 15, 16, 39)) for a, b, eq in big_members]:
            for extra in sizes:
                fl = [b":filler%d" % i for i in range(extra)]
                sdoc = b"#{" + a + b" " + b" ".join(fl) + b"}"
                mdoc = b"{" + a + b" 1 " + b" ".join(f + b" 0" for f in fl) + b"}"
                scripts.append("Q r0=%s r1=%s r2=%s r3=%s e:0:1 sc:2:1 ck:3:1 h:2 sc:2:1 ck:3:1 lk:3:1 h:3 lk:3:1 h:1 lk:3:1 ck:3:1" % (
                    C.hexs(a), C.hexs(b), C.hexs(sdoc), C.hexs(mdoc)))
                expects.append(("member", eq, 0, (a, b)))
        # exhaustive histories (up to 4 preceding calls over 6 operations) on a few pairs
        few = [(("list", [("int", 1), ("int", 2)]), ("vec", [("int", 1), ("int", 2)])),
               (("float", "0.0"), ("float", "-0.0")),
               (("set", [("int", i) for i in range(20)]), ("set", [("int", i) for i in reversed(range(20))])),
               (("map", [(("str", b"a\nb"), ("int", 1))]), ("map", [(("str", b"a\nb"), ("int", 2))])),
               (("vec", [("str", b"x\ty")]), ("list", [("str", b"x\ty")]))]
        ops6 = HISTORY_OPS[:6]
        maxh = 4 if tier == "thorough" else 3
        for va, vb in few:
            a = G.render(rng, va, cfg, rich=False)
            b = G.render(rng, vb, cfg, rich=False)
            eq = G.canon(va) == G.canon(vb)
            for n in range(0, maxh + 1):
                for h in itertools.product(ops6, repeat=n):
                    scripts.append("Q r0=%s r1=%s %s" % (C.hexs(a), C.hexs(b), " ".join(list(h) + ["e:0:1", "e:1:0", "h:0", "h:1", "e:0:1", "e:1:0"])))
                    expects.append(("pair", eq, n, (a, b)))
        # nesting up to 64 (and 100, the reader's limit): a copy is equal, one changed leaf is not
        for depth in (1, 8, 32, 64, 99):
            for kind in ("v", "l", "s", "m", "t", "vlsmt"):
                leaf = ("int", 7)
                va = nest(leaf, depth, kind)
                vb = nest(leaf, depth, kind)
                vc = nest(("int", 8), depth, kind)
                for w, eq in ((vb, True), (vc, False)):
                    a = G.render(rng, va, cfg, rich=False)
                    b = G.render(rng, w, cfg, rich=False)
                    scripts.append("Q r0=%s r1=%s e:0:1 e:1:0 h:0 h:1 e:0:1 e:1:0" % (C.hexs(a), C.hexs(b)))
                    expects.append(("pair", eq, 0, (a, b)))
        # triples for transitivity
        for _ in range(npool):
            v = rng.choice(pool)
            vs = [w for w, _ in variants(rng, v, cfg)]
            if len(vs) < 3:
                continue
            x, y, z = rng.sample(vs, 3) if len(vs) >= 3 else (vs[0], vs[0], vs[0])
            tx = [C.hexs(G.render(rng, q, cfg, rich=False)) for q in (x, y, z)]
            scripts.append("Q r0=%s r1=%s r2=%s e:0:1 e:1:2 e:0:2 h:0 h:1 h:2 e:0:1 e:1:2 e:0:2" % tuple(tx))
            expects.append(("triple", (G.canon(x) == G.canon(y), G.canon(y) == G.canon(z), G.canon(x) == G.canon(z)), 0, tx))

        impl, model, diffs, crashes, mcr = K.correspond(cfg, scripts)
        rep.count("scripts/" + cfg, len(scripts))
        for idx, rc, err in crashes:
            found = True
            rep.finding("crash", "equality/hash script crashed", {"kind": "script", "config": cfg, "line": scripts[idx], "stderr": err[:3000]})
        for i in diffs[:5]:
            rep.broken_obligation("correspondence/script", "model %r vs code %r on %s" % (model[i], impl[i], scripts[i][:400]), False)
        for i, (out, exp) in enumerate(zip(impl, expects)):
            if out is None:
                continue
            toks = out.split("\t")
            kind, eq, nh, what = exp
            if kind == "probe":
                probes, nreads = eq, nh
                if toks[:nreads] != ["ok"] * nreads:
                    continue
                ops = scripts[i].split(" ")[1:]
                first, bad = {}, []
                for ti, want in probes:
                    got = toks[ti] if ti < len(toks) else "?"
                    ref = first.setdefault(ops[ti], got) if want is None else want
                    if got != ref:
                        bad.append((ti, ops[ti], got, ref))
                if bad:
                    found = True
                    ti, op, got, ref = bad[0]
                    fresh = set(range(nreads, ti)) <= set(t2 for t2, _ in probes)  # nothing but probes was called before
                    rep.finding("algebra/lookup-wrong-on-fresh-value" if fresh else "algebra/lookup-depends-on-history",
                                "%s: operation %d (%s) answered %s, expected %s%s; %d of %d probes of this script are wrong" % (
                                    what, ti, op, got, ref, "" if fresh else " (after the calls " + " ".join(ops[nreads:ti]) + ")", len(bad), len(probes)),
                                {"kind": "script", "config": cfg, "line": scripts[i], "observed": out, "what": what})
                continue
            if kind == "member":
                if toks[:4] != ["ok", "ok", "ok", "ok"]:
                    continue
                e01, sc1, ck1, _h, sc2, ck2, lk1, _h3, lk2, _h1, lk3, ck3 = toks[4:16]
                want = "1" if eq else "0"
                wlk = "(int 1)" if eq else "none"
                if not (e01 == sc1 == ck1 == sc2 == ck2 == ck3 == want and lk1 == lk2 == lk3 == wlk):
                    found = True
                    rep.finding("algebra/membership-disagrees", "equal=%s set-contains=%s/%s contains-key=%s/%s/%s lookup=%s/%s/%s, expected %s" % (e01, sc1, sc2, ck1, ck2, ck3, lk1, lk2, lk3, want),
                                {"kind": "script", "config": cfg, "line": scripts[i], "observed": out, "a": what[0].decode("latin-1"), "b": what[1].decode("latin-1")})
                continue
            if kind == "pair":
                if not (toks[0] == "ok" and toks[1] == "ok"):
                    continue  # one of the documents was not accepted (e.g. nesting limit)
                tail = toks[2 + nh:]
                e01, e10, h0, h1, e01b, e10b = tail[:6]
                problems = []
                if e01 != e10 or e01b != e10b:
                    problems.append("asymmetric")
                if e01 != ("1" if eq else "0"):
                    problems.append("equality answer %s, expected %s" % (e01, "1" if eq else "0"))
                if e01b != e01 or e10b != e10:
                    problems.append("answer changed after hashing")
                if e01 == "1" and h0 != h1:
                    problems.append("equal values hash differently")
                if problems:
                    found = True
                    rep.finding("algebra/" + problems[0].split(",")[0].replace(" ", "-")[:40], "; ".join(problems),
                                {"kind": "script", "config": cfg, "line": scripts[i], "observed": out, "a": what[0].decode("latin-1"), "b": what[1].decode("latin-1")})
            else:
                if toks[:3] != ["ok", "ok", "ok"]:
                    continue
                e = toks[3:6]
                e2 = toks[9:12]
                want = ["1" if x else "0" for x in eq]
                if e != want or e2 != want:
                    found = True
                    rep.finding("algebra/triple", "triple answers %s / %s, expected %s" % (e, e2, want),
                                {"kind": "script", "config": cfg, "line": scripts[i], "observed": out})
                if e[0] == "1" and e[1] == "1" and e[2] != "1":
                    found = True
                    rep.finding("algebra/intransitive", "not transitive", {"kind": "script", "config": cfg, "line": scripts[i], "observed": out})
        rep.note_cases(len(scripts), set(C.sha(s)[:16] for s in scripts), sample={"script": scripts[0][:300], "result": impl[0]})
    U.finish_proof(rep, lean, found)


def replay(path):
    r = json.load(open(path))
    print(json.dumps(r, indent=1)[:3000])
    if r.get("kind") == "script":
        exe = C.harness("unity", r["config"], "san")
        out = C.run_lines(exe, [r["line"]])
        print("now:", out.outputs)
        return 0
    return 1
