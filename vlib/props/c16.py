"""C16 - allocation failure at any point yields a clean error or a complete value.

Lean: Edn.Properties.C16 (for every allocation schedule the collection builder returns NULL, a
failed add, or a heap array with exactly the elements added - never its in-frame storage, never
a partial array; the duplicate verdict is the same whichever scratch allocations fail; a
refused arena request changes nothing).  Correspondence: builder lives (B lines) under all
schedules of length <= 5 and duplicate checks under the four scratch-failure combinations
through library and model.  Whole-reader part (monitoring, not proof): in the build with
malloc/calloc/realloc/free/edn_arena_alloc wrapped, for each document of a corpus covering every
reader and growth path, every request index k is failed alone and from k on; the call must
return normally with the fault-free tree (strings possibly unavailable) or NULL plus an error,
with no live block left, under ASan with stack-use-after-return detection.
Allocation inside the model (correspondence): the allocation-aware reader model Edn.Model.ReaderA (`readA`: one
`ASt.request` per logical request, a fault oracle, the event trace, the ledger of raw blocks, the life of the two
arenas) answers `H k mode opt hex` lines like the wrap build of the harness does - outcome, number of logical
requests, live raw blocks, fate of the parser's arena and the event trace must be identical for every corpus
document, every failing request index k (alone / from k on, sampled for the big documents) in all four
configurations, also with the schedule running on through the accessor calls of the dump (modes 3 / 4) and, for the
order in which qsort first shows the elements to the hashing comparator, in a build without sanitizers
(vlib/props/alloctrace.py); every trace is replayed against an independent ledger."""
import itertools
import json
import re

from .. import common as C
from .. import corr as K
from .. import gen as G
from . import util as U
from . import alloctrace as AT

PID = "C16"


def corpus(rng, cfg, tier):
    clj = cfg in ("clj", "both")
    exp = cfg in ("exp", "both")
    docs = [b"nil", b"42", b"-9223372036854775808", b"123456789012345678901234567890", b"1.5", b"2.5M", b"7N", b"1e400", b"0." + b"1" * 60, b"0." + b"1" * 600, b"[1." + b"7" * 5000 + b"e3 2]", b"3" * 700 + b".5", b"3" * 700, b"3" * 700 + b"N", b"1." + b"5" * 600 + b"M",
            b"\"plain\"", b"\"esc\\n\\t\\\\\"", b"\"" + b"x" * 300 + b"\\n\"", b"\\a", b"\\newline", b"\\u0041", b":kw", b":ns/kw", b"sym", b"ns/sym",
            b"[]", b"()", b"{}", b"#{}", b"[1]", b"[1 2 3 4 5 6 7 8]", b"[1 2 3 4 5 6 7 8 9]", b"(" + b" ".join(b"%d" % i for i in range(13)) + b")",
            b"[" + b" ".join(b"%d" % i for i in range(40)) + b"]", b"#{" + b" ".join(b"%d" % i for i in range(20)) + b"}",
            b"#{" + b" ".join(b"%d" % i for i in range(1100)) + b"}",
            b"{" + b" ".join(b":k%d %d" % (i, i) for i in range(12)) + b"}",
            # documents that need a second, third ... arena block (values, grown element arrays, lazily decoded strings)
            b"[" + b" ".join(b"%d" % i for i in range(1000)) + b"]", b"[" + b" ".join(b"%d" % i for i in range(5000)) + b"]",
            b"[" + b" ".join(b"\"s%d\\n\"" % i for i in range(400)) + b"]", b"[\"" + b"x" * 70000 + b"\\n\" \"" + b"y" * 100000 + b"\\t\"]",
            b"{" + b" ".join(b":k%d [%d %d]" % (i, i, i) for i in range(600)) + b"}", b"\n" * 70000 + b"]", b"{:a {:b {:c [1 2 {:d #{1 2}}]}}}",
            b"#inst \"2020\"", b"#my/tag [1 2 3]", b"[#t 1 #u [2] #v {:a 3}]", b"#_ [1 2 3] 4", b"[1 #_ 2 3]", b"##Inf", b"[##NaN ##-Inf]",
            b"[\"a\\nb\" \"c\\td\" \"e\"]", b"{\"k\\n\" 1 \"k2\" 2}", b"#{\"a\\n\" \"a\\t\"}", b"; c\n[1 ; d\n 2]",
            b"[1 2", b"{:a}", b"#{1 1}", b"{:a 1 :a 2}", b"[1 2)", b"\"abc", b"\\", b"#", b"[\n\n1 \n\n 2 x#]", b"\n\n\n)", b"[[[[[[[[[[1]]]]]]]]]]"]
    if clj:
        docs += [b"^:a [1]", b"^{:a 1} ^:b ^\"s\" ^T sym", b"^{:a 1 :b 2} ^{:a 3} {:k 1}", b"#:p{:a 1 b 2 :_/c 3}", b"#:p{:a 1 :p/a 2}", b"0x1F", b"017", b"2r101",
                 b"1/2", b"123456789012345678901/3", b"\"\\u0041\\101\"", b"\\o101", b"[^:a x ^:b y]", b"^:a 5", b"[^:a]"]
    if exp:
        docs += [b"\"\"\"\n" + b"".join(b"  line %02d\n" % i for i in range(20)) + b"  \"\"\"", b"[\"\"\"\n" + b"".join(b" l%d \\\"\"\" x\n" % i for i in range(40)) + b"\"\"\"]",
                 b"\"\"\"\n  a\n   b\n  \"\"\"", b"\"\"\"\nx \\\"\"\" y\"\"\"", b"\"\"\"\n\n\n\"\"\"", b"1_000", b"1_0.5_0", b"\"\"\"\nabc", b"[\"\"\"\n a\n \"\"\" \"\"\"\n a\n \"\"\"]",
                 b"#{\"\"\"\n a\n \"\"\" \" a\\n\"}"]
    n = 25 if tier == "quick" else 250
    for _ in range(n):
        v = G.gen_value(rng, cfg, depth=rng.choice([1, 2, 3]), width=rng.choice([2, 4, 9, 12]))
        docs.append(G.render_doc(rng, v, cfg, rich=False))
        docs.append(G.gen_ext_doc(rng, cfg))
    return [d for d in docs if d]


def hdocs(cfg):
    """documents added to the corpus for the allocation-trace correspondence (H lines): smaller relatives of the
    giants the quadratic model driver cannot take, and documents whose duplicate check / metadata merge itself
    requests memory (equality and hashing decode string literals with escapes lazily)"""
    clj = cfg in ("clj", "both")
    exp = cfg in ("exp", "both")
    esc = lambda i: b"\"s%d\\n\"" % i
    # an equal pair whose lazy decode needs a block of its own (> 64 KiB): the verdict of the duplicate check must not survive a refused decode
    big = b"x" * 70000
    docs = [b"#{\"" + big + b"\\t\" \"" + big + b"\t\"}", b"{\"" + big + b"\\t\" 1 \"" + big + b"\t\" 2}",
            b"\n" * 64 + b")", b"\n" * 65 + b")", b"\n" * 129 + b"]", b"\n" * 1100 + b"[1 2", b"[\"" + b"x" * 3000 + b"\\n\" \"" + b"y" * 5000 + b"\\t\"]",
            b"[0." + b"0" * 600 + b"1]", b"1" + b"0" * 600 + b"e2", b"0." + b"1" * 520 + b"x", b"[" * 101 + b"]" * 101, b"[" * 100 + b"]" * 100]
    docs += [b"#{" + b" ".join(esc(i) for i in range(n)) + b"}" for n in (2, 3, 17, 18, 19, 25)]
    docs += [b"#{\"a\\nb\" \"a\nb\"}", b"{\"a\\nb\" 1 \"a\nb\" 2}", b"#{\"a\\n\" \"a\\n\"}", b"#{\"a\\q\" \"b\\q\" \"a\\q\"}", b"#{[\"a\\n\" 1] [\"a\\n\" 2] (\"a\\n\" 2)}",
             b"#{{\"k\\n\" \"v\\t\"} {\"k\\n\" \"v\\t\"}}", b"#{#{\"k\\n\" 1} #{\"k\\n\" 2}}", b"[#{\"x\\n\" \"y\\n\"} #{\"x\\n\" \"y\\n\"}]",
             b"#{" + b" ".join([esc(i) for i in range(9)] + [b"%d" % i for i in range(10)] + [b"\"s3\\n\""]) + b"}",
             b"#{" + b" ".join([b"%d" % i for i in range(20)] + [b"\"a\\nb\"", b"\"a\nb\""]) + b"}",
             b"#{" + b" ".join([b"\"q\\q%d\"" % (i % 5) for i in range(6)] + [b"%d" % i for i in range(14)]) + b"}",
             b"#{" + b" ".join([b"[\"e\\n\" %d]" % i for i in range(18)]) + b"}",
             b"#{" + b" ".join([b"%d" % i for i in range(1001)] + [esc(1), esc(2), b"\"s1\n\""]) + b"}",
             b"{" + b" ".join(b"\"k%d\\t\" %d" % (i, i) for i in range(20)) + b"}",
             b"#_ #{\"a\\n\" \"a\\n\"} 1", b"#ext 1", b"[#ext 1 #id [1 2] #inst \"x\" #my/id {:a #ext 2}]", b"#fail 1", b"#{#id \"a\\n\" \"a\\n\"}", b"#foo", b"#foo ]", b"# foo",
             b"1x", b"1.5x", b"1e", b"01", b"0N", b"0M", b"\\zz", b"a/", b":", b"", b" ", b"{1 2]", b"(1]", b"}"]
    if clj:
        docs += [b"^:a ^:b x", b"^{\"k\\n\" 1} ^{\"k\\n\" 2} x", b"^{\"k\\n\" 1} ^{\"k\n\" 2} x", b"^{\"k\\q\" 1} ^{\"k\\q\" 2} ^{\"k\\q\" 3} x", b"^\"s\" ^\"t\" ^[a] ^b ^:c ^{:d 1} [1]",
                 b"^:a", b"^:a ]", b"^1 x", b"^", b"#:n{:a 1 b 2 :_/c 3 _/d 4 :x/y 5 z/w 6 \"s\" 7 8 9}", b"#:n{a 1 n/a 2}", b"#:n", b"#:n/m{}", b"#:n{:a}",
                 b"#:n{" + b" ".join(b":k%d %d" % (i, i) for i in range(20)) + b"}", b"4/2", b"0/5", b"1/0", b"0xFFN", b"36rZZ", b"37r1", b"1/123456789012345678901", b"#{\"\\101\" \"A\"}", b"^:a #ext 1"]
    if exp:
        tb = lambda n: b"\"\"\"\n" + b"".join(b"  l%d\n" % i for i in range(n)) + b"  \"\"\""
        docs += [tb(0), tb(15), tb(16), tb(17), tb(33), tb(70), b"\"\"\"\n" + b"x\n" * 20 + b"y", b"#{" + tb(1) + b" \"l0\\n\"}", b"#{" + tb(1) + b" \"l0\n\"}",
                 b"[1_000 1__0 1_ 1_.0 1._0 1_e3 1e1_0 1_N 1_000N 1_0.0_1M]", b"[1_000N \"a\\n\" \"b\" 1_0.5M \"q\\q\" 9223372036854775_808 1__0 1_0e1_0]", b"#{1_0N 3}", b"{1_0.5M 1 2 3}", b"1_000.5e1_0",
                 # big numbers whose digits are cleaned of underscores on first comparison / hash
                 b"#{1_0N 1_0N}", b"#{1_0N 2_0N}", b"#{1_0N 10N}", b"#{1_0.5M 10.5M}", b"#{1_0N 2_0N 3_0N}", b"{1_0N 1 1_0N 2}",
                 b"#{" + b" ".join(b"%d_0N" % i for i in range(1, 20)) + b"}", b"#{" + b" ".join([b"%d_0N" % i for i in range(1, 20)] + [b"50N"]) + b"}"]
        if clj:
            docs += [b"#{0x1_FN 0x1FN}", b"^{1_0N 1} ^{10N 2} x", b"1_0/2_0"]
    return docs


# payloads that are materialised lazily by the accessor (decoded strings, cleaned digit strings)
STR_RE = re.compile(r"\((str|bigint|bigdec|bigratio) (\d+) (\d+) [^()]*\)")


def same_up_to_unavailable(obs, base):
    """equal, except that a lazily materialised payload may be unavailable (NULL / ERR) in `obs`"""
    gone = set()

    def mo(m):
        if "NULL" in m.group(0) or "ERR" in m.group(0):
            gone.add((m.group(1), m.group(2), m.group(3)))
            return "(%s %s %s *)" % (m.group(1), m.group(2), m.group(3))
        return m.group(0)

    def mb(m):
        if (m.group(1), m.group(2), m.group(3)) in gone:
            return "(%s %s %s *)" % (m.group(1), m.group(2), m.group(3))
        return m.group(0)

    # the accessor audit of the dump calls each big-number getter three times; under a fault the first call may return
    # NULL (flagged in front of the node) while the one that is printed succeeds: that, too, is an unavailable payload
    obs = obs.replace("!ACCESSOR:bigint_get(bigint ", "(bigint ").replace("!ACCESSOR:bigdec_get(bigdec ", "(bigdec ")
    # (the audit now follows the node it audits)
    obs = re.sub(r"(\((?:bigint|bigdec) [^()]*\))!ACCESSOR:(?:bigint|bigdec)_get", r"\1", obs)
    o = STR_RE.sub(mo, obs)
    return o == STR_RE.sub(mb, base)


def parse_f(out):
    m = re.search(r"^(.*) reqs=(\d+)/(\d+) fired=(\d+) live=(-?\d+)", out, re.S)
    if not m:
        return None
    return m.group(1), int(m.group(2)), int(m.group(3)), int(m.group(4)), int(m.group(5))


def run(tier):
    rep = C.Report(PID, tier, "proof")
    rng = C.rng(PID)
    lean = U.lean_part(rep, PID)
    found = False

    # ---- 1. builder lives under every schedule (model <-> code) --------------------------------
    blines = []
    maxs = 5 if tier == "quick" else 7
    scheds = ["-"] + ["".join(t) for n in range(1, maxs + 1) for t in itertools.product("01", repeat=n)]
    for ic in (0, 8, 9, 16, 40):
        for n in (0, 1, 7, 8, 9, 12, 13, 18, 19, 27, 28, 41, 100):
            for s in scheds:
                blines.append("B %d %d %s" % (ic, n, s))
    impl, model, diffs, crashes, _ = K.correspond("core", blines)
    rep.count("builder-lives", len(blines))
    for idx, rc, err in crashes:
        found = True
        rep.finding("builder/crash", "builder crashed", {"kind": "line", "config": "core", "style": "unity", "line": blines[idx], "stderr": err[:2000]})
    for i in diffs[:5]:
        rep.broken_obligation("correspondence/builder", "model %r vs code %r on %s" % (model[i], impl[i], blines[i]), False)
    for i, o in enumerate(impl):
        if o and ("STACK" in o or "CORRUPT" in o):
            found = True
            rep.finding("builder/escape", "the builder handed out its in-frame storage or a wrong array: %s" % o, {"kind": "line", "config": "core", "style": "unity", "line": blines[i], "observed": o})
    rep.note_cases(len(blines), set(blines), sample={"line": blines[7], "out": impl[7]})

    # ---- 2. duplicate check under scratch-allocation failures ----------------------------------
    for cfg in ("core", "both"):
        scripts, exps = [], []
        for n in (2, 5, 16, 17, 18, 60, 999, 1000, 1001, 1400):
            for dup in (None, "first-last", "adjacent", "strings", "twins"):
                xs = [b"%d" % i for i in range(n)]
                if dup == "first-last":
                    xs[-1] = xs[0]
                elif dup == "adjacent" and n > 3:
                    xs[n // 2] = xs[n // 2 - 1]
                elif dup == "strings":
                    xs[0] = b"\"a\\nb\""
                    xs[-1] = b"\"a\nb\""
                elif dup == "twins":
                    xs[0] = b"[1 2]"
                    xs[-1] = b"(1 2)"
                elif dup is not None:
                    continue
                doc = b"[" + b" ".join(xs) + b"]"
                scripts.append("Q r0=%s d:0 d00:0 d01:0 d10:0 d11:0 d:0" % C.hexs(doc))
                exps.append((dup is not None, n))
        impl, model, diffs, crashes, _ = K.correspond(cfg, scripts)
        rep.count("dup-fallbacks/" + cfg, len(scripts))
        for idx, rc, err in crashes:
            found = True
            rep.finding("dup/crash", "duplicate check crashed under a failing scratch allocation", {"kind": "line", "config": cfg, "style": "unity", "line": scripts[idx], "stderr": err[:2000]})
        for i in diffs[:5]:
            rep.broken_obligation("correspondence/dup-fallbacks", "model %r vs code %r (n=%d)" % (model[i], impl[i], exps[i][1]), False)
        for i, o in enumerate(impl):
            if o is None:
                continue
            t = o.split("\t")
            want = "1" if exps[i][0] else "0"
            if t[0] == "ok" and any(x != want for x in t[1:]):
                found = True
                rep.finding("dup/verdict", "duplicate verdict depends on which scratch allocation failed: %s (expected %s)" % (t[1:], want),
                            {"kind": "line", "config": cfg, "style": "unity", "line": scripts[i], "observed": o})
        rep.note_cases(len(scripts), set(C.sha(s)[:16] for s in scripts))

    # ---- 3. whole reader: fail request k alone / from k on (monitoring) --------------------------
    fired_total = 0
    for cfg in (["core", "both"] if tier == "quick" else ["core", "clj", "exp", "both"]):
        docs = corpus(rng, cfg, tier)
        for opt in (0, 1):
            base_lines = ["F 0 1 %d %s" % (opt, C.hexs(d)) for d in docs]
            base, bcr = K.run_impl(cfg, base_lines, mode="san", style="wrap")
            lines, meta = [], []
            for d, b in zip(docs, base):
                pf = parse_f(b) if b else None
                if pf is None:
                    continue
                dump0, r_read, r_all, _, _ = pf
                ks = list(range(1, r_all + 1))
                cap = 60 if tier == "quick" else 400
                if len(ks) > cap:
                    # always: every raw malloc/calloc/realloc request (new arena blocks, scratch arrays, line index ...) and
                    # its neighbours, the first and the last requests; the rest sampled
                    tm = re.search(r"trace=\[([^\]]*)\]", b)
                    kinds = tm.group(1).split() if tm else []
                    raw = [i + 1 for i, t in enumerate(kinds) if t[:1] in ("m", "c", "r")]
                    keep = set(ks[:20]) | set(ks[-8:])
                    for k0 in raw[:40]:
                        keep.update(k for k in (k0 - 1, k0, k0 + 1) if 1 <= k <= r_all)
                    rest = [k for k in ks if k not in keep]
                    keep.update(rng.sample(rest, min(len(rest), cap // 4)))
                    ks = sorted(keep)
                for k in ks:
                    for mode in (1, 2):
                        lines.append("F %d %d %d %s" % (k, mode, opt, C.hexs(d)))
                        meta.append((d, dump0, k, mode))
            outs, crashes = K.run_impl(cfg, lines, mode="san", style="wrap")
            rep.count("fault-runs/%s/opt%d" % (cfg, opt), len(lines))
            rep.count("documents/%s" % cfg, len(docs))
            for idx, rc, err in crashes + bcr:
                found = True
                ln = (lines + base_lines)[idx] if idx < len(lines) else ""
                head = next((l for l in err.split("\n") if "ERROR" in l or "runtime error" in l), err.strip().split("\n")[0] if err.strip() else "")
                rep.finding("reader/crash", "crash or sanitizer report under an allocation failure: %s" % head[:200],
                            {"kind": "line", "config": cfg, "style": "wrap", "line": ln, "stderr": err[-3000:]})
            for i, o in enumerate(outs):
                if o is None:
                    continue
                pf = parse_f(o)
                d, dump0, k, mode = meta[i]
                rp = {"kind": "line", "config": cfg, "style": "wrap", "line": lines[i], "observed": o[-600:], "fault_free": dump0[:600]}
                if pf is None:
                    found = True
                    rep.finding("reader/garbled", "unparseable result line", rp)
                    continue
                dump, r_read, r_all, fired, live = pf
                fired_total += fired
                if live != 0:
                    found = True
                    rep.finding("reader/leak", "%d raw blocks still live after the call (fail %s request %d)" % (live, "only" if mode == 1 else "from", k), rp)
                if fired == 0:
                    ok = dump == dump0
                elif dump.startswith("ok ") or dump.startswith("eofval"):
                    # a value came back: it must be the complete fault-free tree (lazily decoded strings may be unavailable)
                    ok = dump0.startswith(dump[:3]) and same_up_to_unavailable(dump, dump0)
                elif dump.startswith("err "):
                    # NULL value plus an error: what the property demands.  (The code is not always OUT_OF_MEMORY - e.g. a failed
                    # value allocation inside the number reader surfaces as INVALID_NUMBER - which the statement does not forbid.)
                    ok = True
                    rep.count("error-code-under-fault/" + dump.split()[1])
                else:
                    ok = False
                if not ok:
                    found = True
                    rep.finding("reader/partial-or-wrong", "neither the complete fault-free result nor a clean error (fail %s request %d)" % ("only" if mode == 1 else "from", k), rp)
            rep.note_cases(len(lines), set(C.sha(l)[:16] for l in lines), sample={"line": lines[0][:120] if lines else "", "out": (outs[0] or "")[-160:] if outs else ""})
    # ---- 4. allocation inside the model: the allocation-aware reader model (Edn.Model.ReaderA) against the code on
    # every (document, failing request, mode): same outcome, same number of logical requests, same event trace,
    # same ledger.  All four configurations.
    for cfg in ("core", "clj", "exp", "both"):
        hr = C.rng(PID + "/H/" + cfg)
        docs = corpus(hr, cfg, tier) + hdocs(cfg)
        if AT.run_stream(rep, hr, cfg, docs, "alloc-trace", cap=(28 if tier == "quick" else 100000), max_doc=(10000 if tier == "quick" else AT.MAX_DOC)):
            found = True
    # the same in a build without sanitizers, where the C library's own qsort (not ASan's interceptor) decides in
    # which order the duplicate check first hashes - and thereby decodes - the elements
    for cfg in (("core",) if tier == "quick" else ("core", "both")):
        hr = C.rng(PID + "/Hq/" + cfg)
        esc = lambda i: b"\"s%d\\n\"" % i
        qdocs = [b"#{" + b" ".join(esc(i) for i in range(n)) + b"}" for n in (17, 20, 23)] + \
                [b"#{" + b" ".join([esc(i) for i in range(9)] + [b"%d" % i for i in range(10)] + [b"\"s3\\n\""]) + b"}",
                 b"#{" + b" ".join([b"%d" % i for i in range(20)] + [b"\"a\\nb\"", b"\"a\nb\""]) + b"}"]
        if AT.run_stream(rep, hr, cfg, qdocs, "alloc-trace-libc-qsort", cap=100000, mode="o2", opt_extra=32, opts_fn=lambda d, b: [0]):
            found = True
    rep.count("faults-fired", fired_total)
    if fired_total == 0:
        rep.broken_obligation("fault-injection", "no allocation failure fired: the wrap build does not intercept the library's allocations", False)
    U.finish_proof(rep, lean, found)


def replay(path):
    r = json.load(open(path))
    print(json.dumps(r, indent=1)[:3000])
    if r.get("stream") == "alloc-trace":
        return AT.replay(r)
    if r.get("kind") == "line":
        exe = C.harness(r.get("style", "wrap"), r["config"], "san")
        out = C.run_lines(exe, [r["line"]])
        print("now:", out.outputs, out.returncode, out.stderr[-1500:])
        return 0
    return 1
