"""C10 - ill-formed documents are rejected with an error of the right class.

Lean: Edn.Properties.C10 (the result is a value xor an error with a non-OK code; the class of
each defect family, stated on the reader's own steps).  Correspondence: all strings up to
length 4 (5 thorough) over a 24-symbol structural alphabet, and corrupted documents, through
reader and model.  Oracle: single-edit corruptions of generated well-formed documents whose
error class is predictable; the value-xor-error invariant on every result."""
import json
import re

from .. import common as C
from .. import corr as K
from .. import gen as G
from .. import sexp
from . import util as U

PID = "C10"
CLOSERS = {0x28: 0x29, 0x5B: 0x5D, 0x7B: 0x7D}


def collections(root):
    return [n for n in root.walk() if n.kind in ("list", "vec", "set", "map") and not (n.s == 0 and n.e == 0)]


def corruptions(rng, doc, root, cfg):
    """yield (bytes, set of acceptable error codes, family)"""
    n = len(doc)
    nodes = [x for x in root.walk() if not (x.s == 0 and x.e == 0)]
    colls = collections(root)
    strings = [(x.s, x.e) for x in nodes if x.kind == "str"]
    toks = [(x.s, x.e) for x in nodes if x.kind in ("char", "int", "float", "bigint", "bigdec", "ratio", "bigratio", "sym", "kw", "nil", "bool")]
    if root.kind not in ("list", "vec", "set", "map"):
        return
    # truncation at element boundaries inside the (open) root collection
    cuts = set()
    for x in nodes:
        if x is not root:
            cuts.add(x.e)
        if x.kind in ("list", "vec", "map"):
            cuts.add(x.s + 1)
        if x.kind == "set":
            cuts.add(x.s + 2)
    for k in sorted(cuts):
        if k <= root.s or k >= root.e:
            continue
        if any(s < k < e for s, e in strings):
            continue
        if any(s < k < e for s, e in toks):
            continue
        yield doc[:k], {"UNTERMINATED_COLLECTION"}, "truncate-in-collection"
    for s, e in strings[:3]:
        if e - s >= 2:
            k = rng.randint(s + 1, e - 1)
            if doc[k - 1:k] != b"\\":
                yield doc[:k], {"INVALID_STRING"}, "truncate-in-string"
    # closer of the wrong kind
    for c in colls[:4]:
        close = doc[c.e - 1]
        for other in (0x29, 0x5D, 0x7D):
            if other != close:
                yield doc[:c.e - 1] + bytes([other]) + doc[c.e:], {"UNMATCHED_DELIMITER"}, "wrong-closer"
    # stray closer in front
    for ch in (b")", b"]", b"}"):
        yield ch + b" " + doc, {"UNMATCHED_DELIMITER"}, "stray-closer"
    # closing delimiter of the root removed
    yield doc[:root.e - 1], {"UNTERMINATED_COLLECTION"}, "missing-root-closer"
    # last value of a map dropped
    for c in colls:
        if c.kind == "map" and c.kids:
            last = c.kids[-1]
            if not (last.s == 0 and last.e == 0):
                yield doc[:last.s] + doc[last.e:], {"INVALID_SYNTAX"}, "odd-map"
            break
    # orphan markers directly before a closing delimiter
    for c in colls[:3]:
        k = c.e - 1
        yield doc[:k] + b" #_" + doc[k:], {"INVALID_DISCARD"}, "orphan-discard"
        yield doc[:k] + b" #foo" + doc[k:], {"INVALID_SYNTAX"}, "orphan-tag"
        if c.kind != "map":
            yield doc[:k] + b" #foo " + doc[k:], {"INVALID_SYNTAX"}, "orphan-tag"
        if cfg in ("clj", "both") and c.kind != "map":
            yield doc[:k] + b" ^:m" + doc[k:], {"INVALID_SYNTAX"}, "orphan-meta"
            yield doc[:k] + b" ^" + doc[k:], {"INVALID_SYNTAX"}, "orphan-meta"
    # definitely invalid tokens spliced into a sequence collection
    bad = [(b"1x", "INVALID_NUMBER"), (b"1e", "INVALID_NUMBER"), (b"1.5.2", "INVALID_NUMBER"), (b"\\ab", "INVALID_CHARACTER"), (b"\\u12", "INVALID_CHARACTER"),
           (b"::a", "INVALID_SYNTAX"), (b":", "INVALID_SYNTAX"), (b"a/", "INVALID_SYNTAX"), (b"/a", "INVALID_SYNTAX"), (b"##Nope", "INVALID_SYNTAX"), (b"# a", "INVALID_SYNTAX")]
    if cfg in ("core", "exp"):
        bad.append((b"01", "INVALID_NUMBER"))
    for c in colls[:3]:
        if c.kind in ("list", "vec"):
            k = c.e - 1
            for tok, code in rng.sample(bad, 4):
                yield doc[:k] + b" " + tok + b" " + doc[k:], {code}, "bad-token"
            break


NUM_RE = re.compile(rb"^[+-]?(0|[1-9][0-9]*)(N|M|(\.[0-9]*)?([eE][+-]?[0-9]+)?M?)$")

F_RE = re.compile(r"^(.*) reqs=(\d+)/(\d+) fired=(\d+) live=(-?\d+)", re.S)


def fault_corpus(rng, cfg, tier):
    """short documents (every reader, every marker, every error path) whose reads are repeated with each allocation
    request failing; returns [(document, option bits)]"""
    clj = cfg in ("clj", "both")
    exp = cfg in ("exp", "both")
    good = [b"nil", b"true", b"42", b"-1.5", b"1e400", b"7N", b"2.5M", b"123456789012345678901", b"\"s\"", b"\"a\\nb\"", b"\\a", b"\\newline", b"\\u0041", b":k", b":n/k",
            b"sym", b"n/s", b"##Inf", b"[]", b"()", b"{}", b"#{}", b"[1 2]", b"(a b)", b"{:a 1}", b"#{1 2}", b"[[1] {:a [2]}]", b"[1 2 3 4 5 6 7 8 9]",
            b"#{1 2 3 4 5 6 7 8 9 10 11 12 13 14 15 16 17}", b"{\"k\\n\" 1 \"k2\" 2}", b"#t 1", b"#t [1]", b"#a #b 2", b"#inst \"x\"", b"[#t 1 #u [2]]", b"{#t 1 #u 2}",
            b"#_ 1 2", b"[1 #_ 2 3]", b"#_ #t [1] 2", b"#_ #_ 1 2 3", b"; c\n1", b"\n\n [1\n 2]", b"1 2", b"[1] x"]
    bad = [b"", b" ", b"; c", b"[1 2", b"{:a}", b"{:a 1 :b}", b"#{1 1}", b"{:a 1 :a 2}", b"[1 2)", b"\"abc", b"\\", b"#", b"]", b"#_", b"#_ 1", b"#t", b"#t ]", b"[#t]", b"1x",
           b"[1 1x]", b"\n\n[1\n 2 ::a]", b"[1 #", b"{:a #_ 1}", b"\\ab", b"a/", b"##Nope", b"(((", b"[1 \"ab"]
    if clj:
        good += [b"^:a [1 2]", b"^sym x", b"^\"str\" sym", b"^[x y] (f)", b"^{:k 1} sym", b"^{} sym", b"^:a ^:b sym", b"^:a ^:a sym", b"^:a ^{:b 1} ^sym #{1}", b"^sym ^\"s\" ^[a] x",
                 b"#foo ^:a {}", b"#foo ^s \"x\"", b"[^:a sym]", b"[^:a [1] ^b (2)]", b"{^:a k ^:b v}", b"^:a #t x", b"#_ ^:a x 1", b"^:a #_ 1 x", b"^:a \"s\"", b"^{:a 1} ^{:a 2} [x]",
                 b"#:p{:a 1}", b"#:p{:a 1 b 2 :_/c 3}", b"^:m #:p{:a 1}", b"0x1F", b"017", b"2r101", b"1/2", b"4/2", b"\\o101", b"\"\\101\""]
        bad += [b"^:a 5", b"^:a", b"^", b"[^:a]", b"^5 x", b"^:a ]", b"^[x", b"#:p{:a 1 :p/a 2}", b"#:p{:a}", b"#:p", b"#:p [1]", b"1/0", b"09", b"^:a ^:b", b"{^:a}"]
    if exp:
        good += [b"\"\"\"\n a\n b\n \"\"\"", b"[\"\"\"\nx \\\"\"\" y\"\"\"]", b"1_000", b"1_0.5_0", b"#{\"\"\"\n a\n \"\"\" \"b\"}"]
        bad += [b"\"\"\"\nabc", b"\"\"\"", b"1__0", b"1_"]
    out = []
    for d in good + bad:
        out.append((d, 0))
        out.append((d, 1))
    # tags under the preset registry (identity, failing, external-value handlers) and every default mode
    tdocs = [b"#id 1", b"#id [1 2]", b"#fail 1", b"#failq [1]", b"#ext \"abc\"", b"#inst \"x\"", b"[#id 1 #foo 2]", b"#foo 1", b"#foo #id x", b"#_ #fail 1 2", b"#id", b"[#ext]", b"#foo"]
    if clj:
        tdocs += [b"^:a #id [1]", b"#id ^:a [1]", b"#foo ^sym x", b"#ext ^:a x", b"^:a #fail x"]
    for d in tdocs:
        for opt in (8, 9, 10, 12):
            out.append((d, opt))
    if tier == "thorough":
        for _ in range(150):
            v = G.gen_value(rng, cfg, depth=rng.choice([1, 2]), width=rng.choice([2, 3]))
            d = G.render_doc(rng, v, cfg, rich=rng.random() < 0.5)
            if 0 < len(d) <= 60:
                out.append((d, rng.choice([0, 0, 1, 8, 10, 12])))
                out.append((G.mutate(rng, d), rng.choice([0, 1])))
    return [(d, o) for d, o in out]


def malformed_result(dump):
    """why a printed result breaks 'a value xor an error code with a message', or None"""
    if dump.startswith("BOTH"):
        return "both a value and an error code"
    if dump.startswith("NEITHER"):
        return "neither a value nor an error code"
    if "MSG-ON-OK" in dump:
        return "a value together with an error message"
    if "BADCODE" in dump:
        return "an error code outside the documented set"
    if dump.startswith("err") and "msg=0" in dump:
        return "an error code without a message"
    if not (dump.startswith("ok ") or dump.startswith("eofval") or dump.startswith("err ")):
        return "an unrecognisable result"
    return None


def fault_family(rep, rng, cfg, tier):
    """the value-xor-error invariant (and 'an ill-formed document is never accepted') on every fault point: for each document of
    a small corpus each allocation request k of the read is failed alone and from k on (wrap build, F command)"""
    found = False
    cases = fault_corpus(rng, cfg, tier)
    base_lines = ["F 0 1 %d %s" % (o, C.hexs(d)) for d, o in cases]
    base, bcr = K.run_impl(cfg, base_lines, mode="san", style="wrap")
    lines, meta = [], []
    for (d, o), b in zip(cases, base):
        m = F_RE.match(b) if b else None
        if m is None:
            continue
        dump0, r_read = m.group(1), int(m.group(2))
        why = malformed_result(dump0)
        if why:
            found = True
            rep.finding("xor", "result carries %s: %s" % (why, dump0[:100]), {"kind": "read", "config": cfg, "opt": o, "input_hex": C.hexs(d), "observed": dump0[:300]})
        # requests made by the read itself (later ones belong to the accessors used for printing)
        ks = list(range(1, r_read + 1))
        if len(ks) > 80:
            ks = ks[:40] + ks[-40:]
        for k in ks:
            for mode in (1, 2):
                lines.append("F %d %d %d %s" % (k, mode, o, C.hexs(d)))
                meta.append((d, o, k, mode, dump0))
    outs, crashes = K.run_impl(cfg, lines, mode="san", style="wrap")
    rep.count("fault-documents/" + cfg, len(cases))
    rep.count("fault-runs/" + cfg, len(lines))
    for src, (idx, rc, err) in [(lines, c) for c in crashes] + [(base_lines, c) for c in bcr]:
        found = True
        ln = src[idx] if 0 <= idx < len(src) else ""
        head = next((l for l in err.split("\n") if "ERROR" in l or "runtime error" in l), err.strip().split("\n")[0] if err.strip() else "")
        rep.finding("crash-under-fault", "the reader crashed while an allocation request failed: %s" % head[:200],
                    {"kind": "line", "config": cfg, "style": "wrap", "line": ln, "stderr": err[-3000:]})
    fired = 0
    for i, out in enumerate(outs):
        if out is None:
            continue
        d, o, k, mode, dump0 = meta[i]
        m = F_RE.match(out)
        rp = {"kind": "line", "config": cfg, "style": "wrap", "line": lines[i], "input_hex": C.hexs(d), "opt": o, "fail_request": k,
              "fail_mode": "only" if mode == 1 else "from", "observed": out[-500:], "fault_free": dump0[:300]}
        if m is None:
            found = True
            rep.finding("xor-under-fault", "unparseable result line under an allocation failure", rp)
            continue
        dump = m.group(1)
        fired += 1 if int(m.group(4)) else 0
        why = malformed_result(dump)
        if why:
            found = True
            rep.finding("xor-under-fault", "with allocation request %d failing (%s) the result of %r carries %s: %s" % (k, "alone" if mode == 1 else "and all later ones", d, why, dump[:100]), rp)
        elif dump0.startswith("err ") and not dump.startswith("err "):
            found = True
            rep.finding("accepted-under-fault", "with allocation request %d failing (%s) the ill-formed document %r is accepted: %s (fault-free: %s)" % (k, "alone" if mode == 1 else "and all later ones", d, dump[:80], dump0[:80]), rp)
    rep.count("fault-runs-fired/" + cfg, fired)
    if lines and fired == 0:
        rep.broken_obligation("fault-injection", "no allocation failure fired in configuration %s: the wrap build does not intercept the library's allocations" % cfg, False)
    rep.note_cases(len(lines), set(C.sha(l)[:16] for l in lines), sample={"line": lines[len(lines) // 2][:120] if lines else "", "out": (outs[len(lines) // 2] or "")[-160:] if outs else ""})
    return found


def run(tier):
    rep = C.Report(PID, tier, "proof")
    rng = C.rng(PID)
    lean = U.lean_part(rep, PID)
    found = False
    for cfg in ("core", "clj", "exp", "both"):
        # ---- value-xor-error on everything, exhaustive short strings
        maxlen = (4 if cfg == "core" else 3) if tier == "quick" else 5
        docs = list(G.strings_over(G.SIGMA24, maxlen, 1))
        for opt in ((0, 1) if cfg == "core" or tier == "thorough" else (0,)):
            lines = K.read_lines(docs, opt)
            impl, model, diffs, crashes, mcr = K.correspond(cfg, lines)
            rep.count("alphabet-strings/%s/opt%d" % (cfg, opt), len(docs))
            for idx, rc, err in crashes:
                found = True
                rep.finding("crash", "short structural string crashed the reader", {"kind": "read", "config": cfg, "opt": opt, "input_hex": C.hexs(docs[idx]), "stderr": err[:2000]})
            for i in diffs[:5]:
                rep.broken_obligation("correspondence/read", "model %r vs code %r on %r" % ((model[i] or "")[:150], (impl[i] or "")[:150], docs[i]), False)
            if U.grammar_verdicts(rep, cfg, docs, impl, model, diffs, ("ill-formed-accepted", "wrong-error-class"), opt=opt):
                found = True
            for i, a in enumerate(impl):
                if a is None:
                    continue
                if a.startswith("BOTH") or a.startswith("NEITHER") or "MSG-ON-OK" in a or (a.startswith("err") and "msg=0" in a) or "BADCODE" in a:
                    found = True
                    rep.finding("xor", "result carries both / neither value and error, or an error without message: %s" % a[:100],
                                {"kind": "read", "config": cfg, "opt": opt, "input_hex": C.hexs(docs[i]), "observed": a[:300]})
        rep.note_cases(len(docs), set(C.sha(d)[:16] for d in docs), sample={"doc": docs[len(docs) // 2].decode("latin-1")})
        rep.coverage["exhaustive"] = True

        # ---- corruptions with predictable class
        nvals = 150 if tier == "quick" else 2500
        base_docs = []
        for _ in range(nvals):
            v = G.gen_value(rng, cfg, depth=3, width=4)
            if v[0] not in ("list", "vec", "set", "map"):
                v = ("vec", [v, ("int", 1)])
            base_docs.append(G.render(rng, v, cfg, rich=rng.random() < 0.3))
        base, _ = K.run_impl(cfg, K.read_lines(base_docs))
        cdocs, exps = [], []
        for d, a in zip(base_docs, base):
            root = sexp.parse_result(a)
            if root is None:
                continue
            for bts, codes, fam in corruptions(rng, d, root, cfg):
                cdocs.append(bts)
                exps.append((codes, fam))
        lines = K.read_lines(cdocs)
        impl, model, diffs, crashes, mcr = K.correspond(cfg, lines)
        rep.count("corruptions/" + cfg, len(cdocs))
        for idx, rc, err in crashes:
            found = True
            rep.finding("crash", "corrupted document crashed the reader", {"kind": "read", "config": cfg, "opt": 0, "input_hex": C.hexs(cdocs[idx]), "stderr": err[:2000]})
        for i in diffs[:5]:
            rep.broken_obligation("correspondence/corrupted", "model %r vs code %r on %r" % ((model[i] or "")[:150], (impl[i] or "")[:150], cdocs[i][:150]), False)
        if U.grammar_verdicts(rep, cfg, cdocs, impl, model, diffs, ("ill-formed-accepted", "wrong-error-class")):
            found = True

        # ---- small ill-formed forms in every context: under a discard, a tag, inside each collection kind, as map key / value, behind metadata and
        #      namespaced-map prefixes, deep: "a discarded / nested form must still be well-formed".  The expectation is the model's verdict, which the
        #      theorems of C03 / C10 identify with the grammar of the configuration (util.grammar_verdicts)
        clj = cfg in ("clj", "both")
        exp = cfg in ("exp", "both")
        bad = [b")", b"]", b"}", b"(1", b"[1", b"{1", b"{1 2 3}", b"#{1 1}", b"{:a 1 :a 2}", b"#", b"#_", b"#t", b"#_ )", b"#t ]", b"\\", b"\nope", b"\u12", b"\"unterminated", b"1x", b"1.", b"1e", b"+1.5e",
               b"a::b", b"::a", b":", b":a/", b"/a", b"a/", b"##Nope", b"##", b"1/2x", b"08a", b"#{1 [2 2] [2 2]}", b"[1 2)", b"(1 2]", b"{:a 1]", b"#_ #_ 1"]
        good = [b"1", b":k", b"[1]", b"{:a 1}", b"#{1 2}", b"#t 1", b"\\a", b"\"s\"", b"sym", b"1.5", b"nil"]
        if clj:
            bad += [b"^", b"^:a", b"^:a 5", b"^:k \"s\"", b"^Tag :kw", b"^{:doc \"x\"} 2.5", b"^5 [1]", b"^[1] nil", b"^:a ^:b 7", b"^ ]", b"#:", b"#:a", b"#:a 5", b"#:a [1]", b"#:a/b{}", b"#::a{:x 1}", b"#::{}",
                    b"#: a{}", b"#:a{:x 1 :a/x 2}", b"#:a{:x}", b"#:5{}", b"#:\"s\"{}", b"1/0", b"1/", b"0x", b"0xG", b"2r2", b"37r1", b"09", b"\\o400", b"\\o8"]
            good += [b"^:a [1]", b"^{:a 1} x", b"#:a{:x 1}", b"1/2", b"0x1F", b"2r101", b"017"]
        if exp:
            bad += [b"\"\"\"\nabc", b"\"\"\"\nabc\n", b"1_", b"_1 ]", b"1__", b"1_.5", b"1._5", b"1e_5", b"1_N", b"1.5_e5", b"1.5_M"]
            good += [b"\"\"\"\n a\n \"\"\"", b"1_000", b"1_0.2_5"]
        ctxs = [b"%s", b"#_ %s 1", b"#_%s 1", b"[#_ %s 2]", b"[1 #_ %s]", b"#_ [1 %s 3] :after", b"#_ #_ 1 %s 2", b"#t %s", b"#t [%s]", b"[%s]", b"(1 %s)", b"#{%s}", b"{:a %s}", b"{%s 1}", b"{:a #_ %s 1}",
                b"[[[[%s]]]]", b"[1 ;c\n %s ;d\n 2]", b"#_ #t %s 9", b"#_ {:a %s} 9"]
        if clj:
            ctxs += [b"^:m [%s]", b"^{:a %s} [1]", b"#:n{:a %s}", b"#_ ^:m [%s] 1", b"#_ #:n{:a %s} 1", b"[^:m #_ %s x]"]
        fdocs = [c.replace(b"%s", f) for f in bad + good for c in ctxs]
        fimpl, fmodel, fdiffs, fcrashes, _ = K.correspond(cfg, K.read_lines(fdocs))
        rep.count("ill-formed-in-context/" + cfg, len(fdocs))
        rep.count("ill-formed-in-context-rejected/" + cfg, sum(1 for m in fmodel if m and m.startswith("err ")))
        for idx, rc, err in fcrashes:
            found = True
            rep.finding("crash", "an ill-formed form in a context crashed the reader", {"kind": "read", "config": cfg, "opt": 0, "input_hex": C.hexs(fdocs[idx]), "stderr": err[:2000]})
        for i in fdiffs[:5]:
            rep.broken_obligation("correspondence/ill-formed-in-context", "model %r vs code %r on %r" % ((fmodel[i] or "")[:150], (fimpl[i] or "")[:150], fdocs[i][:150]), False)
        if U.grammar_verdicts(rep, cfg, fdocs, fimpl, fmodel, fdiffs, ("ill-formed-accepted", "wrong-error-class")):
            found = True
        for i, a_ in enumerate(fimpl):
            if a_ and (a_.startswith("BOTH") or a_.startswith("NEITHER") or (a_.startswith("err") and "msg=0" in a_)):
                found = True
                rep.finding("xor", "malformed result: %s" % a_[:100], {"kind": "read", "config": cfg, "opt": 0, "input_hex": C.hexs(fdocs[i]), "observed": a_[:300]})
        rep.note_cases(len(fdocs), set(fdocs))
        for i, a in enumerate(impl):
            if a is None:
                continue
            codes, fam = exps[i]
            rep.count("family/" + fam)
            got = a.split(" ")[1] if a.startswith("err ") else "ACCEPTED"
            if a.startswith("BOTH") or a.startswith("NEITHER") or (a.startswith("err") and "msg=0" in a):
                found = True
                rep.finding("xor", "malformed result: %s" % a[:100], {"kind": "read", "config": cfg, "opt": 0, "input_hex": C.hexs(cdocs[i]), "observed": a[:300]})
            elif got not in codes:
                found = True
                rep.finding("class/" + fam, "corruption family %s: expected %s, got %s" % (fam, sorted(codes), a[:80]),
                            {"kind": "read", "config": cfg, "opt": 0, "input_hex": C.hexs(cdocs[i]), "expected": sorted(codes), "observed": a[:300]})
        rep.note_cases(len(cdocs), set(C.sha(d)[:16] for d in cdocs), sample={"doc": cdocs[5][:150].decode("latin-1"), "expected": sorted(exps[5][0]), "family": exps[5][1]})
        # ---- stray closer after one or more discarded forms of every kind, at top level: UNMATCHED_DELIMITER, never "neither"
        sdocs, sexps = [], []
        disc = [b"1", b"a", b":k", b"\"s\"", b"[1 2]", b"{:a 1}", b"#{1}", b"(x)", b"#t 1", b"#t [1]", b"#inst \"x\"", b"#a #b 2", b"\\c", b"nil", b"#_ 1 2"]
        if cfg in ("clj", "both"):
            disc += [b"^:m [1]", b"#:p{:a 1}", b"^{:a 1} #t x"]
        for dform in disc:
            for closer in (b")", b"]", b"}"):
                for tail in (b"", b" 5", b" [1]"):
                    for reps in (1, 2):
                        sdocs.append((b"#_" + dform + b" ") * reps + closer + tail)
                        sexps.append("UNMATCHED_DELIMITER")
        # orphan markers at the end of the input stay errors when the caller supplies an end-of-input value (opt 1)
        orphans = [b"#foo", b"#foo ", b"#", b"#_", b"#_ ", b"#_ #bar ", b"#a #b", b"#_#_ 1", b"[1 #foo", b"#foo ;c"]
        if cfg in ("clj", "both"):
            orphans += [b"^:a", b"^:a ", b"^", b"^{:a 1} ", b"#:p", b"#:p "]
        for opt in (0, 1):
            out, cr = K.run_impl(cfg, K.read_lines(orphans, opt))
            mo, _ = K.run_model(cfg, K.read_lines(orphans, opt))
            rep.count("orphans-at-eof/%s/opt%d" % (cfg, opt), len(orphans))
            for d, a, b in zip(orphans, out, mo):
                if a is None:
                    continue
                if a != b:
                    rep.broken_obligation("correspondence/orphan-at-eof", "model %r vs code %r on %r (opt %d)" % (b, a, d, opt), False)
                if not a.startswith("err "):
                    found = True
                    rep.finding("class/orphan-at-eof", "a marker without its operand at the end of the input was not rejected (opt %d): %r -> %s" % (opt, d, a[:80]),
                                {"kind": "read", "config": cfg, "opt": opt, "input_hex": C.hexs(d), "expected": ["UNEXPECTED_EOF", "INVALID_SYNTAX", "INVALID_DISCARD", "UNTERMINATED_COLLECTION"], "observed": a[:300]})
        # a tag without operand is rejected whatever the options: registry (8) with passthrough / unwrap (+2) / error (+4)
        # default mode, tag registered or not
        tdocs = [b"[1 #foo]", b"(#foo)", b"[[1 2 #a/b] 3]", b"{:a #foo}", b"#{#foo}", b"[1 #id]", b"[#id #foo]", b"[#foo #id]", b"#foo ]", b"[1 #inst ]", b"{#foo}",
                 b"[#_ #foo]", b"[#foo #_ 1]", b"#foo #_ 1"]
        for opt in (8, 10, 12):
            to, tcr = K.run_impl(cfg, K.read_lines(tdocs, opt))
            tm, _ = K.run_model(cfg, K.read_lines(tdocs, opt))
            rep.count("orphan-tags/%s/opt%d" % (cfg, opt), len(tdocs))
            for d, a, b in zip(tdocs, to, tm):
                if a is None:
                    continue
                if a != b:
                    rep.broken_obligation("correspondence/orphan-tag-options", "model %r vs code %r on %r (options %d)" % (b, a, d, opt), False)
                if not a.startswith("err "):
                    found = True
                    rep.finding("class/orphan-tag-options", "a tag without operand was not rejected with options %d: %r -> %s" % (opt, d, a[:80]),
                                {"kind": "read", "config": cfg, "opt": opt, "input_hex": C.hexs(d), "expected": ["INVALID_SYNTAX", "UNEXPECTED_EOF", "INVALID_DISCARD", "UNMATCHED_DELIMITER", "UNKNOWN_TAG"], "observed": a[:300]})
        # Clojure flag: a ratio followed by anything but a terminator is INVALID_NUMBER, whether or not it reduces to an integer
        if cfg in ("clj", "both"):
            for ratio in (b"4/2", b"6/3", b"-9/3", b"10/5", b"1/2", b"3/4", b"0/5", b"22222222222222222222/2", b"4/22222222222222222222"):
                for junk in (b"x", b".5", b"abc", b"e3", b"N", b"M", b"/2", b"_", b"'", b":a"):
                    for ctx in (b"%s", b"[%s]", b"[%s 1]", b"{:n %s}"):
                        sdocs.append(ctx.replace(b"%s", ratio + junk))
                        sexps.append("INVALID_NUMBER")
        # identifiers containing '::' are INVALID_SYNTAX wherever the colons sit and however much input follows
        for pre in (b"", b"a", b"abc", b"abcdefghijklmn", b"abcdefghijklmno", b"abcdefghijklmnop", b"abcdefghijklmnopqrstuvwxyz0123456789"):
            for kwp in (b"", b":"):
                for suf in (b"b", b"", b"bcdefghijklmnopqrstuvw"):
                    tok = kwp + pre + b"::" + suf
                    if tok.startswith(b":::") or tok in (b"::", b":::"):
                        continue
                    for ctx in (b"%s", b"[%s 1 2]", b"[%s 1 2 3 4 5 6 7 8 9 10 11 12]", b"{%s \"some string value\"}", b"#%s [1 2 3 4 5 6 7 8 9]"):
                        if ctx.startswith(b"#") and tok.startswith(b":"):
                            continue
                        sdocs.append(ctx.replace(b"%s", tok))
                        sexps.append("INVALID_SYNTAX")
        impl, model, diffs, crashes, mcr = K.correspond(cfg, K.read_lines(sdocs))
        rep.count("stray-closer-and-colons/" + cfg, len(sdocs))
        for i in diffs[:5]:
            rep.broken_obligation("correspondence/stray-closer-and-colons", "model %r vs code %r on %r" % ((model[i] or "")[:150], (impl[i] or "")[:150], sdocs[i]), False)
        for i, a in enumerate(impl):
            if a is None:
                continue
            got = a.split(" ")[1] if a.startswith("err ") else a.split(" ")[0]
            if got != sexps[i]:
                found = True
                rep.finding("class/" + ("stray-closer-after-discard" if sexps[i] == "UNMATCHED_DELIMITER" else ("ratio-junk" if sexps[i] == "INVALID_NUMBER" else "double-colon")),
                            "expected %s, got %s for %r" % (sexps[i], a[:80], sdocs[i]),
                            {"kind": "read", "config": cfg, "opt": 0, "input_hex": C.hexs(sdocs[i]), "expected": [sexps[i]], "observed": a[:300]})
        rep.note_cases(len(sdocs), set(sdocs))

        # ---- number-like tokens: every combination of sign / integer part / fraction / exponent / suffix pieces;
        #      a token is a number exactly when it matches the EDN number grammar, otherwise INVALID_NUMBER
        if cfg in ("core", "exp"):
            toks = []
            for sg in ("", "+", "-"):
                for ip in ("0", "7", "12", "007"):
                    for fr in ("", ".", ".5", "..5", ".5.5"):
                        for ex in ("", "e", "e+", "e-", "e5", "e+5", "E-5", "e5.", "e5e5", "ee5", "e+-5", "E"):
                            for sf in ("", "N", "M", "NM", "x", "N5", "M "):
                                toks.append((sg + ip + fr + ex + sf).encode())
            ndocs, nexp = [], []
            for t in toks:
                valid = bool(NUM_RE.match(t.strip()))
                for ctx in (b"%s", b"[1 %s 2]", b"{:k %s}"):
                    ndocs.append(ctx.replace(b"%s", t))
                    nexp.append(valid)
            impl, model, diffs, crashes, mcr = K.correspond(cfg, K.read_lines(ndocs))
            rep.count("number-tokens/" + cfg, len(ndocs))
            for i in diffs[:5]:
                rep.broken_obligation("correspondence/number-token", "model %r vs code %r on %r" % ((model[i] or "")[:150], (impl[i] or "")[:150], ndocs[i]), False)
            for i, a in enumerate(impl):
                if a is None:
                    continue
                if nexp[i] and not a.startswith("ok "):
                    found = True
                    rep.finding("number/valid-rejected", "a well-formed number token was rejected: %r -> %s" % (ndocs[i], a[:80]),
                                {"kind": "read", "config": cfg, "opt": 0, "input_hex": C.hexs(ndocs[i]), "expected": "ok", "observed": a[:300]})
                if not nexp[i] and not a.startswith("err INVALID_NUMBER"):
                    found = True
                    rep.finding("number/invalid-accepted", "a malformed number token was not rejected as INVALID_NUMBER: %r -> %s" % (ndocs[i], a[:80]),
                                {"kind": "read", "config": cfg, "opt": 0, "input_hex": C.hexs(ndocs[i]), "expected": ["INVALID_NUMBER"], "observed": a[:300]})
            rep.note_cases(len(ndocs), set(ndocs))

        # ---- extension spellings of numbers (separators, hexadecimal, octal, radix, ratio pieces in every combination): which tokens are
        #      numbers is decided by the grammar the Lean theorems identify with the model's number reader (Spec.ExpNum / Spec.CljNum:
        #      exp_number_reader_is_the_grammar, clj_number_reader_is_the_grammar), so the model's verdict on a token is the expectation
        if cfg in ("clj", "exp", "both"):
            xt = []
            for sg in ("", "-"):
                for ip in ("0", "7", "12", "1_2", "1__2", "_1", "1_", "00", "007", "08", "0x1F", "0x", "0xG", "0x1_F", "2r101", "2r", "37r1", "2r2", "1r0", "36rZ", "1_0r1"):
                    for mid in ("", ".", ".5", "._5", ".5_", "_.5", "/2", "/0", "/02", "/0a", "/-2", "/2/3", "/_2", "/2_", "/1_0"):
                        for ex in ("", "e5", "_e5", "e_5", "e5_", "e1_0", "E+1_0"):
                            for sf in ("", "N", "M", "_N", "_M", "N_"):
                                xt.append((sg + ip + mid + ex + sf).encode())
            xdocs = list(xt) + [b"[1 " + t + b" 2]" for t in xt[::7]]
            impl, model, diffs, crashes, mcr = K.correspond(cfg, K.read_lines(xdocs))
            rep.count("extension-number-tokens/" + cfg, len(xdocs))
            rep.count("extension-number-tokens-accepted/" + cfg, sum(1 for m in model if m and m.startswith("ok ")))
            seen_cls = set()
            for i in diffs:
                a_, m_ = impl[i] or "", model[i] or ""
                if m_.startswith("err INVALID_NUMBER") and a_.startswith("ok "):
                    cls = "number/invalid-accepted"
                elif m_.startswith("ok ") and a_.startswith("err "):
                    cls = "number/valid-rejected"
                elif m_.startswith("ok ") and a_.startswith("ok "):
                    cls = "number/read-differently"
                else:
                    cls = "number/wrong-class-or-range"
                if cls in seen_cls:
                    continue
                seen_cls.add(cls)
                found = True
                rep.finding(cls, "by the proven number grammar of this configuration %r must read as %s; the library answers %s" % (xdocs[i], m_[:100], a_[:100]),
                            {"kind": "read", "config": cfg, "opt": 0, "input_hex": C.hexs(xdocs[i]), "expected": m_[:300], "observed": a_[:300]})
            rep.note_cases(len(xdocs), set(xdocs))

        # ---- the same invariant on every fault point of a small corpus
        if fault_family(rep, rng, cfg, tier):
            found = True
    U.finish_proof(rep, lean, found)


def replay(path):
    r = json.load(open(path))
    print(json.dumps(r, indent=1)[:2500])
    if r.get("kind") == "line":
        exe = C.harness(r.get("style", "wrap"), r["config"], "san")
        out = C.run_lines(exe, [r["line"]])
        print("now:", out.outputs, out.returncode, out.stderr[-1500:])
        return 0
    exe = C.harness("unity", r["config"], "san")
    out = C.run_lines(exe, K.read_lines([bytes.fromhex(r["input_hex"])], r.get("opt", 0)))
    print("now:", out.outputs, "| expected:", r.get("expected"))
    return 0
