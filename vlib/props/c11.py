"""C11 - source ranges of values and error ranges are exact and inside the input.

Lean: Edn.Properties.C11 (line-feed index complete and sorted; line/column arithmetic for
every input and offset).  Correspondence: whole reads with ranges and the newline-index entry
points, real code vs model.  Oracle (real library only): every value's range lies inside the
input, encloses its children's pairwise disjoint ranges (in index order for sequences),
re-reading exactly that byte range yields the same sub-tree; for every failed read
0 <= start <= end <= length and line/column recomputed in Python."""
import json

from .. import common as C
from .. import corr as K
from .. import gen as G
from .. import sexp
from . import util as U
from .c12 import ref_lines

PID = "C11"


def linecol(doc, off):
    before = doc[:off]
    line = before.count(b"\n") + 1
    last = before.rfind(b"\n")
    return line, off - last  # last = -1 -> off + 1


def check_tree(root, n):
    """structural range conditions; returns problem string or None"""
    for node in root.walk():
        if node.s == 0 and node.e == 0 and node is not root:
            continue  # synthesised by the reader, not read from a span
        if not (0 <= node.s <= node.e <= n):
            return "range %d..%d of a %s outside the input (length %d)" % (node.s, node.e, node.kind, n)
        prev_end = None
        kids = [k for k in node.kids if not (k.s == 0 and k.e == 0)]
        for k in kids:
            if not (node.s <= k.s and k.e <= node.e):
                return "child %s %d..%d not enclosed by %s %d..%d" % (k.kind, k.s, k.e, node.kind, node.s, node.e)
        if node.kind in ("list", "vec"):
            for k in kids:
                if prev_end is not None and k.s < prev_end:
                    return "children of a %s out of order / overlapping at %d" % (node.kind, k.s)
                prev_end = k.e
        else:
            spans = sorted((k.s, k.e) for k in kids)
            for (a, b), (c, d) in zip(spans, spans[1:]):
                if c < b:
                    return "children of a %s overlap: %d..%d and %d..%d" % (node.kind, a, b, c, d)
        if node.meta is not None and not (node.meta.s == 0 and node.meta.e == 0):
            if not (node.s <= node.meta.s and node.meta.e <= node.e):
                return "metadata range %d..%d outside its target %d..%d" % (node.meta.s, node.meta.e, node.s, node.e)
    return None


NEST_LIMIT = 100  # the reader refuses the 101st level; the family below only needs to straddle it


def edge_docs(rng, cfg, tier):
    """Every kind of opener / marker / token start as the LAST byte(s) of the input (and followed by a blank, a line feed, one more
    byte), below 0, 1, 2, limit-2 .. limit+2 levels opened by each kind of nesting construct, with and without line feeds between
    the levels.  All of them are ill-formed or trivially short: what matters is the error range and its line/column."""
    clj = cfg in ("clj", "both")
    exp = cfg in ("exp", "both")
    units = [b"[", b"(", b"{", b"#{", b"#t ", b"#_", b"[\n", b"#a/b\n", b"{:k ", b"[1 "]
    if clj:
        units += [b"^", b"^:m ", b"#:n{:k "]
    mixed = [b"[", b"(", b"{", b"#{", b"#t ", b"#_"] + ([b"^:m "] if clj else [])
    tails = [b"(", b"[", b"{", b"#{", b"#_", b"#t", b"#tag", b"#a/b", b"#:", b"#:a", b"#:a{", b"^", b"^:a", b"^{", b"#", b"##", b"##I", b"##Inf", b"\\", b"\\a", b"\\u", b"\\u00", b"\\new", b"\"", b"\"a",
             b"\"a\\", b":", b":a", b"a/", b"a", b"1", b"1.", b"1e", b"-", b";", b"; c", b")", b"]", b"}", b"#}", b"#_#_", b"#_ 1", b"#t #", b"#t #u", b"#\n", b"# ", b"#(", b"#[", b"#\"", b"\"\"\"", b"\"\"\"\n",
             b"\"\"\"\na", b"1_", b"0x", b"1/", b"\x7f", b"\xce", b""]
    depths = [0, 1, 2, NEST_LIMIT - 2, NEST_LIMIT - 1, NEST_LIMIT, NEST_LIMIT + 1, NEST_LIMIT + 2]
    sufs = [b"", b" ", b"\n", b"x", b" 1"]
    docs = []
    for ui, u in enumerate(units + [None]):
        for d in depths:
            if u is None:
                pre = b"".join(mixed[(i * 7 + i // 3) % len(mixed)] for i in range(d))
            else:
                pre = u * d
            if tier == "quick" and ui >= 4 and d in (2, NEST_LIMIT - 2, NEST_LIMIT + 2):
                continue
            for t in tails:
                for s in sufs:
                    if tier == "quick" and s in (b"x", b" 1") and (ui % 3 != len(t) % 3):
                        continue
                    docs.append(pre + t + s)
    # levels opened on separate lines / after leading trivia, at random depths around the limit
    for _ in range(200 if tier == "quick" else 3000):
        d = rng.choice([0, 1, 3, NEST_LIMIT - 1, NEST_LIMIT, NEST_LIMIT, NEST_LIMIT + 1, rng.randint(0, NEST_LIMIT + 5)])
        pre = b"".join(rng.choice(mixed) + rng.choice([b"", b"", b" ", b"\n", b",\n  "]) for _ in range(d))
        docs.append(rng.choice([b"", b"\n", b"; c\n", b"  "]) + pre + rng.choice(tails) + rng.choice(sufs))
    seen, out = set(), []
    for d in docs:
        if d and d not in seen:
            seen.add(d)
            out.append(d)
    return out


def check_error(rep, cfg, d, a, opt=0):
    """0 <= start <= end <= length and recomputed line/column for a failed read; True when a finding was reported"""
    m = U.ERR_RE.match(a)
    if not m:
        return False
    so, sl, sc, eo, el, ec = map(int, m.groups()[2:8])
    if not (0 <= so <= eo <= len(d)):
        rep.finding("error-range", "error range %d..%d outside / inverted for input of length %d" % (so, eo, len(d)),
                    {"kind": "read", "config": cfg, "opt": opt, "input_hex": C.hexs(d), "observed": a})
        return True
    if (sl, sc) != linecol(d, so) or (el, ec) != linecol(d, eo):
        rep.finding("error-linecol", "line/column %d:%d %d:%d, recomputed %s %s" % (sl, sc, el, ec, linecol(d, so), linecol(d, eo)),
                    {"kind": "read", "config": cfg, "opt": opt, "input_hex": C.hexs(d), "observed": a})
        return True
    return False


def edge_family(rep, rng, cfg, tier):
    found = False
    docs = edge_docs(rng, cfg, tier)
    for opt in (0, 1):
        lines = K.read_lines(docs, opt)
        if opt == 0:
            impl, model, diffs, crashes, mcr = K.correspond(cfg, lines)
        else:
            impl, crashes = K.run_impl(cfg, lines)
            model, diffs = [], []
        rep.count("openers-at-end/%s/opt%d" % (cfg, opt), len(lines))
        for idx, rc, err in crashes:
            found = True
            rep.finding("crash", "read crashed", {"kind": "read", "config": cfg, "opt": opt, "input_hex": C.hexs(docs[idx]), "stderr": err[:3000]})
        for i in diffs[:5]:
            rep.broken_obligation("correspondence/openers-at-end", "model %r vs code %r on %r" % ((model[i] or "")[:200], (impl[i] or "")[:200], docs[i][-60:]), False)
        nerr = 0
        for d, a in zip(docs, impl):
            if a is None:
                continue
            if a.startswith("err "):
                nerr += 1
                if check_error(rep, cfg, d, a, opt):
                    found = True
            elif a.startswith("ok "):
                prob = check_tree(sexp.parse_result(a), len(d))
                if prob:
                    found = True
                    rep.finding("value-range", prob, {"kind": "read", "config": cfg, "opt": opt, "input_hex": C.hexs(d), "observed": a[:400]})
        rep.count("openers-at-end-errors/%s/opt%d" % (cfg, opt), nerr)
        rep.note_cases(len(lines), set(C.sha(l)[:16] for l in lines), sample={"doc": docs[len(docs) // 2][-80:].decode("latin-1"), "result": (impl[len(docs) // 2] or "")[:200]})
    return found


def run(tier):
    rep = C.Report(PID, tier, "proof")
    rng = C.rng(PID)
    lean = U.lean_part(rep, PID)
    found = False
    ndocs = 400 if tier == "quick" else 5000
    for cfg in (["core", "both"] if tier == "quick" else ["core", "clj", "exp", "both"]):
        docs = []
        for _ in range(ndocs):
            r = rng.random()
            if r < 0.6:
                docs.append(G.render_doc(rng, G.gen_value(rng, cfg, depth=3), cfg))
            elif r < 0.8:
                docs.append(G.gen_ext_doc(rng, cfg))
            else:
                docs.append(b"\n" * rng.randint(0, 5) + G.render_doc(rng, ("tagged", "inst", G.gen_value(rng, cfg, depth=2)), cfg))
        bad = [G.mutate(rng, d) for d in docs[: ndocs // 2]]
        bad += [rng.choice([b"\n", b" ", b"x\n"]) * rng.choice([1, 15, 16, 17, 100]) + G.mutate(rng, d) for d in docs[: ndocs // 4]]
        if tier == "thorough":
            bad += [b"\n" * 5000 + b"]", (b"a\n" * 2500) + b"[1 2"]
        # malformed tokens of every class, at the end of the input and followed by more text: their error range lies inside the input
        toks = [b"\\o8", b"\\o9", b"\\o", b"\\o400", b"\\o4000", b"\\o77x", b"\\u12", b"\\u", b"\\uZZZZ", b"\\u00", b"\\u123456789", b"\\newlin", b"\\ab", b"\\", b"1e", b"1e+", b"1.5.2", b"1x",
                b"0x", b"0xG", b"2r", b"2r2", b"99r1", b"1/", b"1/0", b"1_", b"##", b"##X", b"##Na", b"#", b"#:", b"#:a", b":", b"::a", b"a/", b"/a", b"\"abc", b"\"a\\", b"\"\\u12\"",
                b"\"\"\"\nabc", b"^", b"^:a", b"^5 x", b"#_", b"#foo", b"}", b"1N5", b"1M.", b"+", b"-", b"+a:", b"\x7f"]
        for t in toks:
            for ctx in (b"%s", b"[1 %s]", b"[1 %s", b"{:k %s}", b"\n\n  %s", b"[1\n %s\n 2]", b"%s 1 2 3 4 5 6 7 8 9 10 11 12", b"(\"s\" %s)"):
                bad.append(ctx.replace(b"%s", t))
        bad = [b for b in bad if b]
        alldocs = docs + bad
        lines = K.read_lines(alldocs)
        impl, model, diffs, crashes, mcr = K.correspond(cfg, lines)
        rep.count("reads/" + cfg, len(lines))
        for idx, rc, err in crashes:
            found = True
            rep.finding("crash", "read crashed", {"kind": "read", "config": cfg, "input_hex": C.hexs(alldocs[idx]), "stderr": err[:3000]})
        for i in diffs[:5]:
            rep.broken_obligation("correspondence/read", "model %r vs code %r on %r" % ((model[i] or "")[:200], (impl[i] or "")[:200], alldocs[i][:200]), False)
        reread, rr_expect = [], []
        for i, a in enumerate(impl):
            if a is None:
                continue
            d = alldocs[i]
            if a.startswith("ok "):
                root = sexp.parse_result(a)
                prob = check_tree(root, len(d))
                if prob:
                    found = True
                    rep.finding("value-range", prob, {"kind": "read", "config": cfg, "input_hex": C.hexs(d), "observed": a[:400]})
                    continue
                nodes = [x for x in root.walk() if not (x.s == 0 and x.e == 0)]
                if len(nodes) > 12:
                    nodes = rng.sample(nodes, 12)
                for x in nodes:
                    if x.e > x.s:
                        reread.append(d[x.s:x.e])
                        rr_expect.append((x.strip(), i, x.s, x.e))
            elif a.startswith("err "):
                m = U.ERR_RE.match(a)
                if not m:
                    continue
                so, sl, sc, eo, el, ec = map(int, m.groups()[2:8])
                if not (0 <= so <= eo <= len(d)):
                    found = True
                    rep.finding("error-range", "error range %d..%d outside / inverted for input of length %d" % (so, eo, len(d)),
                                {"kind": "read", "config": cfg, "input_hex": C.hexs(d), "observed": a})
                    continue
                if (sl, sc) != linecol(d, so) or (el, ec) != linecol(d, eo):
                    found = True
                    rep.finding("error-linecol", "line/column %d:%d %d:%d, recomputed %s %s" % (sl, sc, el, ec, linecol(d, so), linecol(d, eo)),
                                {"kind": "read", "config": cfg, "input_hex": C.hexs(d), "observed": a})
        # re-reading exactly the byte range of a value yields the same sub-tree
        rl = K.read_lines(reread)
        rr, rcr = K.run_impl(cfg, rl, prefix=["D 0"])
        rep.count("rereads/" + cfg, len(rl))
        for (exp, i, s, e), got in zip(rr_expect, rr):
            if got is None:
                continue
            if got != "ok " + exp:
                found = True
                rep.finding("reread", "re-reading bytes %d..%d gives %s, the value there was %s" % (s, e, got[:100], exp[:100]),
                            {"kind": "reread", "config": cfg, "input_hex": C.hexs(alldocs[i]), "start": s, "end": e, "expected": "ok " + exp, "observed": got[:400]})
        rep.note_cases(len(alldocs) + len(rl), set(C.sha(d)[:16] for d in alldocs + reread), sample={"doc": alldocs[0][:200].decode("latin-1"), "result": (impl[0] or "")[:300]})

    # ---- openers / markers / token starts as the last bytes of the input, at every nesting depth around the limit, all configurations
    for cfg in ("core", "clj", "exp", "both"):
        if edge_family(rep, rng, cfg, tier):
            found = True

    # ---- newline index entry points (exhaustive small + long random)
    lf = []
    import itertools
    for n in range(0, 49):
        lf.append(b"a" * n)
        for k in (1, 2, 3):
            if k > n:
                continue
            combos = list(itertools.combinations(range(n), k))
            if tier == "quick" and len(combos) > 300:
                combos = rng.sample(combos, 300)
            for pos in combos:
                b = bytearray(b"a" * n)
                for p in pos:
                    b[p] = 0x0A
                lf.append(bytes(b))
    for k in (100, 1000) + ((5000,) if tier == "thorough" else ()):
        lf.append(bytes(rng.choice([0x0A, 0x61, 0x0D, 0x20]) for _ in range(k)))
    lines = ["L " + C.hexs(b) for b in lf]
    impl, model, diffs, crashes, mcr = K.correspond("core", lines)
    rep.count("newline-index", len(lines))
    for i, a in enumerate(impl):
        if a is not None and a != ref_lines(lf[i]):
            found = True
            rep.finding("newline-index", "line index / positions differ from the definition", {"kind": "line", "config": "core", "line": lines[i], "observed": a[:300]})
    for i in diffs[:3]:
        rep.broken_obligation("correspondence/lines", "model vs code on %s" % lines[i][:200], False)
    rep.note_cases(len(lines), set(C.sha(l)[:16] for l in lines))
    U.finish_proof(rep, lean, found)


def replay(path):
    r = json.load(open(path))
    print(json.dumps(r, indent=1)[:2500])
    exe = C.harness("unity", r["config"], "san")
    if r.get("kind") == "line":
        out = C.run_lines(exe, [r["line"]])
    else:
        doc = bytes.fromhex(r["input_hex"])
        if r.get("kind") == "reread":
            doc = doc[r["start"]:r["end"]]
        out = C.run_lines(exe, K.read_lines([doc], r.get("opt", 0)))
    print("now:", out.outputs)
    return 0
