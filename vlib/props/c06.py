"""C06 - string contents, length and termination are exact and stable.

Lean: Edn.Properties.C06 (the scan stops exactly at the closing quote of a spelled content;
the escape flag; decoding yields exactly the denoted bytes; undefined escapes are an
access-time error).  Correspondence: string literals through reader / string accessors, real
code vs model.  Oracle: a Python decoder for the documented escapes of each configuration;
every string is fetched twice (pointer and length must be stable, byte after the end NUL).
Lifetimes: the same literal read as several documents, fetched / hashed / compared / looked up across
the documents in every order, one document freed, unrelated documents read into the freed memory, the
survivors fetched again (exact bytes, terminator, same pointer, same hash, helpers agree) - sanitised
and plain -O2 builds, real library against the Python decoder."""
import itertools
import json

from .. import common as C
from .. import corr as K
from . import util as U

PID = "C06"


def py_decode(content, cfg):
    """decoded bytes or None (invalid escape / access-time error)"""
    clj = cfg in ("clj", "both")
    out = bytearray()
    i, n = 0, len(content)
    while i < n:
        c = content[i]
        if c != 0x5C:
            out.append(c)
            i += 1
            continue
        i += 1
        if i >= n:
            return None
        e = content[i]
        i += 1
        simple = {0x22: 0x22, 0x5C: 0x5C, 0x6E: 0x0A, 0x74: 0x09, 0x72: 0x0D}
        if e in simple:
            out.append(simple[e])
        elif clj and e == 0x66:
            out.append(0x0C)
        elif clj and e == 0x62:
            out.append(0x08)
        elif clj and e == 0x75:
            hx = content[i:i + 4]
            if len(hx) < 4:
                return None
            try:
                cp = int(hx.decode("ascii"), 16)
                if not all(ch in b"0123456789abcdefABCDEF" for ch in hx):
                    return None
            except ValueError:
                return None
            i += 4
            if 0xD800 <= cp <= 0xDFFF:
                return None
            out.extend(chr(cp).encode("utf-8"))
        elif clj and 0x30 <= e <= 0x37:
            v = e - 0x30
            for _ in range(2):
                if i < n and 0x30 <= content[i] <= 0x37 and v * 8 + content[i] - 0x30 <= 255:
                    v = v * 8 + content[i] - 0x30
                    i += 1
                else:
                    break
            out.append(v)
        else:
            return None
    return bytes(out)


def scan_literal(doc):
    """content between the quotes by the byte-at-a-time rule, or None when unterminated"""
    i = 1
    n = len(doc)
    while i < n:
        if doc[i] == 0x5C:
            if i + 1 >= n:
                return None
            i += 2
        elif doc[i] == 0x22:
            return doc[1:i]
        else:
            i += 1
    return None


def literals(tier, rng, cfg):
    out = []
    classes = [b"a", b"\"", b"\\", b"\x00", b"\x80", b"n", b"u", b"0", b"\n"]
    maxlen = 5 if tier == "quick" else 6
    for n in range(0, maxlen + 1):
        for tup in itertools.product(classes, repeat=n):
            out.append(b"\"" + b"".join(tup) + b"\"")
            if n <= 3:
                out.append(b"\"" + b"".join(tup))
    # lengths up to 300 with quotes / backslashes at every offset
    step = 1 if tier == "thorough" else 7
    for n in [0, 1, 14, 15, 16, 17, 31, 32, 33, 47, 48, 49, 100, 300]:
        base = b"b" * n
        out.append(b"\"" + base + b"\"")
        for p in range(0, n, 1 if n <= 49 else step):
            for sp in (b"\\\"", b"\\\\", b"\\n", b"\\", b"\"", b"\x00", b"\\u0041", b"\\101", b"\\q"):
                out.append(b"\"" + base[:p] + sp + base[p:] + b"\"")
                out.append(b"\"" + base[:p] + sp + base[p:] + b"\" \\c \"x\\\\\"")
    # every byte value directly after a backslash (the escape selector), alone and as the lead byte of a valid UTF-8
    # character, and every byte value at each of the four positions of a \u escape and of the three of an octal escape
    for b in range(256):
        if b in (0x22,):
            continue  # \" is covered above; a quote here would end the literal elsewhere
        out.append(b"\"a\\" + bytes([b]) + b"b\"")
        out.append(b"\"\\" + bytes([b]) + b"\x82\xb0 tail\"")
        for pos in range(4):
            hx = bytearray(b"00e9")
            hx[pos] = b
            if b != 0x22 and b != 0x5C:
                out.append(b"\"x\\u" + bytes(hx) + b"y\"")
        for pos in range(3):
            oc = bytearray(b"101")
            oc[pos] = b
            if b != 0x22 and b != 0x5C:
                out.append(b"\"\\" + bytes(oc) + b"z\"")
    for _ in range(500 if tier == "quick" else 5000):
        n = rng.choice([3, 10, 16, 17, 40, 300])
        body = b"".join(rng.choice([b"a", b"\\\"", b"\\\\", b"\\n", b"\\t", b"\\r", b"\\f", b"\\b", b"\\u00e9", b"\\u4e2d", b"\\ud800", b"\\u12", b"\\7", b"\\18",
                                    b"\\377", b"\\400", b"\x00", b"\xff", b"\\x", b" ", b"\n"]) for _ in range(n))
        out.append(b"\"" + body + b"\"")
    return out


def sgw(dec):
    return "ERR" if dec is None else "%d:%s" % (len(dec), C.hexs(dec))


class Script:
    """A `Q` line under construction with the expected output of each token (None = any) and pairs of tokens whose
    outputs must be the same whatever they are."""

    def __init__(self, family):
        self.family = family
        self.toks, self.want, self.same, self.last = [], [], [], {}

    def add(self, tok, want=None):
        self.toks.append(tok)
        self.want.append(want)
        return len(self.toks) - 1

    def hash(self, path):
        """the hash of a live value never changes: every h of one path must print what the first one printed"""
        i = self.add("h:" + path)
        if path in self.last:
            self.same.append((self.last[path], i))
        else:
            self.last[path] = i

    def line(self):
        return "Q " + " ".join(self.toks)


SHAPES = {
    # name: (document around the literal, path of the literal below the register, container probes)
    "bare": (lambda lit: lit, "", ()),
    "vec": (lambda lit: b"[" + lit + b" 1]", ".0", ()),
    "mapkey": (lambda lit: b"{" + lit + b" 1 :z 2}", ".0", ("lk", "ck")),
    "mapval": (lambda lit: b"{:k " + lit + b"}", ".1", ()),
    "set": (lambda lit: b"#{" + lit + b"}", ".0", ("sc",)),
    "nested": (lambda lit: b"[[0 " + lit + b"] nil]", ".0.1", ()),
}


def lifetime_contents(tier, rng, cfg):
    """literal contents for the several-documents family: every escape kind of the build at the start, in the middle and
    at the end of bodies whose decoded size crosses the allocation granules, plain bodies, NUL bytes, undecodable ones"""
    kinds = [b"\\n", b"\\t", b"\\r", b"\\\\", b"\\\""]
    if cfg in ("clj", "both"):
        kinds += [b"\\u0041", b"\\u00e9", b"\\u20ac", b"\\101", b"\\7", b"\\f", b"\\b", b"\\u0000"]
    letters = b"abcdefghijklmnopqrstuvwxyz0123456789 ABCDEFGHIJKLMNOPQRSTUVWXYZ-_.,;"
    sizes = [0, 1, 3, 7, 8, 15, 16, 17, 31, 50, 100, 300] if tier == "thorough" else [0, 3, 7, 16, 50, 300]
    out = []
    for n in sizes:
        body = (letters * 5)[:n]
        for esc in (kinds if tier == "thorough" else rng.sample(kinds, 3)):
            pos = rng.choice([0, n // 2, n])
            out.append(body[:pos] + esc + body[pos:])
        out.append(body[:n // 2] + rng.choice(kinds) + body[n // 2:] + rng.choice(kinds) * 2)
    for n in (0, 1, 5, 16, 40, 300):
        out.append((letters * 5)[:n])                       # no escape: the zero-copy path and its terminated copy
    out.append(b"ab\x00cd\\n")                               # raw NUL next to an escape
    out.append(b"\x00")
    out.append(b"caf\xc3\xa9 \\t\xe4\xb8\xad")
    out.append(b"bad \\q escape")                            # undecodable in every build: ERR before and after
    out.append(b"\\u12 short" if cfg in ("clj", "both") else b"\\u0041 not here")
    return out


def lifetimes(tier, rng, cfg):
    """Scripts over several live documents holding the same literal (see the module text).  Returns Script objects."""
    out = []
    thorough = tier == "thorough"
    contents = lifetime_contents(tier, rng, cfg)
    pairs = [("bare", "bare"), ("vec", "vec"), ("mapkey", "bare"), ("bare", "mapkey"), ("set", "vec"), ("mapval", "set"),
             ("nested", "mapval"), ("mapkey", "mapkey"), ("set", "set")]
    presets = [()]
    for k in (1, 2, 3, 4):
        presets += list(itertools.combinations(("sg:a", "sg:b", "h:a", "h:b"), k))
    presets += [("sg:b", "sg:a"), ("h:b", "sg:a"), ("se:a",), ("se:b", "sg:b"), ("sg:a", "sg:a")]

    def filler(s, probe_len, regs, free_some=True):
        # unrelated documents of the same decoded size come and go: whatever was released is handed out again
        for j, k in enumerate(regs):
            body = bytes([0x41 + (j * 7 + i) % 26 for i in range(max(0, probe_len - 1))])
            s.add("r%d=%s" % (k, C.hexs(b"\"" + body + b"\\n\"")), "ok")
            s.add("sg:%d" % k, sgw(body + b"\n"))
            if free_some and j % 2 == 1:
                s.add("f:%d" % k, "freed")

    def after(s, path, lit, dec, cstr, fresh):
        # what the property promises for a live value, asked again
        s.add("sg:" + path, sgw(dec))
        s.add("sg:" + path, sgw(dec))
        s.add("se:%s:%s" % (path, C.hexs(cstr)), "1" if dec is not None and dec == cstr else "0")
        if b"\x00" not in cstr:
            s.add("se:%s:%s" % (path, C.hexs(cstr + b"x")), "0")
        s.hash(path)
        s.add("r%d=%s" % (fresh, C.hexs(lit)), "ok")
        s.add("e:%s:%d" % (path, fresh), "1" if dec is not None else None)
        s.add("e:%d:%s" % (fresh, path), "1" if dec is not None else None)
        s.add("sg:%d" % fresh, sgw(dec))
        s.add("sg:" + path, sgw(dec))

    for content in contents:
        lit = b"\"" + content + b"\""
        dec = py_decode(content, cfg)
        probe = dec if dec is not None else content
        cstr = probe.split(b"\x00")[0]
        yes = "1" if dec is not None else None
        # --- two documents -------------------------------------------------------------------------------------
        for sa, sb in [pairs[0]] + rng.sample(pairs[1:], 4 if thorough else 3):
            pa, pb = "0" + SHAPES[sa][1], "1" + SHAPES[sb][1]
            links = [["e:%s:%s" % (pa, pb)], ["e:%s:%s" % (pb, pa)], ["c:%s:%s" % (pa, pb), "e:%s:%s" % (pa, pb)]]
            if sa == sb:
                links.append(["e:0:1"])
            for op in SHAPES[sa][2]:
                links.append(["%s:0:%s" % (op, pb)])
            for op in SHAPES[sb][2]:
                links.append(["%s:1:%s" % (op, pa)])
            links.append([t for l in links for t in l])
            combos = [(pre, link, victim) for pre in presets for link in links for victim in (0, 1, None)]
            # a sample of the product per literal and shape pair (the whole product is covered many times over across the
            # literals), plus always: nothing / one side / the other side / both fetched before the plain comparison
            combos = rng.sample(combos, 40 if thorough else 25) + [(pre, links[0], v) for pre in ((), ("sg:a",), ("sg:b",), ("sg:a", "sg:b"), ("h:a",)) for v in (0, 1)]
            for pre, link, victim in combos:
                s = Script("two-documents")
                s.add("r0=" + C.hexs(SHAPES[sa][0](lit)), "ok")
                s.add("r1=" + C.hexs(SHAPES[sb][0](lit)), "ok")
                for t in pre:
                    op, who = t.split(":")
                    path = pa if who == "a" else pb
                    if op == "sg":
                        s.add("sg:" + path, sgw(dec))
                    elif op == "h":
                        s.hash(path)
                    else:
                        s.add("se:%s:%s" % (path, C.hexs(cstr)), "1" if dec is not None and dec == cstr else "0")
                for t in link:
                    op = t.split(":")[0]
                    s.add(t, {"e": yes, "ck": yes, "sc": yes, "lk": "(int 1)" if dec is not None else None}.get(op))
                if rng.random() < 0.3:
                    s.add("sg:" + rng.choice([pa, pb]), sgw(dec))
                if victim is not None:
                    s.add("f:%d" % victim, "freed")
                filler(s, len(probe), (4, 5, 6, 7))
                for k, path in ((0, pa), (1, pb)):
                    if k != victim:
                        after(s, path, lit, dec, cstr, 8 + k)
                out.append(s)
        # --- three documents: what one value learnt from a second is passed on to a third -------------------------------
        chains = [(pre, order, keep) for pre in ((), ("sg:0",), ("sg:1",), ("sg:2",), ("h:0", "sg:0"), ("sg:0", "sg:2"))
                  for order in (("e:0:1", "e:1:2"), ("e:1:2", "e:0:1"), ("e:0:1", "e:0:2"), ("e:2:1", "e:1:0", "e:0:2"))
                  for keep in (0, 1, 2)]
        for pre, order, keep in rng.sample(chains, 30 if thorough else 10):
            s = Script("three-documents")
            for k in range(3):
                s.add("r%d=%s" % (k, C.hexs(lit)), "ok")
            for t in pre:
                if t.startswith("sg"):
                    s.add(t, sgw(dec))
                else:
                    s.hash(t.split(":")[1])
            for t in order:
                s.add(t, yes)
            gone = [k for k in range(3) if k != keep]
            rng.shuffle(gone)
            s.add("f:%d" % gone[0], "freed")
            filler(s, len(probe), (4, 5))
            s.add("f:%d" % gone[1], "freed")
            filler(s, len(probe), (6, 7, 9))
            after(s, str(keep), lit, dec, cstr, 8)
            out.append(s)
        # --- the literal twice in each of two documents ------------------------------------------------------------------
        twice = [(pre, link, victim) for pre in ((), ("sg:0.0",), ("sg:0.1",), ("sg:1.1",), ("sg:0.0", "sg:1.1"))
                 for link in (("e:0.0:0.1",), ("e:0:1",), ("e:0.0:0.1", "e:0:1"), ("e:0.1:1.0", "e:1.0:1.1"))
                 for victim in (0, 1)]
        for pre, link, victim in rng.sample(twice, 15 if thorough else 6):
            s = Script("twice-per-document")
            doc = b"[" + lit + b" " + lit + b"]"
            s.add("r0=" + C.hexs(doc), "ok")
            s.add("r1=" + C.hexs(doc), "ok")
            for t in pre:
                s.add(t, sgw(dec))
            for t in link:
                s.add(t, yes)
            s.add("f:%d" % victim, "freed")
            filler(s, len(probe), (4, 5, 6, 7))
            after(s, "%d.0" % (1 - victim), lit, dec, cstr, 8)
            after(s, "%d.1" % (1 - victim), lit, dec, cstr, 9)
            out.append(s)
    return out


def run(tier):
    rep = C.Report(PID, tier, "proof")
    rng = C.rng(PID)
    lean = U.lean_part(rep, PID)
    found = False
    for cfg in ("core", "clj", "exp", "both"):
        docs = literals(tier if cfg in ("core", "clj") else "quick", rng, cfg)
        if cfg in ("exp", "both"):
            docs = [d for d in docs if not d.startswith(b"\"\"\"\n")]
        lines = K.read_lines(docs)
        impl, model, diffs, crashes, mcr = K.correspond(cfg, lines)
        rep.count("literals/" + cfg, len(docs))
        for idx, rc, err in crashes:
            found = True
            rep.finding("crash", "reading or fetching a string crashed", {"kind": "read", "config": cfg, "input_hex": C.hexs(docs[idx]), "stderr": err[:3000]})
        for i in diffs[:5]:
            rep.broken_obligation("correspondence/read", "model %r vs code %r on %r" % ((model[i] or "")[:200], (impl[i] or "")[:200], docs[i][:100]), False)
        for i, a in enumerate(impl):
            if a is None:
                continue
            d = docs[i]
            content = scan_literal(d)
            if content is None:
                if not a.startswith("err INVALID_STRING"):
                    found = True
                    rep.finding("unterminated", "unterminated literal not reported as INVALID_STRING: %s" % a[:80], {"kind": "read", "config": cfg, "input_hex": C.hexs(d), "observed": a[:300]})
                continue
            dec = py_decode(content, cfg)
            end = len(content) + 2
            if dec is None:
                want = "ok (str 0 %d ERR)" % end
            else:
                want = "ok (str 0 %d %d %s)" % (end, len(dec), C.hexs(dec))
            if a != want:
                found = True
                cls = "unstable" if "UNSTABLE" in a else ("noterm" if "NOTERM" in a else "content")
                rep.finding("string/" + cls, "literal %r read as %s, denotes %s" % (d[:60], a[:120], want[:120]),
                            {"kind": "read", "config": cfg, "input_hex": C.hexs(d), "expected": want, "observed": a[:400]})
        # comparison helper and call histories get/get/equals in any order
        scripts, exps = [], []
        sample = rng.sample(docs, min(len(docs), 300 if tier == "quick" else 3000))
        # literals that shrink or keep their size when decoded, in every proportion (the helper must agree with the bytes
        # returned whatever the ratio of raw to decoded length): k escapes of each kind of the build x 0..3 plain bytes
        kinds = [b"\\n", b"\\t", b"\\\\", b"\\\""]
        if cfg in ("clj", "both"):
            kinds += [b"\\u0041", b"\\u00e9", b"\\u20ac", b"\\101", b"\\7", b"\\f", b"\\b", b"\\u0031"]
        for esc in kinds:
            for k in (1, 2, 3, 5):
                for plain in (b"", b"a", b"id-", b"xyz12345"):
                    for order in (0, 1):
                        body = (plain + esc * k) if order == 0 else (esc * k + plain)
                        sample.append(b"\"" + body + b"\"")
        for d in sample:
            content = scan_literal(d)
            if content is None:
                continue
            dec = py_decode(content, cfg)
            probe = dec if dec is not None else content
            cstr = probe.split(b"\x00")[0]
            for hist in itertools.permutations(["sg:0", "sg:0", "se:0:%s" % C.hexs(cstr)], 3):
                scripts.append("Q r0=%s %s" % (C.hexs(d), " ".join(hist)))
                exps.append((dec, cstr, hist))
            # near misses: one byte more, one byte less, last byte changed
            for miss in (cstr + b"x", cstr[:-1], cstr[:-1] + bytes([(cstr[-1] ^ 1) or 2]) if cstr else b"y"):
                if b"\x00" in miss:
                    continue
                hist = ("se:0:%s" % C.hexs(miss), "sg:0", "se:0:%s" % C.hexs(miss))
                scripts.append("Q r0=%s %s" % (C.hexs(d), " ".join(hist)))
                exps.append((dec, miss, hist))
        # fetching a string must not change what equality, hashing, membership and lookup say about it (plain and escaped
        # literals; a copy read separately is the probe)
        for lit in [b"\"name\"", b"\"\"", b"\"a\\tb\"", b"\"plain text of some length\"", b"\"x\\\\y\"", b"\"0123456789abcdef\"", b"\"\\n\""]:
            doc_m = b"{" + lit + b" 1 \"other\" 2 :k 3}"
            doc_s = b"#{" + lit + b" \"other\" 7}"
            hist = ["e:0.0:1", "lk:0:1", "sc:2:1", "h:0.0", "sg:0.0", "sg:2.0", "sg:0.2", "e:0.0:1", "lk:0:1", "ck:0:1", "sc:2:1", "h:0.0", "sg:1", "e:0.0:1", "lk:0:1", "sc:2:1", "h:1"]
            scripts.append("Q r0=%s r1=%s r2=%s %s" % (C.hexs(doc_m), C.hexs(lit), C.hexs(doc_s), " ".join(hist)))
            exps.append(("fetch-then-compare", None, hist))
        # several literals of one document fetched in interleaved orders: every buffer stays intact (exact bytes, NUL after
        # the end, same pointer) while the others are materialised; decoded lengths 0..33 cross every allocation granule
        for base_len in (0, 1, 6, 7, 8, 9, 14):
            lits, decs = [], []
            for j in range(8):
                body = b"abcdefghijklmnopqrstuvwxyz0123456789"[:base_len + j]
                lits.append(b"\"" + body + b"\\n\"")
                decs.append(body + b"\n")
            doc = b"[" + b" ".join(lits) + b"]"
            for order in ([0, 1, 2, 3, 4, 5, 6, 7], [7, 6, 5, 4, 3, 2, 1, 0], [0, 7, 1, 6, 2, 5, 3, 4], rng.sample(range(8), 8)):
                hist = ["sg:0.%d" % i for i in order] + ["sg:0.%d" % i for i in order] + ["sg:0.%d" % i for i in reversed(order)]
                scripts.append("Q r0=%s %s" % (C.hexs(doc), " ".join(hist)))
                exps.append((decs, None, hist))
        impl, model, diffs, crashes, mcr = K.correspond(cfg, scripts)
        rep.count("histories/" + cfg, len(scripts))
        for idx, rc, err in crashes:
            found = True
            head = next((l for l in err.split("\n") if "ERROR" in l or "runtime error" in l), err.strip().split("\n")[0] if err.strip() else "")
            rep.finding("history/crash", "fetch / compare script crashed: %s" % head[:160], {"kind": "script", "config": cfg, "line": scripts[idx], "stderr": err[-2500:]})
        for i in diffs[:5]:
            rep.broken_obligation("correspondence/script", "model %r vs code %r on %s" % (model[i], impl[i], scripts[i][:200]), False)
        for i, a in enumerate(impl):
            if a is None:
                continue
            dec, cstr, hist = exps[i]
            toks = a.split("\t")
            if dec == "fetch-then-compare":
                t = toks[3:]
                # positions: e lk sc h | sg sg sg | e lk ck sc h | sg | e lk sc h(probe)
                want_lk = "(int 1)"
                ok = (t[0] == t[7] == t[13] == "1" and t[1] == t[8] == t[14] == want_lk and t[2] == t[10] == t[15] == "1" and t[9] == "1" and t[3] == t[11] == t[16])
                if toks[:3] == ["ok", "ok", "ok"] and not ok:
                    found = True
                    rep.finding("history/fetch-changes-comparison", "equality / lookup / membership / hash of a string changed after it was fetched: %s" % t,
                                {"kind": "script", "config": cfg, "line": scripts[i], "observed": a[:600]})
                continue
            for op, t in zip(hist, toks[1:]):
                if op.startswith("sg") and isinstance(dec, list):
                    dd = dec[int(op.split(".")[1])]
                    want = "%d:%s" % (len(dd), C.hexs(dd))
                elif op.startswith("sg"):
                    want = "ERR" if dec is None else "%d:%s" % (len(dec), C.hexs(dec))
                else:
                    want = "1" if (dec is not None and dec == bytes.fromhex(op.split(":")[2].replace("-", ""))) else "0"
                if t != want:
                    found = True
                    rep.finding("history", "after history %s: %s gave %s, expected %s" % (list(hist), op[:10], t[:60], want[:60]),
                                {"kind": "script", "config": cfg, "line": scripts[i], "observed": a[:300]})
                    break
        # several live documents: get / equal / hash / lookup across documents, one freed, the others used afterwards
        life = lifetimes(tier if cfg in ("core", "clj") else "quick", rng, cfg)
        llines = [s.line() for s in life]
        for s in life:
            rep.count("lifetimes/%s/%s" % (s.family, cfg))
        for mode in ("san", "o2"):
            # a spread-out fiftieth first: when that already crashes the rest would only repeat it, one restart per script
            first = [i for i in range(len(llines)) if i % 50 == 0]
            rest = [i for i in range(len(llines)) if i % 50 != 0]
            louts, lcrashes = [None] * len(llines), []
            for stage in (first, rest):
                if lcrashes:
                    rep.count("lifetime-scripts-not-run-after-crashes/%s-%s" % (cfg, mode), len(stage))
                    break
                o, c = K.run_impl(cfg, [llines[i] for i in stage], mode=mode)
                for i, x in zip(stage, o):
                    louts[i] = x
                lcrashes += [(stage[j], rc, err) for j, rc, err in c if 0 <= j < len(stage)]
                rep.count("lifetime-scripts/%s-%s" % (cfg, mode), len(stage))
            for idx, rc, err in lcrashes:
                found = True
                head = next((l for l in err.split("\n") if "ERROR" in l or "runtime error" in l), err.strip().split("\n")[0] if err.strip() else "")
                rep.finding("lifetime/crash", "a string of a live document was used after another document had been freed (%s): %s" % (life[idx].family, head[:160]),
                            {"kind": "script", "config": cfg, "mode": mode, "line": llines[idx], "stderr": err[-2500:]})
            for s, a in zip(life, louts):
                if a is None:
                    continue
                t = a.split("\t")
                bad = None
                if len(t) != len(s.toks):
                    bad = "%d results for %d operations" % (len(t), len(s.toks))
                else:
                    for i, w in enumerate(s.want):
                        if w is not None and t[i] != w:
                            bad = "operation %d (%s) gave %s, expected %s" % (i, s.toks[i][:24], t[i][:80], w[:80])
                            break
                    else:
                        for i, j in s.same:
                            if t[i] != t[j]:
                                bad = "%s gave %s at first and %s later" % (s.toks[i], t[i], t[j])
                                break
                if bad:
                    found = True
                    cls = "unstable" if "UNSTABLE" in bad else ("noterm" if "NOTERM" in bad else "content")
                    rep.finding("lifetime/" + cls, "%s, %s build: %s" % (s.family, mode, bad),
                                {"kind": "script", "config": cfg, "mode": mode, "line": s.line(), "expected": "\t".join(w if w is not None else "*" for w in s.want),
                                 "observed": a[:1500]})
        rep.note_cases(len(llines), set(C.sha(l)[:16] for l in llines))
        rep.note_cases(len(docs) + len(scripts), set(C.sha(d)[:16] for d in docs), sample={"doc": docs[50].decode("latin-1")})
    U.finish_proof(rep, lean, found)


def replay(path):
    r = json.load(open(path))
    print(json.dumps(r, indent=1)[:2500])
    exe = C.harness("unity", r["config"], r.get("mode", "san"))
    line = r["line"] if r.get("kind") == "script" else K.read_lines([bytes.fromhex(r["input_hex"])])[0]
    out = C.run_lines(exe, [line])
    print("now:", out.outputs, "| expected:", r.get("expected"))
    return 0
