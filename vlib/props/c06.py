"""C06 - string contents, length and termination are exact and stable.

Lean: Edn.Properties.C06 (the scan stops exactly at the closing quote of a spelled content;
the escape flag; decoding yields exactly the denoted bytes; undefined escapes are an
access-time error).  Correspondence: string literals through reader / string accessors, real
code vs model.  Oracle: a Python decoder for the documented escapes of each configuration;
every string is fetched twice (pointer and length must be stable, byte after the end NUL)."""
import itertools
import json

from .. import common as C
from .. import corr as K
from . import util as U

PID = "C06"


def py_decode(content, cfg):
    """decoded bytes or None (invalid escape / access-time error)"""
    clj = cfg in ("clj", "both")
    out = bytearray()
    i, n = 0, len(content)
    while i < n:
        c = content[i]
        if c != 0x5C:
            out.append(c)
            i += 1
            continue
        i += 1
        if i >= n:
            return None
        e = content[i]
        i += 1
        simple = {0x22: 0x22, 0x5C: 0x5C, 0x6E: 0x0A, 0x74: 0x09, 0x72: 0x0D}
        if e in simple:
            out.append(simple[e])
        elif clj and e == 0x66:
            out.append(0x0C)
        elif clj and e == 0x62:
            out.append(0x08)
        elif clj and e == 0x75:
            hx = content[i:i + 4]
            if len(hx) < 4:
                return None
            try:
                cp = int(hx.decode("ascii"), 16)
                if not all(ch in b"0123456789abcdefABCDEF" for ch in hx):
                    return None
            except ValueError:
                return None
            i += 4
            if 0xD800 <= cp <= 0xDFFF:
                return None
            out.extend(chr(cp).encode("utf-8"))
        elif clj and 0x30 <= e <= 0x37:
            v = e - 0x30
            for _ in range(2):
                if i < n and 0x30 <= content[i] <= 0x37 and v * 8 + content[i] - 0x30 <= 255:
                    v = v * 8 + content[i] - 0x30
                    i += 1
                else:
                    break
            out.append(v)
        else:
            return None
    return bytes(out)


def scan_literal(doc):
    """content between the quotes by the byte-at-a-time rule, or None when unterminated"""
    i = 1
    n = len(doc)
    while i < n:
        if doc[i] == 0x5C:
            if i + 1 >= n:
                return None
            i += 2
        elif doc[i] == 0x22:
            return doc[1:i]
        else:
            i += 1
    return None


def literals(tier, rng, cfg):
    out = []
    classes = [b"a", b"\"", b"\\", b"\x00", b"\x80", b"n", b"u", b"0", b"\n"]
    maxlen = 5 if tier == "quick" else 6
    for n in range(0, maxlen + 1):
        for tup in itertools.product(classes, repeat=n):
            out.append(b"\"" + b"".join(tup) + b"\"")
            if n <= 3:
                out.append(b"\"" + b"".join(tup))
    # lengths up to 300 with quotes / backslashes at every offset
    step = 1 if tier == "thorough" else 7
    for n in [0, 1, 14, 15, 16, 17, 31, 32, 33, 47, 48, 49, 100, 300]:
        base = b"b" * n
        out.append(b"\"" + base + b"\"")
        for p in range(0, n, 1 if n <= 49 else step):
            for sp in (b"\\\"", b"\\\\", b"\\n", b"\\", b"\"", b"\x00", b"\\u0041", b"\\101", b"\\q"):
                out.append(b"\"" + base[:p] + sp + base[p:] + b"\"")
                out.append(b"\"" + base[:p] + sp + base[p:] + b"\" \\c \"x\\\\\"")
    # every byte value directly after a backslash (the escape selector), alone and as the lead byte of a valid UTF-8
    # character, and every byte value at each of the four positions of a \u escape and of the three of an octal escape
    for b in range(256):
        if b in (0x22,):
            continue  # \" is covered above; a quote here would end the literal elsewhere
        out.append(b"\"a\\" + bytes([b]) + b"b\"")
        out.append(b"\"\\" + bytes([b]) + b"\x82\xb0 tail\"")
        for pos in range(4):
            hx = bytearray(b"00e9")
            hx[pos] = b
            if b != 0x22 and b != 0x5C:
                out.append(b"\"x\\u" + bytes(hx) + b"y\"")
        for pos in range(3):
            oc = bytearray(b"101")
            oc[pos] = b
            if b != 0x22 and b != 0x5C:
                out.append(b"\"\\" + bytes(oc) + b"z\"")
    for _ in range(500 if tier == "quick" else 5000):
        n = rng.choice([3, 10, 16, 17, 40, 300])
        body = b"".join(rng.choice([b"a", b"\\\"", b"\\\\", b"\\n", b"\\t", b"\\r", b"\\f", b"\\b", b"\\u00e9", b"\\u4e2d", b"\\ud800", b"\\u12", b"\\7", b"\\18",
                                    b"\\377", b"\\400", b"\x00", b"\xff", b"\\x", b" ", b"\n"]) for _ in range(n))
        out.append(b"\"" + body + b"\"")
    return out


def run(tier):
    rep = C.Report(PID, tier, "proof")
    rng = C.rng(PID)
    lean = U.lean_part(rep, PID)
    found = False
    for cfg in ("core", "clj", "exp", "both"):
        docs = literals(tier if cfg in ("core", "clj") else "quick", rng, cfg)
        if cfg in ("exp", "both"):
            docs = [d for d in docs if not d.startswith(b"\"\"\"\n")]
        lines = K.read_lines(docs)
        impl, model, diffs, crashes, mcr = K.correspond(cfg, lines)
        rep.count("literals/" + cfg, len(docs))
        for idx, rc, err in crashes:
            found = True
            rep.finding("crash", "reading or fetching a string crashed", {"kind": "read", "config": cfg, "input_hex": C.hexs(docs[idx]), "stderr": err[:3000]})
        for i in diffs[:5]:
            rep.broken_obligation("correspondence/read", "model %r vs code %r on %r" % ((model[i] or "")[:200], (impl[i] or "")[:200], docs[i][:100]), False)
        for i, a in enumerate(impl):
            if a is None:
                continue
            d = docs[i]
            content = scan_literal(d)
            if content is None:
                if not a.startswith("err INVALID_STRING"):
                    found = True
                    rep.finding("unterminated", "unterminated literal not reported as INVALID_STRING: %s" % a[:80], {"kind": "read", "config": cfg, "input_hex": C.hexs(d), "observed": a[:300]})
                continue
            dec = py_decode(content, cfg)
            end = len(content) + 2
            if dec is None:
                want = "ok (str 0 %d ERR)" % end
            else:
                want = "ok (str 0 %d %d %s)" % (end, len(dec), C.hexs(dec))
            if a != want:
                found = True
                cls = "unstable" if "UNSTABLE" in a else ("noterm" if "NOTERM" in a else "content")
                rep.finding("string/" + cls, "literal %r read as %s, denotes %s" % (d[:60], a[:120], want[:120]),
                            {"kind": "read", "config": cfg, "input_hex": C.hexs(d), "expected": want, "observed": a[:400]})
        # comparison helper and call histories get/get/equals in any order
        scripts, exps = [], []
        sample = rng.sample(docs, min(len(docs), 300 if tier == "quick" else 3000))
        # literals that shrink or keep their size when decoded, in every proportion (the helper must agree with the bytes
        # returned whatever the ratio of raw to decoded length): k escapes of each kind of the build x 0..3 plain bytes
        kinds = [b"\\n", b"\\t", b"\\\\", b"\\\""]
        if cfg in ("clj", "both"):
            kinds += [b"\\u0041", b"\\u00e9", b"\\u20ac", b"\\101", b"\\7", b"\\f", b"\\b", b"\\u0031"]
        for esc in kinds:
            for k in (1, 2, 3, 5):
                for plain in (b"", b"a", b"id-", b"xyz12345"):
                    for order in (0, 1):
                        body = (plain + esc * k) if order == 0 else (esc * k + plain)
                        sample.append(b"\"" + body + b"\"")
        for d in sample:
            content = scan_literal(d)
            if content is None:
                continue
            dec = py_decode(content, cfg)
            probe = dec if dec is not None else content
            cstr = probe.split(b"\x00")[0]
            for hist in itertools.permutations(["sg:0", "sg:0", "se:0:%s" % C.hexs(cstr)], 3):
                scripts.append("Q r0=%s %s" % (C.hexs(d), " ".join(hist)))
                exps.append((dec, cstr, hist))
            # near misses: one byte more, one byte less, last byte changed
            for miss in (cstr + b"x", cstr[:-1], cstr[:-1] + bytes([(cstr[-1] ^ 1) or 2]) if cstr else b"y"):
                if b"\x00" in miss:
                    continue
                hist = ("se:0:%s" % C.hexs(miss), "sg:0", "se:0:%s" % C.hexs(miss))
                scripts.append("Q r0=%s %s" % (C.hexs(d), " ".join(hist)))
                exps.append((dec, miss, hist))
        # fetching a string must not change what equality, hashing, membership and lookup say about it (plain and escaped
        # literals; a copy read separately is the probe)
        for lit in [b"\"name\"", b"\"\"", b"\"a\\tb\"", b"\"plain text of some length\"", b"\"x\\\\y\"", b"\"0123456789abcdef\"", b"\"\\n\""]:
            doc_m = b"{" + lit + b" 1 \"other\" 2 :k 3}"
            doc_s = b"#{" + lit + b" \"other\" 7}"
            hist = ["e:0.0:1", "lk:0:1", "sc:2:1", "h:0.0", "sg:0.0", "sg:2.0", "sg:0.2", "e:0.0:1", "lk:0:1", "ck:0:1", "sc:2:1", "h:0.0", "sg:1", "e:0.0:1", "lk:0:1", "sc:2:1", "h:1"]
            scripts.append("Q r0=%s r1=%s r2=%s %s" % (C.hexs(doc_m), C.hexs(lit), C.hexs(doc_s), " ".join(hist)))
            exps.append(("fetch-then-compare", None, hist))
        # several literals of one document fetched in interleaved orders: every buffer stays intact (exact bytes, NUL after
        # the end, same pointer) while the others are materialised; decoded lengths 0..33 cross every allocation granule
        for base_len in (0, 1, 6, 7, 8, 9, 14):
            lits, decs = [], []
            for j in range(8):
                body = b"abcdefghijklmnopqrstuvwxyz0123456789"[:base_len + j]
                lits.append(b"\"" + body + b"\\n\"")
                decs.append(body + b"\n")
            doc = b"[" + b" ".join(lits) + b"]"
            for order in ([0, 1, 2, 3, 4, 5, 6, 7], [7, 6, 5, 4, 3, 2, 1, 0], [0, 7, 1, 6, 2, 5, 3, 4], rng.sample(range(8), 8)):
                hist = ["sg:0.%d" % i for i in order] + ["sg:0.%d" % i for i in order] + ["sg:0.%d" % i for i in reversed(order)]
                scripts.append("Q r0=%s %s" % (C.hexs(doc), " ".join(hist)))
                exps.append((decs, None, hist))
        impl, model, diffs, crashes, mcr = K.correspond(cfg, scripts)
        rep.count("histories/" + cfg, len(scripts))
        for idx, rc, err in crashes:
            found = True
            head = next((l for l in err.split("\n") if "ERROR" in l or "runtime error" in l), err.strip().split("\n")[0] if err.strip() else "")
            rep.finding("history/crash", "fetch / compare script crashed: %s" % head[:160], {"kind": "script", "config": cfg, "line": scripts[idx], "stderr": err[-2500:]})
        for i in diffs[:5]:
            rep.broken_obligation("correspondence/script", "model %r vs code %r on %s" % (model[i], impl[i], scripts[i][:200]), False)
        for i, a in enumerate(impl):
            if a is None:
                continue
            dec, cstr, hist = exps[i]
            toks = a.split("\t")
            if dec == "fetch-then-compare":
                t = toks[3:]
                # positions: e lk sc h | sg sg sg | e lk ck sc h | sg | e lk sc h(probe)
                want_lk = "(int 1)"
                ok = (t[0] == t[7] == t[13] == "1" and t[1] == t[8] == t[14] == want_lk and t[2] == t[10] == t[15] == "1" and t[9] == "1" and t[3] == t[11] == t[16])
                if toks[:3] == ["ok", "ok", "ok"] and not ok:
                    found = True
                    rep.finding("history/fetch-changes-comparison", "equality / lookup / membership / hash of a string changed after it was fetched: %s" % t,
                                {"kind": "script", "config": cfg, "line": scripts[i], "observed": a[:600]})
                continue
            for op, t in zip(hist, toks[1:]):
                if op.startswith("sg") and isinstance(dec, list):
                    dd = dec[int(op.split(".")[1])]
                    want = "%d:%s" % (len(dd), C.hexs(dd))
                elif op.startswith("sg"):
                    want = "ERR" if dec is None else "%d:%s" % (len(dec), C.hexs(dec))
                else:
                    want = "1" if (dec is not None and dec == bytes.fromhex(op.split(":")[2].replace("-", ""))) else "0"
                if t != want:
                    found = True
                    rep.finding("history", "after history %s: %s gave %s, expected %s" % (list(hist), op[:10], t[:60], want[:60]),
                                {"kind": "script", "config": cfg, "line": scripts[i], "observed": a[:300]})
                    break
        rep.note_cases(len(docs) + len(scripts), set(C.sha(d)[:16] for d in docs), sample={"doc": docs[50].decode("latin-1")})
    U.finish_proof(rep, lean, found)


def replay(path):
    r = json.load(open(path))
    print(json.dumps(r, indent=1)[:2500])
    exe = C.harness("unity", r["config"], "san")
    line = r["line"] if r.get("kind") == "script" else K.read_lines([bytes.fromhex(r["input_hex"])])[0]
    out = C.run_lines(exe, [line])
    print("now:", out.outputs, "| expected:", r.get("expected"))
    return 0
