"""C12 - accelerated scanning equals byte-at-a-time scanning at every offset and length.

Deciding method: Lean theorems (Edn.Properties.C12: block form = scalar form for every
input, lane/table lemmas re-checked against the regenerated tables, blank-prefix
invariance of the reader) + correspondence of the five scanner entry points and of
whole reads between the real library and the model + an independent scalar oracle."""
import itertools
import json

from .. import common as C
from .. import corr as K
from .. import gen as G
from . import util as U

PID = "C12"

WS = set([0x09, 0x0A, 0x0B, 0x0C, 0x0D, 0x1C, 0x1D, 0x1E, 0x1F, 0x20, 0x2C])
DELIM = None


def ref_skip_ws(b, i=0):
    n = len(b)
    while i < n:
        if b[i] == 0x3B:
            i += 1
            while i < n and b[i] != 0x0A:
                i += 1
            if i < n:
                i += 1
        elif b[i] in WS:
            i += 1
        else:
            break
    return str(i)


def ref_quote(b, i=0):
    n = len(b)
    esc = 0
    while i < n:
        if b[i] == 0x5C:
            esc = 1
            if i + 1 >= n:
                return "none"
            i += 2
        elif b[i] == 0x22:
            return "%d esc=%d" % (i, esc)
        else:
            i += 1
    return "none"


def ref_digits(b, i=0):
    n = len(b)
    while i < n and 0x30 <= b[i] <= 0x39:
        i += 1
    return str(i)


def ref_identsimd(b, i, delim):
    n = len(b)
    slash = -1
    colons = 0
    prev = False
    while i < n and b[i] not in delim:
        if b[i] == 0x3A:
            if prev:
                colons = 1
            prev = True
        else:
            prev = False
        if b[i] == 0x2F and slash < 0:
            slash = i
        i += 1
    return "%d slash=%d colons=%d" % (i, slash, colons)


def ref_ident(b, start, delim):
    r = ref_identsimd(b, start, delim)
    end = int(r.split()[0])
    slash = int(r.split()[1].split("=")[1])
    colons = r.endswith("colons=1")
    ln = end - start
    if colons or ln == 0:
        return "invalid"
    if slash >= 0:
        if ln == 1:
            return "valid len=1 ns=-1 nslen=0 name=%d namelen=1" % start
        if slash == start or slash == end - 1:
            return "invalid"
        return "valid len=%d ns=%d nslen=%d name=%d namelen=%d" % (ln, start, slash - start, slash + 1, end - slash - 1)
    return "valid len=%d ns=-1 nslen=0 name=%d namelen=%d" % (ln, start, ln)


def ref_lines(b):
    offs = [i for i, c in enumerate(b) if c == 0x0A]
    out = "n=%d [%s]" % (len(offs), ",".join(map(str, offs)))
    for off in range(len(b) + 1):
        before = [p for p in offs if p < off]
        if not before:
            out += " 1:%d" % (off + 1)
        else:
            out += " %d:%d" % (len(before) + 1, off - before[-1])
    return out


def delimiter_set():
    """read from the regenerated tables (extractor output)"""
    txt = C.extractor_output("core")
    for line in txt.split("\n"):
        if line.startswith("delimiterMask "):
            m = int(line.split()[2], 16)
            return set(b for b in range(256) if (m >> b) & 1)
    raise RuntimeError("no delimiterMask")


def scanner_cases(tier, rng):
    """(line, expected-by-reference) pairs"""
    delim = delimiter_set()
    cases = []
    thorough = tier == "thorough"
    maxlen = 96 if thorough else 50
    pair_lens = range(0, maxlen + 1) if thorough else [14, 15, 16, 17, 18, 30, 31, 32, 33, 34, 47, 48, 49]
    specs = {
        "ws": dict(fill=[0x20, 0x2C, 0x0A, 0x1F], special=[0x3B, 0x0A, 0x61, 0x00, 0x80, 0x21, 0x08], ref=ref_skip_ws),
        "quote": dict(fill=[0x61, 0x20], special=[0x22, 0x5C, 0x0A, 0x00], ref=ref_quote),
        "digits": dict(fill=[0x35, 0x30, 0x39], special=[0x2F, 0x3A, 0x61, 0x20, 0x00, 0xB5], ref=ref_digits),
        "identsimd": dict(fill=[0x61, 0x2D], special=[0x2F, 0x3A, 0x20, 0x29, 0x00, 0x7F, 0x23], ref=lambda b, i=0: ref_identsimd(b, i, delim)),
        "ident": dict(fill=[0x61, 0x2D], special=[0x2F, 0x3A, 0x20, 0x29, 0x00, 0x7F, 0x23], ref=lambda b, i=0: ref_ident(b, i, delim)),
    }
    for name, sp in specs.items():
        for n in range(0, maxlen + 1):
            for fill in sp["fill"][: (len(sp["fill"]) if thorough else 2)]:
                base = bytes([fill]) * n
                cases.append((name, 0, base))
                for p in range(n):
                    for s1 in sp["special"]:
                        b = bytearray(base)
                        b[p] = s1
                        cases.append((name, 0, bytes(b)))
            if n in pair_lens:
                fill = sp["fill"][0]
                for p, q in itertools.combinations(range(n), 2):
                    for s1 in sp["special"][:3]:
                        for s2 in sp["special"][:3]:
                            b = bytearray(bytes([fill]) * n)
                            b[p] = s1
                            b[q] = s2
                            cases.append((name, 0, bytes(b)))
        # three special bytes: a carriage return inside a comment that a line feed ends later (blank skipper); a pair of
        # colons before / after the delimiter that ends the token (identifier scanners) - at every lane of 1..3 blocks
        tri_lens = [17, 20, 33, 40, 49] if not thorough else [17, 18, 20, 31, 33, 40, 47, 49, 64, 65]
        for n in tri_lens:
            fill = sp["fill"][0]
            if name == "ws":
                for p in range(0, n - 2):
                    for q in range(p + 1, n - 1):
                        for r in (q + 1, n - 1):
                            b = bytearray(bytes([fill]) * n)
                            b[p], b[q], b[r] = 0x3B, 0x0D, 0x0A
                            cases.append((name, 0, bytes(b) + b"x"))
                            b[r] = 0x61  # comment not ended: everything up to the end belongs to it
                            cases.append((name, 0, bytes(b)))
            elif name in ("ident", "identsimd"):
                for p in range(0, n):
                    for q in range(0, n - 1):
                        if q == p or q + 1 == p:
                            continue
                        for dl in (0x20, 0x22, 0x29):
                            b = bytearray(bytes([fill]) * n)
                            b[p] = dl
                            b[q] = b[q + 1] = 0x3A
                            cases.append((name, 0, bytes(b)))
            elif name == "quote":
                for p in range(0, n - 2):
                    for q in range(p + 1, n - 1):
                        b = bytearray(bytes([fill]) * n)
                        b[p], b[p + 1], b[q + 1 if q == p else q] = 0x5C, 0x5C, 0x22
                        cases.append((name, 0, bytes(b)))
                        b2 = bytearray(bytes([fill]) * n)
                        b2[p], b2[q], b2[n - 1] = 0x00, 0x22, 0x22
                        cases.append((name, 0, bytes(b2)))
        # every byte value in every lane of a full block (16 x 256), with both a neutral
        # and a terminating continuation
        for lane in range(16):
            for v in range(256):
                b = bytearray(bytes([sp["fill"][0]]) * 16)
                b[lane] = v
                cases.append((name, 0, bytes(b) + b"x "))
        # start offsets 1..15 so that blocks fall at every phase
        for st in range(1, 16):
            for n in (16, 17, 33):
                b = bytearray(bytes([sp["fill"][0]]) * (st + n))
                if n > 2:
                    b[st + n - 2] = sp["special"][0]
                cases.append((name, st, bytes(b)))
    out = []
    for name, st, b in cases:
        line = "S %s %d %s" % (name, st, C.hexs(b))
        out.append((line, specs[name]["ref"](b, st)))
    # line-feed index
    lf_cases = []
    for n in list(range(0, 50)) + [63, 64, 65]:
        lf_cases.append(b"a" * n)
        for p in range(n):
            b = bytearray(b"a" * n)
            b[p] = 0x0A
            lf_cases.append(bytes(b))
    for n in (15, 16, 17, 31, 32, 33, 48):
        for p, q in itertools.combinations(range(n), 2):
            b = bytearray(b"a" * n)
            b[p] = 0x0A
            b[q] = 0x0A
            lf_cases.append(bytes(b))
    for k in ([100, 1000] + ([5000] if thorough else [])):
        lf_cases.append(bytes(rng.choice([0x0A, 0x61, 0x61, 0x20]) for _ in range(k)))
        lf_cases.append(b"\n" * k)
    for b in lf_cases:
        out.append(("L %s" % C.hexs(b), ref_lines(b)))
    return out


def textblock_docs(tier):
    """text blocks whose special bytes (backslash + triple quote, lone quotes, line feed, blanks) fall on every lane of the
    16-byte blocks of the line scanner; expected text by the reference implementation of C20"""
    from . import c20 as C20
    out = []
    lens = range(0, 40) if tier == "quick" else range(0, 70)
    for n in lens:
        for special, tailn in ((b'\\"""', 0), (b'\\"""', 20), (b'"', 20), (b'""', 5), (b"\\", 20), (b" ", 20), (b"\t", 3), (b'\\\\"""x', 18)):
            body = b"a" * n + special + b"b" * tailn
            if body.endswith(b"\\") or body.endswith(b'"'):
                body += b"z"
            for ind in (b"", b"  ", b" " * 15, b" " * 16, b"\t"):
                for closer in (None, b"", b"  "):
                    lines = [(ind, body), (ind + b" ", b"second line")] if closer is not None else [(ind, b"first"), (ind, body)]
                    if C20.wf(lines, closer):
                        out.append((C20.encode(lines, closer), C20.expected_text(lines, closer)))
    return out


def run(tier):
    rep = C.Report(PID, tier, "proof")
    rng = C.rng(PID)
    lean = U.lean_part(rep, PID)

    # ---- scanners: real code vs model vs scalar reference
    cases = scanner_cases(tier, rng)
    lines = [c[0] for c in cases]
    refs = [c[1] for c in cases]
    model_outs, mcr = K.run_model("core", lines)
    found_input = False
    for cfg, mode in (("core", "san"), ("core", "o2"), ("both", "san"), ("both", "o2")):
        impl, crashes = K.run_impl(cfg, lines, mode=mode)
        rep.count("scanner-cases/%s-%s" % (cfg, mode), len(lines))
        for idx, rc, err in crashes:
            found_input = True
            rep.finding("scanner-crash", "scanner crashed or sanitizer report (%s %s)" % (cfg, mode),
                        {"kind": "scanner", "config": cfg, "mode": mode, "line": lines[idx], "stderr": err[:3000]})
        for i, (a, r, m) in enumerate(zip(impl, refs, model_outs)):
            if a is None:
                continue
            if a != r:
                found_input = True
                rep.finding("scanner-differs/" + lines[i].split()[1],
                            "accelerated scanner differs from byte-at-a-time scan",
                            {"kind": "scanner", "config": cfg, "mode": mode, "line": lines[i], "expected": r, "observed": a})
            elif m != a:
                rep.broken_obligation("correspondence/scanner", "model %r vs code %r on %s" % (m, a, lines[i]), False)
    rep.note_cases(len(lines), set(C.sha(l)[:16] for l in lines), sample={"line": lines[len(lines) // 3], "expected": refs[len(lines) // 3]})

    # ---- whole reads: k leading blanks shift positions by k; bytes after `length` are irrelevant
    ndocs = 150 if tier == "quick" else 1500
    for cfg in ("core", "both"):
        vals = [G.gen_value(rng, cfg, depth=3) for _ in range(ndocs)]
        docs = [G.render_doc(rng, v, cfg) for v in vals]
        docs += [d[: max(1, len(d) // 2)] for d in docs[: ndocs // 3]]  # truncated: error paths
        base_lines = K.read_lines(docs)
        for mode in ("san", "o2"):
            base, cr0 = K.run_impl(cfg, base_lines, mode=mode)
            ks = range(0, 48) if tier == "thorough" else [1, 2, 7, 15, 16, 17, 31, 32, 33, 47]
            for k in ks:
                shifted_docs = [b" " * k + d for d in docs]
                outs, cr = K.run_impl(cfg, K.read_lines(shifted_docs), mode=mode)
                rep.count("blank-prefix/%s-%s" % (cfg, mode), len(docs))
                for i, (a, b) in enumerate(zip(base, outs)):
                    if a is None or b is None:
                        continue
                    if U.shift_dump(a, k, docs[i]) != b:
                        found_input = True
                        rep.finding("blank-prefix", "prefixing %d blanks changed more than the positions" % k,
                                    {"kind": "read", "config": cfg, "mode": mode, "input_hex": C.hexs(docs[i]), "k": k,
                                     "expected": U.shift_dump(a, k, docs[i]), "observed": b})
            # continuation bytes after `length`
            for tail in (b"0123456789abcdef" * 2, b"]]]]))))}}}}\"\"\"\"" * 2, b"\x00" * 32, b"\xff;\\\" " * 6):
                outs, cr = K.run_impl(cfg, base_lines, mode=mode, prefix=["P 2 %s" % C.hexs(tail)])
                rep.count("suffix-continuation/%s-%s" % (cfg, mode), len(docs))
                for i, (a, b) in enumerate(zip(base, outs)):
                    if a is not None and b is not None and a != b:
                        found_input = True
                        rep.finding("suffix-continuation", "result depends on the bytes after the input",
                                    {"kind": "read", "config": cfg, "mode": mode, "input_hex": C.hexs(docs[i]),
                                     "tail_hex": C.hexs(tail), "expected": a, "observed": b})
        # the model must agree on the same documents (ties blank_prefix to the code)
        impl, model, diffs, cr, mcr = K.correspond(cfg, base_lines)
        for i in diffs[:3]:
            rep.broken_obligation("correspondence/read", "model and code differ on %s: %r vs %r" % (C.hexs(docs[i]), model[i], impl[i]), False)
        rep.note_cases(len(docs), set(C.sha(d)[:16] for d in docs), sample={"doc": docs[0].decode("latin-1"), "result": base[0]})

    # ---- the sixth vectorised scanner: text-block lines (experimental flag)
    tb = textblock_docs(tier)
    for cfg in ("exp", "both"):
        for suffix in (b"", b" :a-long-keyword-after-the-block 1 2 3"):
            tdocs = [d + suffix for d, _ in tb]
            ti, tm, td, tcr, _ = K.correspond(cfg, K.read_lines(tdocs))
            rep.count("text-block-lines/%s" % cfg, len(tdocs))
            for idx, rc, err in tcr:
                found_input = True
                rep.finding("scanner-crash", "text-block line scanner crashed", {"kind": "read", "config": cfg, "mode": "san", "input_hex": C.hexs(tdocs[idx]), "stderr": err[:2000]})
            for i in td[:3]:
                rep.broken_obligation("correspondence/text-block", "model %r vs code %r on %r" % ((tm[i] or "")[:120], (ti[i] or "")[:120], tdocs[i][:80]), False)
            for i, a in enumerate(ti):
                if a is None:
                    continue
                text = tb[i][1]
                want = "ok (str 0 %d %d %s)" % (len(tb[i][0]), len(text), C.hexs(text) if text else "-")
                if a != want:
                    found_input = True
                    rep.finding("scanner-differs/text-block-line", "text block read as %s, byte-at-a-time reading gives %s" % (a[:100], want[:100]),
                                {"kind": "read", "config": cfg, "mode": "san", "input_hex": C.hexs(tdocs[i]), "expected": want[:400], "observed": a[:400]})
    U.finish_proof(rep, lean, found_input)


def replay(path):
    r = json.load(open(path))
    print(json.dumps(r, indent=1)[:3000])
    if r.get("kind") == "scanner":
        exe = C.harness("unity", r["config"], r["mode"])
        out = C.run_lines(exe, [r["line"]])
        print("now:", out.outputs, "expected:", r.get("expected"))
        return 0 if out.outputs and out.outputs[0] == r.get("expected") else 1
    if r.get("kind") == "read":
        exe = C.harness("unity", r["config"], r["mode"])
        pre = ["P 2 %s" % r["tail_hex"]] if "tail_hex" in r else []
        doc = bytes.fromhex(r["input_hex"]) if r["input_hex"] != "-" else b""
        if "k" in r:
            doc = b" " * r["k"] + doc
        out = C.run_lines(exe, pre + K.read_lines([doc]))
        print("now:", out.outputs[-1:], "expected:", r.get("expected"))
        return 0 if out.outputs and out.outputs[-1] == r.get("expected") else 1
    return 1
