"""C13 - whitespace, commas, comments and discarded forms never change the value read.

Lean: Edn.Properties.C13 (plain-trivia prefix invariance, discarded form is trivia, no handler
calls in discard mode, trivia-only input is end of input).  Correspondence: decorated and
undecorated documents through reader and model.  Oracle (metamorphic, real library): a value
rendered with arbitrary trivia at every gap reads to the same tree (ranges aside) and the same
handler calls as the minimally spaced rendering; trivia-only documents read as end of input."""
import json
import re

from .. import common as C
from .. import corr as K
from .. import gen as G
from . import util as U

PID = "C13"


def trivia_strings(rng, cfg, n):
    out = []
    for b in G.WS_BYTES:
        out.append(bytes([b]))
        out.append(bytes([b]) * rng.choice([2, 15, 16, 17, 40]))
    out += [b";\n", b"; comment ( [ { \" \\ #_ \n", b";;;\n;\n", b" ;x\n ", b",,,", b"#_ 1 ", b"#_[1 #_2 3] ", b"#_ #_ 1 2 ", b"#_#t 5 ", b"#_ #id #fail 7 ",
            b"#_\"a;b\" ", b"#_ {:a #_ 1 2} ", b"#_ \\a ", b"#_:k ", b"#_ ##Inf ", b"#_ #{1 2} "]
    # a comment / discard marker right after 13..33 blanks (the marker falls on every lane of a 16-byte block)
    for k in (13, 14, 15, 16, 17, 30, 31, 32, 33):
        for b in (b" ", b",", b"\t", b"\n"):
            out.append(b * k + b";c " + b * 3 + b"\n")
            out.append(b * k + b"#_ x ")
    if cfg in ("exp", "both"):
        # discarded text blocks, with escaped triple quotes, lone quotes and long lines
        for blk in (b'"""\n  say \\"""hi\\""" twice\n  """', b'"""\nx\n"""', b'"""\n  a "quoted" word and a longer line of text\n   b\n  """', b'"""\n\\"""\\"""\n"""'):
            out.append(b"#_ " + blk + b" ")
            out.append(b"#_[1 " + blk + b" 2] ")
    if cfg in ("clj", "both"):
        out += [b"#_ ^:m [1] ", b"#_ #:p{:a 1} ", b"#_ ^{:a 1} ^:b sym ", b"#_ 0x1F ", b"#_ 1/2 "]
    for _ in range(n):
        out.append(G.gen_trivia(rng, cfg, must=True, rich=True))
    return out


def decorate(rng, v, cfg, trivs):
    """render v with a trivia string from `trivs` at every gap"""
    t = v[0]
    tv = lambda: rng.choice(trivs)
    if t in ("list", "vec", "set"):
        op, cl = {"list": (b"(", b")"), "vec": (b"[", b"]"), "set": (b"#{", b"}")}[t]
        return op + tv() + b"".join(decorate(rng, x, cfg, trivs) + tv() for x in v[1]) + cl
    if t == "map":
        return b"{" + tv() + b"".join(decorate(rng, k, cfg, trivs) + tv() + decorate(rng, x, cfg, trivs) + tv() for k, x in v[1]) + b"}"
    if t == "tagged":
        return b"#" + v[1].encode() + tv() + decorate(rng, v[2], cfg, trivs)
    return G.render(rng, v, cfg, rich=False)


def plain(rng, v, cfg):
    t = v[0]
    if t in ("list", "vec", "set"):
        op, cl = {"list": (b"(", b")"), "vec": (b"[", b"]"), "set": (b"#{", b"}")}[t]
        return op + b" ".join(plain(rng, x, cfg) for x in v[1]) + cl
    if t == "map":
        return b"{" + b" ".join(plain(rng, k, cfg) + b" " + plain(rng, x, cfg) for k, x in v[1]) + b"}"
    if t == "tagged":
        return b"#" + v[1].encode() + b" " + plain(rng, v[2], cfg)
    return None  # caller substitutes the same leaf rendering


def render_pair(rng, v, cfg, trivs):
    """(plain, decorated) with identical leaf spellings"""
    leaves = {}

    def leaf(x):
        k = id(x)
        if k not in leaves:
            leaves[k] = G.render(rng, x, cfg, rich=False)
        return leaves[k]

    def go(x, deco):
        t = x[0]
        tv = (lambda: rng.choice(trivs)) if deco else (lambda: b" ")
        if t in ("list", "vec", "set"):
            op, cl = {"list": (b"(", b")"), "vec": (b"[", b"]"), "set": (b"#{", b"}")}[t]
            return op + (tv() if deco else b"") + b"".join(go(y, deco) + tv() for y in x[1]) + cl
        if t == "map":
            return b"{" + (tv() if deco else b"") + b"".join(go(k, deco) + tv() + go(y, deco) + tv() for k, y in x[1]) + b"}"
        if t == "tagged":
            return b"#" + x[1].encode() + tv() + go(x[2], deco)
        return leaf(x)

    return go(v, False), rng.choice(trivs) + go(v, True) + (rng.choice(trivs) if rng.random() < 0.5 else b"")


# ---------------------------------------------------------------------------------------------------------------
# Trivia by size: every length of every kind of trivia, at several start offsets, with a given number of input bytes
# after it.  The block paths of the comment / blank skippers (16, 32, 64 ... bytes at a time, with a shorter path near
# the end of the input) depend on exactly these three numbers.
# ---------------------------------------------------------------------------------------------------------------
FILLS = (b"c", b"7 ", b"] ", b"x) ", b"\" ", b"} :k ", b"\xc3\xa9 ", b"; #_ ")
LONG_TAIL = b"2 3 :alpha :beta :gamma :delta \"a string\" {:k [1 2 3] :l #{4 5 6}} (some more forms) 7 8 9 10 11 12 13 14 15 16 17 18 19 20 :omega"


def comment_body(rng, n, fill):
    """n bytes none of which is a line feed, and which would not read as blanks if they were read as forms"""
    if fill is None:
        pool = bytes(b for b in range(0x21, 0x100) if b != 0x7F) + b"  ;;\"\"[](){}##__\\"
        return bytes(rng.choice(pool) for _ in range(n))
    return (fill * (n // len(fill) + 1))[:n]


def sized_trivia(rng, cfg, kind, n, fill=b"c"):
    """one piece of trivia of kind `kind` whose size parameter is n; always ends so that a following token is separate"""
    if kind == "comment":
        return b";" + comment_body(rng, n, fill) + b"\n"
    if kind == "comments":  # a block of comment lines, n bytes of text in all
        out, left = b"", n
        while True:
            k = min(left, rng.choice([0, 1, 15, 16, 17, 47, 48, 63, 64, 65, 79]))
            out += rng.choice([b"", b" ", b"  "]) + b";" + comment_body(rng, k, fill) + b"\n"
            left -= k
            if left <= 0:
                return out
    if kind == "blanks":
        return bytes([G.WS_BYTES[n % len(G.WS_BYTES)]]) * max(n, 1)
    if kind == "mixed-blanks":
        return bytes(rng.choice(G.WS_BYTES) for _ in range(max(n, 1)))
    if kind == "discard-string":
        return b"#_\"" + comment_body(rng, n, b"s;\n ") + b"\" "
    if kind == "discard-symbol":
        return b"#_ " + (b"sym-bol." * (n // 8 + 1))[:max(n, 1)] + b" "
    if kind == "discard-vector":
        return b"#_[" + b":k 1 #_ x " * (n // 10) + b"y" * (n % 10) + b"] "
    if kind == "discard-chain":
        k, out = n // 8 + 1, b""
        while k > 0:  # chains of at most 60 markers: a chain nests, and nesting deeper than the limit is an error by design
            j = min(k, 60)
            out += b"#_ " * j + b" ".join(b"d%d" % i for i in range(j)) + b" "
            k -= j
        return out
    if kind == "comment-in-discard":
        return b"#_[a ;" + comment_body(rng, n, fill) + b"\nb] "
    raise ValueError(kind)


SIZED_KINDS = ("comment", "comments", "blanks", "mixed-blanks", "discard-string", "discard-symbol", "discard-vector", "discard-chain", "comment-in-discard")


def tail_of(r):
    """the rest of a vector, exactly r >= 4 bytes"""
    return (b"2 3" + b" 45" * (r // 3 + 1))[:r - 1] + b"]"


def sized_pairs(rng, cfg, tier):
    """(plain, decorated, family) triples: the plain document and the same document with one sized piece of trivia"""
    out = []
    sizes = list(range(0, 201)) + [223, 239, 240, 255, 256, 257, 300, 303, 304, 319, 320, 321, 367, 383, 384, 431, 447, 448, 449, 500, 511, 512, 513, 560, 575, 576, 599, 600]
    if tier != "quick":
        sizes = list(range(0, 601)) + [rng.randint(601, 2100) for _ in range(60)] + [1023, 1024, 1025, 2047, 2048, 2049]
    pads = (0, 1, 5, 15, 16, 31)
    for n in sizes:
        # line comments: every start offset, in a vector with a long rest / at top level / in a map / in a set
        for j, pad in enumerate(pads):
            fill = FILLS[(n + j) % len(FILLS)] if (n + j) % 9 else None
            t = sized_trivia(rng, cfg, "comment", n, fill)
            out.append((b" " * pad + b"[1 " + LONG_TAIL + b"]", b" " * pad + b"[1 " + t + LONG_TAIL + b"]", "comment/vector"))
        pad = pads[n % len(pads)]
        t = sized_trivia(rng, cfg, "comment", n, FILLS[n % len(FILLS)])
        out.append((b"," * pad + b"[:v 1 2] " + LONG_TAIL, b"," * pad + t + b"[:v 1 2] " + LONG_TAIL, "comment/top-level"))
        out.append((b"{:a 1 :b [" + LONG_TAIL + b"]}", b"{:a " + t + b"1 :b [" + LONG_TAIL + b"]}", "comment/map"))
        out.append((b"(0 #{1 " + LONG_TAIL + b"})", b"(0 #{1 " + t + LONG_TAIL + b"})", "comment/set"))
        out.append((b"[#id 1 " + LONG_TAIL + b"]", b"[#id " + t + b"1 " + LONG_TAIL + b"]", "comment/after-tag"))
        # ... and with a chosen number of bytes after the comment (the shorter paths near the end of the input)
        rests = [4, 5 + n % 12, 16 + n % 16, 32 + n % 32, 47 + n % 3, 62 + n % 5, 64 + n % 64, 126 + n % 5] if tier == "quick" else list(range(4, 140, 2 + n % 3))
        for r in rests:
            t = sized_trivia(rng, cfg, "comment", n, FILLS[(n + r) % len(FILLS)])
            out.append((b"[1 " + tail_of(r), b"[1 " + t + tail_of(r), "comment/rest-of-input"))
        # the other kinds of trivia, one start offset per size
        for kind in SIZED_KINDS[1:]:
            pad = pads[(n + len(kind)) % len(pads)]
            t = sized_trivia(rng, cfg, kind, n, FILLS[n % len(FILLS)])
            out.append((b" " * pad + b"[1 " + LONG_TAIL + b"]", b" " * pad + b"[1 " + t + LONG_TAIL + b"]", kind + "/vector"))
    return out


def sized_trivia_only(rng, cfg, tier):
    """trivia-only documents: a comment of every size followed by at least 64 / 128 bytes of further trivia"""
    out = []
    after = [b"   ,,, #_ discarded   \t\t   ;; trailing comment without newline", b" " * 64, b",\n" * 50, b" #_ [1 2 {:a 3}] " * 9 + b";" + b"z" * 70,
             b";" + b"-" * 130 + b"\n", b""]
    sizes = list(range(0, 201)) + [255, 256, 300, 320, 383, 448, 511, 512, 600]
    if tier != "quick":
        sizes = list(range(0, 601))
    for n in sizes:
        for j in range(2 if tier == "quick" else len(after)):
            a = after[(n + j * 3) % len(after)]
            pad = (0, 2, 15, 16)[(n + j) % 4]
            out.append(b" " * pad + sized_trivia(rng, cfg, "comment", n, FILLS[(n + j) % len(FILLS)]) + a)
        out.append(b";" + comment_body(rng, n, FILLS[n % len(FILLS)]))  # ends at the end of the input, no line feed
    return out


def calls_names(line):
    if " calls=[" not in line:
        return []
    body = line.split(" calls=[")[1].rstrip("]")
    return [c.split("@")[0] for c in body.split()]


def run(tier):
    rep = C.Report(PID, tier, "proof")
    rng = C.rng(PID)
    lean = U.lean_part(rep, PID)
    found = False
    nvals = 600 if tier == "quick" else 8000
    for cfg in (["core", "both"] if tier == "quick" else ["core", "clj", "exp", "both"]):
        trivs = trivia_strings(rng, cfg, 60)
        tags = ("id", "inst", "ext", "uuid", "my/id")
        vals = [G.gen_value(rng, cfg, depth=rng.choice([2, 3, 4]), width=3, tags=tags) for _ in range(nvals)]
        # identifiers made of bytes that are not ASCII letters (UTF-8 text, control bytes, 0x7F..0xFF): whatever the blank
        # skipper's block path thinks of them, they are not blanks; lengths around one and two vector blocks
        odd = ["日本語", "日本語日本語", "世界世界世界世界世界", "é" * 9, "ключ-значение-и-ещё", "\x01" * 18, "a\x02b\x03c\x04d\x05e\x06f\x07g\x08h", "\x0e\x0f\x10\x11" * 5,
               "x" * 15 + "é", "€" * 6, "\U0001F600" * 5]
        for nm in odd:
            for form in (("vec", [("sym", None, nm)]), ("vec", [("kw", None, "a"), ("sym", None, nm), ("int", 2)]), ("map", [(("kw", None, nm), ("sym", None, nm))]),
                         ("list", [("int", 1), ("sym", nm[:3], nm), ("int", 2)]), ("set", [("sym", None, nm), ("kw", None, nm)])):
                vals.append(form)
        pairs = [render_pair(rng, v, cfg, trivs) for v in vals]

        def compare(pairs, opts, label, fams=None):
            nonlocal found
            plain_docs = sorted(set(p for p, _ in pairs))  # many sized pairs share their plain document: read it once
            pidx = {p: i for i, p in enumerate(plain_docs)}
            # one run for all options: plain documents first, then the decorated ones
            lines, where = [], {}
            for opt in opts:
                where[opt] = (len(lines), len(lines) + len(plain_docs))
                lines += K.read_lines(plain_docs, opt) + K.read_lines([d for _, d in pairs], opt)
            impl, model, diffs, crashes, _ = K.correspond(cfg, lines)
            for idx, rc, err in crashes:
                found = True
                rep.finding("crash", "reading crashed", {"kind": "lines", "config": cfg, "lines": [lines[idx]] if 0 <= idx < len(lines) else [], "stderr": err[:2000]})
            for i in diffs[:5]:
                rep.broken_obligation("correspondence/read", "model and code differ on a decorated/plain document (config %s): %s" % (cfg, lines[i][:300]), False)
            for opt in opts:
                rep.count("%s/%s/opt%d" % (label, cfg, opt), len(pairs))
                pi = impl[where[opt][0]:where[opt][1]]
                di = impl[where[opt][1]:where[opt][1] + len(pairs)]
                for i, b in enumerate(di):
                    a = pi[pidx[pairs[i][0]]]
                    if a is None or b is None:
                        continue
                    # the test handler `ext` stores the byte length of its operand's text, which trivia changes by design
                    # error positions move with the trivia by design: compare the class only
                    norm = lambda t: (" ".join(t.split()[:2]) if t.startswith("err ") else re.sub(r"\(ext 7 \d+\)", "(ext 7 _)", K.strip_ranges(t.split(" calls=[")[0])))
                    sa, sb = norm(a), norm(b)
                    if a.startswith("err DUPLICATE") and b.startswith("err DUPLICATE"):
                        continue  # handler results collided in a set: same verdict either way
                    if sa != sb or calls_names(a) != calls_names(b):
                        found = True
                        rep.finding("trivia-changes-value" + ("/" + fams[i].split("/")[0] if fams else ""), "inserting trivia changed the value or the handler calls" + (" (%s)" % fams[i] if fams else ""),
                                    {"kind": "pair", "config": cfg, "opt": opt, "plain_hex": C.hexs(pairs[i][0]), "decorated_hex": C.hexs(pairs[i][1]),
                                     "expected": sa[:600], "observed": sb[:600]})

        # 8 = handler registry; +2 / +4 = default reader mode unwrap / error for tags without a handler
        compare(pairs, (0, 8, 10, 12), "pairs")
        # one piece of trivia of every size 0..200 (and some up to 600; thorough: every size to 600 and some to 2100) of every kind,
        # at several start offsets and with 4..130 or a few hundred bytes of input after it
        sized = sized_pairs(rng, cfg, tier)
        compare([(p, d) for p, d, _ in sized], (0, 8), "sized-trivia", [f for _, _, f in sized])
        for f in sorted(set(f for _, _, f in sized)):
            rep.count("sized-trivia/%s/%s" % (cfg, f), sum(1 for x in sized if x[2] == f))
        rep.note_cases(len(sized), set(C.sha(d)[:16] for _, d, _ in sized), sample={"family": sized[700][2], "decorated": sized[700][1][:300].decode("latin-1")})
        rep.note_cases(2 * len(pairs), set(C.sha(d)[:16] for _, d in pairs), sample={"plain": pairs[0][0][:150].decode("latin-1"), "decorated": pairs[0][1][:300].decode("latin-1")})
        # handlers are never invoked inside discarded forms
        ddocs = []
        for _ in range(200 if tier == "quick" else 2000):
            inner = decorate(rng, G.gen_value(rng, cfg, depth=2, width=3, tags=("id", "fail", "failq", "ext", "inst")), cfg, trivs[:30])
            ddocs.append(b"[1 #_" + rng.choice([b"", b" "]) + inner + b" 2]")
            ddocs.append(b"#_ " + inner + b" :v")
        ddocs += [b"[1 #_#foo 2 3]", b"[1 #_#inst \"x\" 3]", b"[1 #_[#_#foo 0 2] 3]", b"#_ #unknown/tag {:a #other 1} :v", b"[#_ #fail 1 #_ #failq 2 3]"]
        for dopt in (8, 10, 12):
            out, cr = K.run_impl(cfg, K.read_lines(ddocs, dopt))
            rep.count("discarded-tags/%s/opt%d" % (cfg, dopt), len(ddocs))
            for i, a in enumerate(out):
                if a is None:
                    continue
                if calls_names(a) or not a.startswith("ok "):
                    found = True
                    rep.finding("handler-in-discard", "a handler or the default reader mode acted on a tag inside a discarded form: %s" % a[-120:],
                                {"kind": "read", "config": cfg, "opt": dopt, "input_hex": C.hexs(ddocs[i]), "observed": a[:400]})
        # trivia-only documents
        tdocs = list(trivs) + [b"#_ foo", b"#_ [1 2 3] ; trailing comment\n", b"  #_ a #_ {:b 1}  ", b"#_ #_ a b", b"#_#t 1", b"#_ \"s\"\n"] + [b"".join(rng.choice(trivs) for _ in range(3)) for _ in range(100)] + [b"; no newline", b" ;x", b",", b""]
        tdocs = [t for t in tdocs if t] + [b""]  # the empty document (passed as a NUL-terminated empty string) is trivia-only too
        sized_only = sized_trivia_only(rng, cfg, tier)
        tdocs += [t for t in sized_only if t]
        rep.count("trivia-only-sized-comments/%s" % cfg, len(sized_only))
        for opt in (0, 1):
            out, cr = K.run_impl(cfg, K.read_lines(tdocs, opt))
            mo, _ = K.run_model(cfg, K.read_lines(tdocs, opt))
            rep.count("trivia-only/%s/opt%d" % (cfg, opt), len(tdocs))
            for i, a in enumerate(out):
                if a is None:
                    continue
                if a != mo[i]:
                    rep.broken_obligation("correspondence/trivia-only", "model %r vs code %r on %r" % (mo[i], a, tdocs[i]), False)
                n = len(tdocs[i])
                want_prefix = "eofval" if opt == 1 else "err UNEXPECTED_EOF msg=1 %d:" % n
                if not a.startswith(want_prefix):
                    found = True
                    rep.finding("trivia-only", "a trivia-only document did not read as end of input: %s" % a[:100],
                                {"kind": "read", "config": cfg, "opt": opt, "input_hex": C.hexs(tdocs[i]), "observed": a})
    U.finish_proof(rep, lean, found)


def replay(path):
    r = json.load(open(path))
    print(json.dumps(r, indent=1)[:2500])
    exe = C.harness("unity", r["config"], "san")
    if r.get("kind") == "pair":
        out = C.run_lines(exe, K.read_lines([bytes.fromhex(r["plain_hex"]), bytes.fromhex(r["decorated_hex"])], r.get("opt", 0)))
    elif r.get("kind") == "lines":
        out = C.run_lines(exe, r["lines"])
    else:
        out = C.run_lines(exe, K.read_lines([bytes.fromhex(r["input_hex"])], r.get("opt", 0)))
    print("now:", out.outputs)
    return 0
