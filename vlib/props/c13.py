"""C13 - whitespace, commas, comments and discarded forms never change the value read.

Lean: Edn.Properties.C13 (plain-trivia prefix invariance, discarded form is trivia, no handler
calls in discard mode, trivia-only input is end of input).  Correspondence: decorated and
undecorated documents through reader and model.  Oracle (metamorphic, real library): a value
rendered with arbitrary trivia at every gap reads to the same tree (ranges aside) and the same
handler calls as the minimally spaced rendering; trivia-only documents read as end of input."""
import json
import re

from .. import common as C
from .. import corr as K
from .. import gen as G
from . import util as U

PID = "C13"


def trivia_strings(rng, cfg, n):
    out = []
    for b in G.WS_BYTES:
        out.append(bytes([b]))
        out.append(bytes([b]) * rng.choice([2, 15, 16, 17, 40]))
    out += [b";\n", b"; comment ( [ { \" \\ #_ \n", b";;;\n;\n", b" ;x\n ", b",,,", b"#_ 1 ", b"#_[1 #_2 3] ", b"#_ #_ 1 2 ", b"#_#t 5 ", b"#_ #id #fail 7 ",
            b"#_\"a;b\" ", b"#_ {:a #_ 1 2} ", b"#_ \\a ", b"#_:k ", b"#_ ##Inf ", b"#_ #{1 2} "]
    # a comment / discard marker right after 13..33 blanks (the marker falls on every lane of a 16-byte block)
    for k in (13, 14, 15, 16, 17, 30, 31, 32, 33):
        for b in (b" ", b",", b"\t", b"\n"):
            out.append(b * k + b";c " + b * 3 + b"\n")
            out.append(b * k + b"#_ x ")
    if cfg in ("exp", "both"):
        # discarded text blocks, with escaped triple quotes, lone quotes and long lines
        for blk in (b'"""\n  say \\"""hi\\""" twice\n  """', b'"""\nx\n"""', b'"""\n  a "quoted" word and a longer line of text\n   b\n  """', b'"""\n\\"""\\"""\n"""'):
            out.append(b"#_ " + blk + b" ")
            out.append(b"#_[1 " + blk + b" 2] ")
    if cfg in ("clj", "both"):
        out += [b"#_ ^:m [1] ", b"#_ #:p{:a 1} ", b"#_ ^{:a 1} ^:b sym ", b"#_ 0x1F ", b"#_ 1/2 "]
    for _ in range(n):
        out.append(G.gen_trivia(rng, cfg, must=True, rich=True))
    return out


def decorate(rng, v, cfg, trivs):
    """render v with a trivia string from `trivs` at every gap"""
    t = v[0]
    tv = lambda: rng.choice(trivs)
    if t in ("list", "vec", "set"):
        op, cl = {"list": (b"(", b")"), "vec": (b"[", b"]"), "set": (b"#{", b"}")}[t]
        return op + tv() + b"".join(decorate(rng, x, cfg, trivs) + tv() for x in v[1]) + cl
    if t == "map":
        return b"{" + tv() + b"".join(decorate(rng, k, cfg, trivs) + tv() + decorate(rng, x, cfg, trivs) + tv() for k, x in v[1]) + b"}"
    if t == "tagged":
        return b"#" + v[1].encode() + tv() + decorate(rng, v[2], cfg, trivs)
    return G.render(rng, v, cfg, rich=False)


def plain(rng, v, cfg):
    t = v[0]
    if t in ("list", "vec", "set"):
        op, cl = {"list": (b"(", b")"), "vec": (b"[", b"]"), "set": (b"#{", b"}")}[t]
        return op + b" ".join(plain(rng, x, cfg) for x in v[1]) + cl
    if t == "map":
        return b"{" + b" ".join(plain(rng, k, cfg) + b" " + plain(rng, x, cfg) for k, x in v[1]) + b"}"
    if t == "tagged":
        return b"#" + v[1].encode() + b" " + plain(rng, v[2], cfg)
    return None  # caller substitutes the same leaf rendering


def render_pair(rng, v, cfg, trivs):
    """(plain, decorated) with identical leaf spellings"""
    leaves = {}

    def leaf(x):
        k = id(x)
        if k not in leaves:
            leaves[k] = G.render(rng, x, cfg, rich=False)
        return leaves[k]

    def go(x, deco):
        t = x[0]
        tv = (lambda: rng.choice(trivs)) if deco else (lambda: b" ")
        if t in ("list", "vec", "set"):
            op, cl = {"list": (b"(", b")"), "vec": (b"[", b"]"), "set": (b"#{", b"}")}[t]
            return op + (tv() if deco else b"") + b"".join(go(y, deco) + tv() for y in x[1]) + cl
        if t == "map":
            return b"{" + (tv() if deco else b"") + b"".join(go(k, deco) + tv() + go(y, deco) + tv() for k, y in x[1]) + b"}"
        if t == "tagged":
            return b"#" + x[1].encode() + tv() + go(x[2], deco)
        return leaf(x)

    return go(v, False), rng.choice(trivs) + go(v, True) + (rng.choice(trivs) if rng.random() < 0.5 else b"")


def calls_names(line):
    if " calls=[" not in line:
        return []
    body = line.split(" calls=[")[1].rstrip("]")
    return [c.split("@")[0] for c in body.split()]


def run(tier):
    rep = C.Report(PID, tier, "proof")
    rng = C.rng(PID)
    lean = U.lean_part(rep, PID)
    found = False
    nvals = 600 if tier == "quick" else 8000
    for cfg in (["core", "both"] if tier == "quick" else ["core", "clj", "exp", "both"]):
        trivs = trivia_strings(rng, cfg, 60)
        tags = ("id", "inst", "ext", "uuid", "my/id")
        vals = [G.gen_value(rng, cfg, depth=rng.choice([2, 3, 4]), width=3, tags=tags) for _ in range(nvals)]
        # identifiers made of bytes that are not ASCII letters (UTF-8 text, control bytes, 0x7F..0xFF): whatever the blank
        # skipper's block path thinks of them, they are not blanks; lengths around one and two vector blocks
        odd = ["日本語", "日本語日本語", "世界世界世界世界世界", "é" * 9, "ключ-значение-и-ещё", "\x01" * 18, "a\x02b\x03c\x04d\x05e\x06f\x07g\x08h", "\x0e\x0f\x10\x11" * 5,
               "x" * 15 + "é", "€" * 6, "\U0001F600" * 5]
        for nm in odd:
            for form in (("vec", [("sym", None, nm)]), ("vec", [("kw", None, "a"), ("sym", None, nm), ("int", 2)]), ("map", [(("kw", None, nm), ("sym", None, nm))]),
                         ("list", [("int", 1), ("sym", nm[:3], nm), ("int", 2)]), ("set", [("sym", None, nm), ("kw", None, nm)])):
                vals.append(form)
        pairs = [render_pair(rng, v, cfg, trivs) for v in vals]
        # 8 = handler registry; +2 / +4 = default reader mode unwrap / error for tags without a handler
        for opt in (0, 8, 10, 12):
            pl = K.read_lines([p for p, _ in pairs], opt)
            dl = K.read_lines([d for _, d in pairs], opt)
            pi, pm, pdiffs, pcr, _ = K.correspond(cfg, pl)
            di, dm_, ddiffs, dcr, _ = K.correspond(cfg, dl)
            rep.count("pairs/%s/opt%d" % (cfg, opt), len(pairs))
            for idx, rc, err in pcr + dcr:
                found = True
                rep.finding("crash", "reading crashed", {"kind": "read", "config": cfg, "opt": opt, "stderr": err[:2000]})
            for i in (pdiffs + ddiffs)[:5]:
                rep.broken_obligation("correspondence/read", "model and code differ on a decorated/plain document (config %s, opt %d)" % (cfg, opt), False)
            for i, (a, b) in enumerate(zip(pi, di)):
                if a is None or b is None:
                    continue
                # the test handler `ext` stores the byte length of its operand's text, which trivia changes by design
                # error positions move with the trivia by design: compare the class only
                norm = lambda t: (" ".join(t.split()[:2]) if t.startswith("err ") else re.sub(r"\(ext 7 \d+\)", "(ext 7 _)", K.strip_ranges(t.split(" calls=[")[0])))
                sa, sb = norm(a), norm(b)
                if a.startswith("err DUPLICATE") and b.startswith("err DUPLICATE"):
                    continue  # handler results collided in a set: same verdict either way
                if sa != sb or calls_names(a) != calls_names(b):
                    found = True
                    rep.finding("trivia-changes-value", "inserting trivia changed the value or the handler calls",
                                {"kind": "pair", "config": cfg, "opt": opt, "plain_hex": C.hexs(pairs[i][0]), "decorated_hex": C.hexs(pairs[i][1]),
                                 "expected": sa[:600], "observed": sb[:600]})
        rep.note_cases(2 * len(pairs), set(C.sha(d)[:16] for _, d in pairs), sample={"plain": pairs[0][0][:150].decode("latin-1"), "decorated": pairs[0][1][:300].decode("latin-1")})
        # handlers are never invoked inside discarded forms
        ddocs = []
        for _ in range(200 if tier == "quick" else 2000):
            inner = decorate(rng, G.gen_value(rng, cfg, depth=2, width=3, tags=("id", "fail", "failq", "ext", "inst")), cfg, trivs[:30])
            ddocs.append(b"[1 #_" + rng.choice([b"", b" "]) + inner + b" 2]")
            ddocs.append(b"#_ " + inner + b" :v")
        ddocs += [b"[1 #_#foo 2 3]", b"[1 #_#inst \"x\" 3]", b"[1 #_[#_#foo 0 2] 3]", b"#_ #unknown/tag {:a #other 1} :v", b"[#_ #fail 1 #_ #failq 2 3]"]
        for dopt in (8, 10, 12):
            out, cr = K.run_impl(cfg, K.read_lines(ddocs, dopt))
            rep.count("discarded-tags/%s/opt%d" % (cfg, dopt), len(ddocs))
            for i, a in enumerate(out):
                if a is None:
                    continue
                if calls_names(a) or not a.startswith("ok "):
                    found = True
                    rep.finding("handler-in-discard", "a handler or the default reader mode acted on a tag inside a discarded form: %s" % a[-120:],
                                {"kind": "read", "config": cfg, "opt": dopt, "input_hex": C.hexs(ddocs[i]), "observed": a[:400]})
        # trivia-only documents
        tdocs = list(trivs) + [b"#_ foo", b"#_ [1 2 3] ; trailing comment\n", b"  #_ a #_ {:b 1}  ", b"#_ #_ a b", b"#_#t 1", b"#_ \"s\"\n"] + [b"".join(rng.choice(trivs) for _ in range(3)) for _ in range(100)] + [b"; no newline", b" ;x", b",", b""]
        tdocs = [t for t in tdocs if t] + [b""]  # the empty document (passed as a NUL-terminated empty string) is trivia-only too
        for opt in (0, 1):
            out, cr = K.run_impl(cfg, K.read_lines(tdocs, opt))
            mo, _ = K.run_model(cfg, K.read_lines(tdocs, opt))
            rep.count("trivia-only/%s/opt%d" % (cfg, opt), len(tdocs))
            for i, a in enumerate(out):
                if a is None:
                    continue
                if a != mo[i]:
                    rep.broken_obligation("correspondence/trivia-only", "model %r vs code %r on %r" % (mo[i], a, tdocs[i]), False)
                n = len(tdocs[i])
                want_prefix = "eofval" if opt == 1 else "err UNEXPECTED_EOF msg=1 %d:" % n
                if not a.startswith(want_prefix):
                    found = True
                    rep.finding("trivia-only", "a trivia-only document did not read as end of input: %s" % a[:100],
                                {"kind": "read", "config": cfg, "opt": opt, "input_hex": C.hexs(tdocs[i]), "observed": a})
    U.finish_proof(rep, lean, found)


def replay(path):
    r = json.load(open(path))
    print(json.dumps(r, indent=1)[:2500])
    exe = C.harness("unity", r["config"], "san")
    if r.get("kind") == "pair":
        out = C.run_lines(exe, K.read_lines([bytes.fromhex(r["plain_hex"]), bytes.fromhex(r["decorated_hex"])], r.get("opt", 0)))
    else:
        out = C.run_lines(exe, K.read_lines([bytes.fromhex(r["input_hex"])], r.get("opt", 0)))
    print("now:", out.outputs)
    return 0
