"""C02 - reading always returns: bounded stack and time, no hang, for any input.

Lean: Edn.Properties.C02 (termination for every input, progress, no descent at the nesting
limit, gcd termination).  Correspondence: adversarial nesting families through the real
library and the model.  Oracle / monitoring: the real library runs with a 1 MiB stack and a
CPU limit on nesting families of depth 1..10^6, long discard runs, and generated/corrupted
documents; wall time must grow at most quadratically with the input length.  Nesting is also driven
through every single position in which a form contains a form (annotation and target of `^`, tag
operand, discarded form, map key / value, namespaced-map prefix, ...) and every ordered pair of them,
in all four configurations: no member may kill the process or be accepted beyond the nesting limit.
Duplicate detection is run on two equal (and equal-down-to-the-leaf) operands nested up to the limit,
for every kind of level and every place where the reader compares values (set members, map keys, above
the 16- and 1000-element cut-overs, merged annotation maps, namespaced maps, discarded forms)."""
import json
import resource
import time

from .. import common as C
from .. import corr as K
from .. import gen as G
from . import util as U

PID = "C02"


def families(cfg, depths):
    clj = cfg in ("clj", "both")
    fam = {
        "list": lambda n: b"(" * n,
        "vector": lambda n: b"[" * n + b"]" * n,
        "set": lambda n: b"#{" * n,
        "map": lambda n: b"{:a " * n + b"1" + b"}" * n,
        "tag": lambda n: b"#a " * n + b"1",
        "discard-nested": lambda n: b"#_" * n + b"1 " * (n + 1),
        "discard-run": lambda n: b"#_ 1 " * n + b"2",
        "mixed": lambda n: (b"[#t {:k #{(" * (n // 4 + 1)),
        "comment-lines": lambda n: b";x\n" * n + b"1",
        "strings": lambda n: b"[" + b"\"a\\\\\" " * n + b"]",
        "closers": lambda n: b"]" * n,
        # hashing / equality work on nested values: a collection above the 16-element cut-over holding one value nested n deep
        "hashed-nested-tags": lambda n: b"#{" + b" ".join(b"%d" % i for i in range(16)) + b" " + b"#t " * min(n, 98) + b"16}",
        "hashed-nested-vectors": lambda n: b"#{" + b" ".join(b"%d" % i for i in range(16)) + b" " + b"[" * min(n, 98) + b"16" + b"]" * min(n, 98) + b"}",
        "hashed-nested-maps": lambda n: b"{" + b" ".join(b"%d %d" % (i, i) for i in range(16)) + b" " + b"{:k " * min(n, 98) + b"16" + b"}" * min(n, 98) + b" 1}",
        "equal-nested-pair": lambda n: b"#{" + b"[" * min(n, 98) + b"1" + b"]" * min(n, 98) + b" " + b"(" * min(n, 98) + b"2" + b")" * min(n, 98) + b"}",
    }
    if clj:
        fam["meta"] = lambda n: b"^a " * n + b"[]"
        fam["meta-map"] = lambda n: b"^{:a 1} " * n + b"x"
        fam["nsmap"] = lambda n: b"#:a{:k " * n + b"1" + b"}" * n
    out = []
    for name, f in fam.items():
        for n in depths:
            out.append((name, n, f(n)))
    return out


# Every position of the grammar through which a form contains another form: (text before the inner form, text after it,
# needs the Clojure extension, nesting levels one unit adds when the reader accepts it: 0 for the spellings that are no
# nesting at all - `#:` directly before another marker, `#:n` and its brace apart - and are there because a reader could
# recurse on them).  A chain of n such units around a leaf nests n deep through that position alone; an
# alternation of two units nests through both.  The leaf `s` (a symbol) is acceptable in every position (as annotation, as
# annotated form, as key, as operand of a tag), so that without a nesting limit every chain would be a well-formed document.
UNITS = {
    "list": (b"(", b")", False, 1),
    "vector": (b"[", b"]", False, 1),
    "set": (b"#{", b"}", False, 1),
    "map-value": (b"{:a ", b"}", False, 1),
    "map-key": (b"{", b" 1}", False, 1),
    "tag-operand": (b"#a ", b"", False, 1),
    "discarded-form": (b"#_ ", b" s", False, 1),
    "after-discard": (b"[#_ 0 ", b"]", False, 1),
    "meta-target": (b"^a ", b"", True, 1),
    "meta-annotation": (b"^", b" s", True, 1),
    "meta-annotation-map": (b"^{:k ", b"} s", True, 1),
    "meta-annotation-vector": (b"^[", b"] s", True, 1),
    "meta-map-target": (b"^{:k 1} ", b"", True, 1),
    "nsmap-value": (b"#:n{:k ", b"}", True, 1),
    "nsmap-key": (b"#:n{", b" 1}", True, 1),
    "nsmap-prefix": (b"#:", b"", True, 0),
    "nsmap-prefix-name": (b"#:n ", b"", True, 0),
}


def chain_families(cfg, tier):
    """(name, number of units, document, nesting levels of the document when it is complete - 0 for a chain cut off after its
    last opener, and for alternations with a spelling that is no nesting, whose text may fall apart into something flat): chains of
    one unit, and alternations of every ordered pair of units."""
    clj = cfg in ("clj", "both")
    units = [(k, p, s, lv) for k, (p, s, c, lv) in UNITS.items() if clj or not c]
    deep = [1000, 20000, 300000] if tier == "quick" else [1000, 5000, 20000, 100000, 300000]
    out = []
    for k, p, s, lv in units:
        for n in [1, 49, 50, 51, 98, 99, 100, 101, 150] + deep:
            out.append(("chain/" + k, n, p * n + b"s" + s * n, n * lv))
            if 99 <= n <= 20000 or (n > 20000 and tier == "thorough"):
                out.append(("chain-open/" + k, n, p * n, 0))
    for k1, p1, s1, lv1 in units:
        for k2, p2, s2, lv2 in units:
            if k1 == k2:
                continue
            for h in ([40, 75, 5000] if tier == "quick" else [25, 40, 50, 75, 150, 500, 10000]):
                out.append(("chain/%s+%s" % (k1, k2), 2 * h, (p1 + p2) * h + b"s" + (s2 + s1) * h, h * (lv1 + lv2) if lv1 and lv2 else 0))
    return out


# Equality / hashing / duplicate detection while reading: two EQUAL (or equal down to the leaf) operands nested k deep.  The
# cost of comparing them must not grow faster than a low-order polynomial of their size, whatever the kinds of the levels.
def nested_shapes(cfg):
    clj = cfg in ("clj", "both")
    sh = {
        "sets": lambda k, leaf: b"#{" * k + leaf + b"}" * k,
        "map-values": lambda k, leaf: b"{:a " * k + leaf + b"}" * k,
        "map-keys": lambda k, leaf: b"{" * k + leaf + b" 1}" * k,
        "map-keys-and-values": lambda k, leaf: (b"{" * (k // 2) + b"{:a " * (k - k // 2) + leaf + b"}" * (k - k // 2) + b" 1}" * (k // 2)),
        "vectors": lambda k, leaf: b"[" * k + leaf + b"]" * k,
        "lists": lambda k, leaf: b"(" * k + leaf + b")" * k,
        "tags": lambda k, leaf: b"#t " * k + leaf,
        "sets-of-two": lambda k, leaf: b"#{0 " * k + leaf + b"}" * k,
        "maps-of-two": lambda k, leaf: b"{:b 0 :a " * k + leaf + b"}" * k,
        "sets-in-maps": lambda k, leaf: b"".join((b"#{", b"{:a ", b"{")[i % 3] for i in range(k)) + leaf + b"".join((b"}", b"}", b" 1}")[i % 3] for i in reversed(range(k))),
        "sets-in-vectors": lambda k, leaf: b"".join((b"#{", b"[", b"#t ", b"{:a ")[i % 4] for i in range(k)) + leaf + b"".join((b"}", b"]", b"", b"}")[i % 4] for i in reversed(range(k))),
    }
    if clj:
        sh["nsmaps"] = lambda k, leaf: b"#:n{:a " * k + leaf + b"}" * k
        sh["annotated-sets"] = lambda k, leaf: b"^:m #{" * (k // 2) + leaf + b"}" * (k // 2)
    return sh


def nested_contexts(cfg):
    """name -> (function of the two operands, levels the context adds around them)"""
    clj = cfg in ("clj", "both")
    pad16 = b" ".join(b"%d" % i for i in range(16))
    pad16m = b" ".join(b"%d %d" % (i, i) for i in range(16))
    pad1200 = b" ".join(b"%d" % i for i in range(1200))
    cx = {
        "set-members": (lambda x, y: b"#{" + x + b" " + y + b"}", 1),
        "map-keys": (lambda x, y: b"{" + x + b" 1 " + y + b" 2}", 1),
        "three-members": (lambda x, y: b"#{" + x + b" 0 " + y + b" 1 " + x + b"}", 1),
        "in-vectors": (lambda x, y: b"#{[" + x + b"] [" + y + b"]}", 2),
        "under-tags": (lambda x, y: b"{#t " + x + b" 1 #t " + y + b" 2}", 2),
        "as-map-values": (lambda x, y: b"#{{:k " + x + b"} {:k " + y + b"}}", 2),
        "members-of-17": (lambda x, y: b"#{" + pad16[:20] + b" " + x + b" " + pad16[20:] + b" " + y + b"}", 1),
        "keys-of-17": (lambda x, y: b"{" + x + b" 1 " + pad16m + b" " + y + b" 2}", 1),
        "members-of-1200": (lambda x, y: b"#{" + x + b" " + pad1200 + b" " + y + b"}", 1),
        "inner-set": (lambda x, y: b"[1 #{" + x + b" " + y + b"} 2]", 2),
        "discarded-set": (lambda x, y: b"#_ #{" + x + b" " + y + b"} 1", 2),
        "discarded-keys": (lambda x, y: b"[#_ {" + x + b" 1 " + y + b" 2}]", 3),
    }
    if clj:
        cx["merged-annotation-keys"] = (lambda x, y: b"^{" + x + b" 1} ^{" + y + b" 2} s", 3)
        cx["nsmap-keys"] = (lambda x, y: b"#:n{" + x + b" 1 " + y + b" 2}", 1)
        cx["annotation-map-keys"] = (lambda x, y: b"^{" + x + b" 1 " + y + b" 2} s", 2)
    return cx


def nested_equal_docs(cfg, tier, stage):
    """stage 0: every shape at the greatest depth the nesting limit admits, as the two members of a set; stage 1: the sweep
    over contexts and depths.  (name, depth, document)"""
    shapes, ctxs = nested_shapes(cfg), nested_contexts(cfg)
    out = []
    if stage == 0:
        f, extra = ctxs["set-members"]
        for sn, g in shapes.items():
            out.append(("nested-equal/%s/set-members" % sn, 97, f(g(97, b"1"), g(97, b"1"))))
        return out
    depths = (2, 17, 34, 48, 97) if tier == "quick" else tuple(range(1, 98, 3)) + (97,)
    for sn, g in shapes.items():
        for cn, (f, extra) in ctxs.items():
            for k in depths:
                k = min(k, 99 - extra)
                out.append(("nested-equal/%s/%s" % (sn, cn), k, f(g(k, b"1"), g(k, b"1"))))
                out.append(("nested-differing-leaf/%s/%s" % (sn, cn), k, f(g(k, b"1"), g(k, b"2"))))
    return out


def _replay_of(cfg, mode, name, n, d, extra=None):
    # short documents are stored; the long members of a family are regenerated from (generator, family, depth) by replay()
    r = {"kind": "family", "config": cfg, "mode": mode, "family": name, "depth": n, "input_hex": C.hexs(d) if len(d) <= 20000 else None, "input_length": len(d)}
    r.update(extra or {})
    return r


def chain_part(rep, cfg, tier, modes=None, light=False):
    """Nesting through every position and every ordered pair of positions: no member may kill the process under a 1 MiB stack
    or outlast the CPU alarm, and no complete chain of 150 or more nested units may be accepted (the reader refuses to descend
    at the nesting limit: Edn.Properties.C02 no_descent_at_limit; that is what bounds its stack)."""
    found = False
    fams = chain_families(cfg, tier)
    if light and tier == "quick":
        # the configurations with one extension only: no long alternations, no model run
        fams = [f for f in fams if "+" not in f[0] or f[1] <= 1000]
    all_lines = K.read_lines([d for _, _, d, _ in fams])
    all_fams = fams
    impl0 = None
    for mode in (modes or (("o2", "san", "o0") if tier == "thorough" else ("o2", "san"))):
        # quick tier, sanitised build: the members above 20000 units are left to the optimised build (the time goes into decoding them)
        keep = [i for i in range(len(all_fams)) if not (tier == "quick" and mode == "san" and all_fams[i][1] > 20000)]
        fams, lines = [all_fams[i] for i in keep], [all_lines[i] for i in keep]
        order = sorted(range(len(fams)), key=lambda i: (fams[i][1], "+" in fams[i][0], len(fams[i][2])))
        impl, crashes = K.run_impl(cfg, lines, mode=mode, stack_kb=(1024 if mode != "san" else 8192), cpu_s=120, nchunks=16)
        rep.count("position-chains/%s-%s" % (cfg, mode), len(lines))
        for idx, rc, err in sorted(crashes, key=lambda t: fams[t[0]][1]):
            # A process that dies is charged to the first line without a complete answer.  The harness prints the value it got
            # recursively, so it can itself die on a value nested thousands deep (after the reader returned): the document is
            # read again in a process of its own to tell "the reader died" from "the reader accepted it" and from "another
            # document of the same process was the cause" (that one shows up below as accepted beyond the limit).
            name, n, d, levels = fams[idx]
            r1 = C.run_lines(C.harness("unity", cfg, mode), [lines[idx]], stack_kb=(1024 if mode != "san" else 8192), cpu_s=120)
            if r1.returncode == 0 and r1.crashed_at is None:
                impl[idx] = r1.outputs[0]
                rep.count("position-chains/crash-charged-to-a-neighbour")
                continue
            if r1.outputs and r1.outputs[0].startswith("ok "):
                impl[idx] = r1.outputs[0]
                continue
            found = True
            rep.finding("stack-or-hang/%s" % name, "%d forms nested through the position(s) %s: process died (rc %s) under a %s stack / CPU limit" % (
                n, name.split("/", 1)[1], r1.returncode, "1 MiB" if mode != "san" else "8 MiB"),
                _replay_of(cfg, mode, name, n, d, {"generator": "chain", "stderr": (r1.stderr or err)[:1500]}))
        for i in order:
            name, n, d, levels = fams[i]
            a = impl[i]
            if a is None:
                continue
            if a.startswith("timeout"):
                found = True
                rep.finding("hang/%s" % name, "%d forms nested through the position(s) %s did not return within 10 s" % (n, name.split("/", 1)[1]),
                            _replay_of(cfg, mode, name, n, d, {"generator": "chain"}))
            elif levels >= 150 and a.startswith("ok "):
                found = True
                rep.finding("limit/not-enforced", "a document of %d forms nested through the position(s) %s (%d bytes) was accepted: the nesting limit does not "
                            "bound this recursion, so the reader's stack grows with the input" % (levels, name.split("/", 1)[1], len(d)),
                            _replay_of(cfg, mode, name, n, d, {"generator": "chain", "observed": a[:200]}))
        if impl0 is None:
            impl0 = (fams, lines, impl)
    # the model answers the moderate depths as well
    fams, lines, impl = impl0
    if not (light and tier == "quick"):
        sel = [i for i in range(len(fams)) if fams[i][1] <= 1000]
        mo, _ = K.run_model(cfg, [lines[i] for i in sel])
        rep.count("position-chains/%s-model" % cfg, len(sel))
        for j, i in enumerate(sel):
            if impl[i] is not None and not impl[i].startswith("timeout") and impl[i] != mo[j]:
                rep.broken_obligation("correspondence/position-chain", "model %r vs code %r on %s depth %d" % ((mo[j] or "")[:150], impl[i][:150], fams[i][0], fams[i][1]), False)
    rep.note_cases(len(all_lines), set("%s-%d" % (nm, n) for nm, n, _, _ in all_fams), sample={"family": all_fams[7][0], "depth": all_fams[7][1]})
    return found


def nested_equal_part(rep, cfg, tier, modes=None):
    """Duplicate detection on equal operands nested up to the limit.  Stage 0 is small: when it already shows a reader that
    does not return, the sweep (which would spend 10 CPU seconds on every further member) is skipped."""
    found = False
    for stage in (0, 1):
        docs = nested_equal_docs(cfg, tier, stage)
        lines = K.read_lines([d for _, _, d in docs])
        for mode in (("o2",) if stage == 0 else (modes or ("o2", "san"))):
            impl, crashes = K.run_impl(cfg, lines, mode=mode, stack_kb=(1024 if mode != "san" else 8192), cpu_s=600, nchunks=16)
            rep.count("nested-equal-operands/%s-%s-stage%d" % (cfg, mode, stage), len(lines))
            for idx, rc, err in crashes:
                found = True
                name, k, d = docs[idx]
                rep.finding("stack-or-hang/%s" % name, "%s at depth %d: process died (rc %s) under a 1 MiB stack / CPU limit" % (name, k, rc),
                            _replay_of(cfg, mode, name, k, d, {"stderr": err[:1500]}))
            for (name, k, d), a in sorted(zip(docs, impl), key=lambda t: t[0][1]):
                if a is None:
                    continue
                if a.startswith("timeout"):
                    found = True
                    rep.finding("hang/%s" % name.split("/")[0], "a %d-byte document did not return within 10 CPU seconds: two operands nested %d deep (%s) "
                                "that are equal%s, where the reader looks for duplicates" % (len(d), k, name, "" if "equal/" in name else " down to the leaf"),
                                _replay_of(cfg, mode, name, k, d))
                else:
                    # what the answer is (duplicate or not) is the business of C07 / C08; counted here so that the evidence shows
                    # that the comparison really ran to the leaves
                    rep.count("nested-equal-operands/answers/" + ("duplicate" if a.startswith("err DUPLICATE") else "accepted" if a.startswith("ok ") else "other"))
            if found:
                break
        rep.note_cases(len(lines), set("%s-%d" % (nm, k) for nm, k, _ in docs))
        if found:
            break
    return found


def run(tier):
    rep = C.Report(PID, tier, "proof")
    rng = C.rng(PID)
    lean = U.lean_part(rep, PID)
    found = False
    depths = [1, 10, 99, 100, 101, 102, 1000, 10000, 100000] + ([1000000] if tier == "thorough" else [300000])
    for cfg in ("core", "both"):
        fams = families(cfg, depths)
        docs = [d for _, _, d in fams]
        lines = K.read_lines(docs)
        for mode in ("o2", "san", "o0"):
            if mode == "o0" and tier == "quick" and cfg != "core":
                continue
            t0 = time.time()
            impl, crashes = K.run_impl(cfg, lines, mode=mode, stack_kb=(1024 if mode != "san" else 8192), cpu_s=60, nchunks=8)
            rep.count("families/%s-%s" % (cfg, mode), len(lines))
            for idx, rc, err in crashes:
                found = True
                name, n, d = fams[idx]
                rep.finding("stack-or-hang/%s" % name, "family %s at depth %d: process died (rc %s) under a 1 MiB stack / CPU limit" % (name, n, rc),
                            {"kind": "family", "config": cfg, "mode": mode, "family": name, "depth": n, "input_hex": C.hexs(d) if len(d) < 4000 else None,
                             "stderr": err[:1500]})
            for (name, n, d), a in zip(fams, impl):
                if a is None:
                    continue
                if a.startswith("timeout"):
                    found = True
                    rep.finding("hang/%s" % name, "family %s at depth %d did not return within 10 s" % (name, n),
                                {"kind": "family", "config": cfg, "mode": mode, "family": name, "depth": n})
        # flat documents with one very long token, and numbers with extreme exponents: stack use and time must not depend
        # on the length of a token (only nesting may cost stack, and that is bounded)
        tfam = {
            "float-long-fraction": lambda n: b"[3." + b"3" * n + b" :ok]",
            "float-long-integer-part": lambda n: b"[" + b"7" * n + b".5 1]",
            "float-long-exponent-digits": lambda n: b"[1e" + b"9" * n + b" 1e-" + b"9" * n + b" 1.5e+0" + b"0" * n + b"1]",
            "float-exponent-value": lambda n: b"[1e%d 1.5e-%d -2E+%d 0e%d 1e%dM]" % (n, n, n, n, n),
            "integer-long": lambda n: b"[" + b"9" * n + b" -" + b"1" * n + b"N]",
            "bigdec-long": lambda n: b"[" + b"1" * n + b".5M 0." + b"0" * n + b"1M]",
            "string-long": lambda n: b'["' + b"a" * n + b'" "' + b"\\n" * (n // 2) + b'"]',
            "symbol-long": lambda n: b"[" + b"a" * n + b" :" + b"k" * n + b" ns/" + b"n" * n + b"]",
            "comment-long": lambda n: b";" + b"x" * n + b"\n[1]",
            "blank-run-long": lambda n: b" " * n + b"," * n + b"[1" + b"\t" * n + b"]",
        }
        if cfg in ("clj", "both"):
            tfam["hex-long"] = lambda n: b"[0x" + b"F" * n + b" 0" + b"7" * n + b"]"
            tfam["radix-long"] = lambda n: b"[36r" + b"Z" * n + b" 2r" + b"1" * n + b"]"
            tfam["ratio-long"] = lambda n: b"[" + b"1" * n + b"/" + b"3" * n + b"]"
        if cfg in ("exp", "both"):
            tfam["underscore-long"] = lambda n: b"[1" + b"_1" * n + b" 1" + b"_1" * n + b".5 1" + b"_0" * n + b"N]"
            tfam["text-block-long"] = lambda n: b'["""\n' + b"  line\n" * n + b'  """]'
        tlens = [1, 100, 511, 512, 513, 1000, 1001, 70000] + [3000000 if tier == "quick" else 8000000]
        tdocs = [(nm, n, f(n)) for nm, f in tfam.items() for n in tlens]
        tl = K.read_lines([d for _, _, d in tdocs])
        for mode in ("o2", "san"):
            impl, crashes = K.run_impl(cfg, tl, mode=mode, stack_kb=(1024 if mode != "san" else 8192), cpu_s=120, nchunks=16)
            rep.count("token-families/%s-%s" % (cfg, mode), len(tl))
            for idx, rc, err in crashes:
                found = True
                nm, n, d = tdocs[idx]
                rep.finding("stack-or-hang/%s" % nm, "flat document %s with token length / exponent %d: process died (rc %s) under a 1 MiB stack / CPU limit" % (nm, n, rc),
                            {"kind": "family", "config": cfg, "mode": mode, "family": nm, "depth": n, "input_hex": C.hexs(d) if len(d) < 4000 else None, "stderr": err[:1500]})
            for (nm, n, d), a in zip(tdocs, impl):
                if a is not None and a.startswith("timeout"):
                    found = True
                    rep.finding("hang/%s" % nm, "flat document %s with token length / exponent %d did not return within 10 s" % (nm, n),
                                {"kind": "family", "config": cfg, "mode": mode, "family": nm, "depth": n, "input_hex": C.hexs(d) if len(d) < 4000 else None})
        tsel = [i for i, (nm, n, d) in enumerate(tdocs) if n <= 1001]
        timpl, tmodel, tdiffs, _, _ = K.correspond(cfg, [tl[i] for i in tsel])
        for j in tdiffs[:3]:
            i = tsel[j]
            rep.broken_obligation("correspondence/token-family", "model %r vs code %r on %s length %d" % ((tmodel[j] or "")[:150], (timpl[j] or "")[:150], tdocs[i][0], tdocs[i][1]), False)
        rep.note_cases(len(tl), set("%s-%d" % (nm, n) for nm, n, _ in tdocs))

        # correspondence on the moderate depths (the model answers every depth as well)
        sel = [i for i, (nm, n, d) in enumerate(fams) if n <= 10000]
        impl, model, diffs, crashes, mcr = K.correspond(cfg, [lines[i] for i in sel])
        for j in diffs[:5]:
            i = sel[j]
            rep.broken_obligation("correspondence/family", "model %r vs code %r on family %s depth %d" % ((model[j] or "")[:150], (impl[j] or "")[:150], fams[i][0], fams[i][1]), False)
        rep.note_cases(len(lines), set("%s-%d" % (nm, n) for nm, n, _ in fams), sample={"family": fams[20][0], "depth": fams[20][1]})

        # every position through which a form contains a form (annotation and target of `^`, operand of a tag, discarded form,
        # key and value of a map, namespaced-map prefix, ...), alone and in ordered pairs
        if chain_part(rep, cfg, tier):
            found = True
        # duplicate detection on deeply nested equal operands
        if nested_equal_part(rep, cfg, tier):
            found = True

        # the same bound with a reader registry and each default reader mode (8 = registry, +2 unwrap, +4 error): tags with
        # and without a handler around and inside collections
        ofam = {
            "unknown-tag-in-vec": lambda n: b"[#x 1 " * n + b"]" * n,
            "known-tag-in-vec": lambda n: b"[#id 1 " * n + b"]" * n,
            "unknown-tag-chain": lambda n: b"#x " * n + b"1",
            "known-tag-chain": lambda n: b"#id " * n + b"1",
            "tagged-vectors": lambda n: b"#x [" * n + b"]" * n,
            "known-tagged-vectors": lambda n: b"#id [" * n + b"]" * n,
            "flat-unknown-tags": lambda n: b"[" + b"#x 1 " * min(n, 5000) + b"]",
            "flat-known-tags": lambda n: b"[" + b"#id 1 " * min(n, 5000) + b"]",
        }
        odocs = [(nm, n, f(n)) for nm, f in ofam.items() for n in (1, 50, 99, 100, 101, 150, 1000, 20000)]
        for opt in (8, 10, 12):
            ol = K.read_lines([d for _, _, d in odocs], opt)
            for mode in ("o2", "san"):
                impl, crashes = K.run_impl(cfg, ol, mode=mode, stack_kb=(1024 if mode != "san" else 8192), cpu_s=60, nchunks=8)
                rep.count("option-families/%s-%s-opt%d" % (cfg, mode, opt), len(ol))
                for idx, rc, err in crashes:
                    found = True
                    nm, n, d = odocs[idx]
                    rep.finding("stack-or-hang/" + nm, "family %s at depth %d with options %d: process died (rc %s) under a 1 MiB stack / CPU limit" % (nm, n, opt, rc),
                                {"kind": "family", "config": cfg, "mode": mode, "opt": opt, "family": nm, "depth": n, "input_hex": C.hexs(d) if len(d) < 4000 else None, "stderr": err[:1500]})
            mo, _ = K.run_model(cfg, [l for l, (nm, n, d) in zip(ol, odocs) if n <= 1000])
            io = [a for a, (nm, n, d) in zip(impl, odocs) if n <= 1000]
            for j, (a, b) in enumerate(zip(io, mo)):
                if a is not None and a != b:
                    rep.broken_obligation("correspondence/option-family", "model %r vs code %r (options %d)" % ((b or "")[:150], a[:150], opt), False)
                    break
            # the nesting limit is the same whatever the options: flat documents are accepted, the deep ones rejected
            for (nm, n, d), a in zip(odocs, impl):
                if a is None:
                    continue
                flat = nm.startswith("flat")
                if flat and not (a.startswith("ok ") or a.startswith("err UNKNOWN_TAG")):
                    found = True
                    rep.finding("limit/flat-document-rejected", "a flat document of %d tagged elements was rejected with options %d: %s" % (min(n, 5000), opt, a[:80]),
                                {"kind": "family", "config": cfg, "mode": "san", "opt": opt, "family": nm, "depth": n, "input_hex": C.hexs(d) if len(d) < 4000 else None})
                if not flat and n >= 150 and a.startswith("ok "):
                    found = True
                    rep.finding("limit/not-enforced", "nesting of depth %d accepted with options %d (family %s)" % (n, opt, nm),
                                {"kind": "family", "config": cfg, "mode": "san", "opt": opt, "family": nm, "depth": n, "input_hex": C.hexs(d) if len(d) < 4000 else None})
        rep.note_cases(3 * len(odocs), set("%s-%d" % (nm, n) for nm, n, _ in odocs))

        # every byte value where a form may start, with more than one vector block of input after it, under an address-space
        # limit: a short document must not make the reader consume memory or time without bound
        bdocs = []
        for b in range(256):
            for pre, suf in ((b"[", b" 1 2 3 4 5 6 7 8 9 10]"), (b"[1 ", b" 2 3 4 5 6 7 8 9 10 11 12]"), (b"{:k ", b" :a 1 :b 2 :c 3 :d 4}"), (b"#", b" 1 2 3 4 5 6 7 8 9 10 11"),
                             (b"[#", b" 1 2 3 4 5 6 7 8 9 10]"), (b"", b" 1 2 3 4 5 6 7 8 9 10 11 12")):
                bdocs.append(pre + bytes([b]) + suf)
        t0c = resource.getrusage(resource.RUSAGE_CHILDREN)
        bo, bcr = K.run_impl(cfg, K.read_lines(bdocs), mode="o2", cpu_s=120, as_mb=1024, nchunks=16)
        t1c = resource.getrusage(resource.RUSAGE_CHILDREN)
        rep.count("byte-contexts-long-tail/" + cfg, len(bdocs))
        for idx, rc, err in bcr:
            found = True
            rep.finding("resource/byte-context", "a %d-byte document made the reader die under a 1 GiB address-space / CPU limit (rc %s)" % (len(bdocs[idx]), rc),
                        {"kind": "read", "config": cfg, "mode": "o2", "input_hex": C.hexs(bdocs[idx]), "stderr": err[:800]})
        for d, a in zip(bdocs, bo):
            if a is not None and a.startswith("err OUT_OF_MEMORY"):
                found = True
                rep.finding("resource/unbounded-memory", "a %d-byte document exhausted a 1 GiB address space" % len(d), {"kind": "read", "config": cfg, "mode": "o2", "input_hex": C.hexs(d)})
        cpu = (t1c.ru_utime + t1c.ru_stime) - (t0c.ru_utime + t0c.ru_stime)
        rep.coverage.setdefault("timings", {})["%s/byte-contexts-cpu-seconds" % cfg] = round(cpu, 2)
        if cpu > 60:
            found = True
            rep.finding("resource/unbounded-time", "%d documents of about 30 bytes took %.1f CPU seconds" % (len(bdocs), cpu), {"kind": "timing", "config": cfg, "family": "byte-contexts", "times": cpu})
        rep.note_cases(len(bdocs), set(bdocs))

        # time growth: doubling the input must not more than ~quadruple the time (with slack)
        for name in ("vector", "strings", "comment-lines", "discard-run", "wide-set", "wide-map"):
            times = []
            for n in (20000, 40000, 80000):
                if name == "wide-set":
                    d = b"#{" + b" ".join(str(i).encode() for i in range(n // 8)) + b"}"
                elif name == "wide-map":
                    d = b"{" + b" ".join(b":k%d %d" % (i, i) for i in range(n // 10)) + b"}"
                else:
                    d = [x for nm, k, x in families(cfg, [n // 4]) if nm == name][0]
                # CPU time of the child process (not wall time: the machine may be busy)
                r0 = resource.getrusage(resource.RUSAGE_CHILDREN)
                out, cr = K.run_impl(cfg, K.read_lines([d]), mode="o2", cpu_s=120, nchunks=1)
                r1 = resource.getrusage(resource.RUSAGE_CHILDREN)
                times.append((len(d), (r1.ru_utime + r1.ru_stime) - (r0.ru_utime + r0.ru_stime)))
            rep.count("timing/" + name, 3)
            (n1, t1), (n2, t2), (n3, t3) = times
            rep.coverage.setdefault("timings", {})["%s/%s" % (cfg, name)] = [(n, round(t, 3)) for n, t in times]
            if t3 > 2.0 and t3 > 6.0 * max(t2, 0.05) * ((n3 / n2) ** 2) / 4.0:
                found = True
                rep.finding("time/%s" % name, "time grows faster than quadratically: %s" % times, {"kind": "timing", "config": cfg, "family": name, "times": times})

        # generated and corrupted documents under the same limits
        ndocs = 2000 if tier == "quick" else 30000
        docs = []
        for _ in range(ndocs):
            d = G.render_doc(rng, G.gen_value(rng, cfg, depth=4), cfg) if rng.random() < 0.5 else G.gen_ext_doc(rng, cfg)
            docs.append(d if rng.random() < 0.5 else G.mutate(rng, d))
        docs = [d for d in docs if d]
        impl, crashes = K.run_impl(cfg, K.read_lines(docs), mode="o2", stack_kb=1024, cpu_s=120)
        rep.count("documents/" + cfg, len(docs))
        for idx, rc, err in crashes:
            found = True
            rep.finding("document-crash", "document made the reader die under the limits", {"kind": "read", "config": cfg, "mode": "o2", "input_hex": C.hexs(docs[idx]), "stderr": err[:1500]})
        rep.note_cases(len(docs), set(C.sha(d)[:16] for d in docs))

        # the gcd loop of ratio literals: operands at the edges of int64 (INT64_MIN has no negation), consecutive
        # Fibonacci numbers (most subtract/shift steps), powers of two; the harness's own 10 s alarm reports a hang
        if cfg in ("clj", "both"):
            big = [2 ** 63, 2 ** 63 - 1, 2 ** 63 - 2, 2 ** 62, 2 ** 62 + 1, 7540113804746346429, 4660046610375530309, 3 ** 39, 6, 3, 2, 1]
            rdocs = []
            for a in big:
                for b in big[1:] + [9, 10, 4611686018427387904]:
                    for sg in (b"", b"-"):
                        if a == 2 ** 63 and not sg:
                            continue
                        rdocs.append(sg + str(a).encode() + b"/" + str(b).encode())
            rl = K.read_lines(rdocs)
            for mode in ("o2", "san"):
                impl, crashes = K.run_impl(cfg, rl, mode=mode, cpu_s=200, nchunks=16)
                rep.count("ratio-gcd/%s-%s" % (cfg, mode), len(rl))
                for idx, rc, err in crashes:
                    found = True
                    rep.finding("gcd/crash", "ratio literal %r made the reader die (rc %s)" % (rdocs[idx], rc),
                                {"kind": "read", "config": cfg, "mode": mode, "input_hex": C.hexs(rdocs[idx]), "stderr": err[:1500]})
                for d, a in zip(rdocs, impl):
                    if a is not None and a.startswith("timeout"):
                        found = True
                        rep.finding("gcd/hang", "ratio literal %r did not return within 10 s" % d, {"kind": "read", "config": cfg, "mode": mode, "input_hex": C.hexs(d)})
            mo, _ = K.run_model(cfg, rl)
            for d, a, b in zip(rdocs, impl, mo):
                if a is not None and not a.startswith("timeout") and a != b:
                    rep.broken_obligation("correspondence/ratio", "model %r vs code %r on %r" % (b, a, d), False)
                    break
            rep.note_cases(len(rdocs), set(rdocs))
    # the two configurations with one extension only: the position chains and the nested equal operands, optimised build
    for cfg in ("clj", "exp"):
        if chain_part(rep, cfg, tier, modes=("o2",), light=True):
            found = True
        if nested_equal_part(rep, cfg, tier, modes=("o2",)):
            found = True
    # ---- lookups in a tag registry after any history of register / re-register / unregister calls return (a reader given that registry would hang
    #      otherwise): groups of 2..4 tags sharing one of the 16 buckets, every order of (re-)registration incl. re-registering a tag that is not the
    #      head of its chain, then queries of present and ABSENT tags of the same bucket, under the harness's CPU alarm
    from . import c14 as _c14
    import itertools as _it
    byb = {}
    for a1 in "abcdefghijklmnop":
        for b1 in "abcdefgh":
            byb.setdefault(_c14.fnv((a1 + b1).encode()) % 16, []).append(a1 + b1)
    glines = []
    for bk in sorted(byb)[:6]:
        tags = byb[bk][:5]
        if len(tags) < 4:
            continue
        absent = tags[4] if len(tags) > 4 else "zz/absent"
        for n in (2, 3, 4):
            for order in _it.permutations(tags[:n]):
                for redo in order:
                    for un in (None, order[0], order[-1]):
                        ops = ["+%s=1" % t for t in order] + ["+%s=2" % redo] + (["-%s" % un] if un else []) + ["?%s" % absent] + ["?%s" % t for t in tags[:n]]
                        glines.append("G " + " ".join(ops))
    gi, gcr = K.run_impl("core", glines, mode="o2", nchunks=8, cpu_s=5, resilient=False)  # a hang costs one chunk 5 CPU-seconds, then that chunk stops
    rep.count("registry-histories-then-lookups", len(glines))
    for idx, rc, err in gcr[:3]:
        found = True
        rep.finding("hang/registry-lookup", "a lookup after this history of registry calls did not return (exit %s)" % rc, {"kind": "line", "config": "core", "mode": "o2", "line": glines[idx], "stderr": (err or "")[-1500:]})
    U.finish_proof(rep, lean, found)


def replay(path):
    r = json.load(open(path))
    print(json.dumps(r, indent=1)[:2000])
    if not r.get("input_hex") and r.get("generator") == "chain":
        # long members of the position-chain families are regenerated
        for tier in ("quick", "thorough"):
            for name, n, d, _ in chain_families(r["config"], tier):
                if name == r.get("family") and n == r.get("depth"):
                    r["input_hex"] = C.hexs(d)
    if r.get("input_hex"):
        out = C.run_lines(C.harness("unity", r["config"], r.get("mode", "o2")), K.read_lines([bytes.fromhex(r["input_hex"])], r.get("opt", 0)),
                          stack_kb=(1024 if r.get("mode", "o2") != "san" else 8192), cpu_s=60)
        print("now:", [o[:200] for o in out.outputs], out.returncode)
    return 0
