"""Allocation-trace correspondence (protocol command H): the allocation-aware reader model
(lean/Edn/Model/ReaderA.lean, `readA`) against the real library in the build with
malloc/calloc/realloc/free/edn_arena_alloc/edn_arena_create/edn_arena_destroy wrapped.

`H <k> <mode> <opt> <hex>` reads the document with logical request k failing (mode 1: only k, mode 2: k and
every later one, k = 0: none) and prints the outcome exactly as `R` does, then
` reqs=<n> live=<raw blocks still live at return> arena=<owned|destroyed|none> trace=[...]`.
Trace alphabet: a/A arena request granted/refused, t/T the same on the temporary arena of the error-position
code, n/N the two mallocs of edn_arena_create, m/M any other malloc, c/C calloc, r<id>/R<id> realloc of block
<id>, f<id> free of block <id>, d0/d1 destruction of the parser's / the temporary arena.  A block's id is the
index of the request that returned it.

Modes 3 / 4 are 1 / 2 with the schedule running on through the accessor calls the dump makes (lazily materialised
payloads: decoded strings, NUL-terminated copies, digit strings without underscores); the line then ends in
` dump-reqs=<total> dump-trace=[...]`.

Used by C16 (every request index failed alone and from there on) and by C15 (fault-free reads: the ledger)."""
import re

from .. import common as C
from .. import corr as K

TOK_RE = re.compile(r"[aAtTnNmMcC]|[rR]-?\d+|f\d+|f\?|d\d|d\?")
H_RE = re.compile(r"^(.*) reqs=(\d+) live=(-?\d+) arena=(owned|destroyed|none) trace=\[([^\]]*)\](?: dump-reqs=(\d+) dump-trace=\[([^\]]*)\])?$", re.S)
# the model driver is quadratic in the document size (DESIGN.md section 9)
MAX_DOC = 25000


def parse_h(out):
    """(dump, reqs, live, arena, trace) or None"""
    m = H_RE.match(out or "")
    if not m:
        return None
    return m.group(1), int(m.group(2)), int(m.group(3)), m.group(4), m.group(5)


def parse_dump_phase(out):
    """(total requests after the dump, trace of the dump's accessor calls) of a mode 3 / 4 line, or None"""
    m = H_RE.match(out or "")
    if not m or m.group(6) is None:
        return None
    return int(m.group(6)), m.group(7)


def tokens(trace):
    toks = TOK_RE.findall(trace)
    return toks if "".join(toks) == trace else None


def raw_request_indices(trace):
    """1-based indices of the requests that are direct malloc/calloc/realloc calls (incl. arena creation)"""
    idx, res = 0, []
    for t in tokens(trace) or []:
        if t[0] in "aAtTnNmMcCrR":
            idx += 1
            if t[0] in "nNmMcCrR":
                res.append(idx)
    return res


def ledger_replay(trace, reqs, live, arena, is_value):
    """Replay the trace against an independent ledger.  Returns a problem (string) or None: every free / realloc
    names a live block, nothing is freed twice, no raw block survives the call, every arena that was created is
    destroyed exactly once - except the parser's arena when (and only when) a value is returned."""
    toks = tokens(trace)
    if toks is None:
        return "unparseable trace"
    idx = 0
    blocks = set()
    arenas = []           # state per edn_arena_create call: 'none' (creation failed) / 'alive' / 'destroyed'
    rec = None            # the arena record of a creation in flight
    for t in toks:
        c = t[0]
        if c in "aAtTnNmMcCrR":
            idx += 1
        if c == "N":
            if rec is None:
                arenas.append("none")       # the record itself was refused
            else:
                rec = None                  # the first block was refused: the record is freed next
        elif c == "n":
            if rec is None:
                arenas.append("none")
                rec = idx
                blocks.add(idx)
            else:
                blocks.discard(rec)         # record and first block now belong to the arena
                rec = None
                arenas[-1] = "alive"
        elif c in "mc":
            blocks.add(idx)
        elif c == "r":
            old = int(t[1:])
            if old >= 0:
                if old not in blocks:
                    return "realloc of a block that is not live (%s)" % t
                blocks.discard(old)
            blocks.add(idx)
        elif c == "R":
            old = int(t[1:])
            if old >= 0 and old not in blocks:
                return "realloc of a block that is not live (%s)" % t
        elif c == "f":
            if t == "f?":
                return "free of a pointer that is not a live raw block"
            b = int(t[1:])
            if b not in blocks:
                return "free of a block that is not live: freed twice or never allocated (%s)" % t
            blocks.discard(b)
        elif c == "d":
            if t == "d?":
                return "destruction of an arena that is not alive"
            k = int(t[1:])
            if k >= len(arenas) or arenas[k] != "alive":
                return "destruction of an arena that is not alive (%s)" % t
            arenas[k] = "destroyed"
    if idx != reqs:
        return "request count %d differs from the trace (%d request events)" % (reqs, idx)
    if blocks or live != 0:
        return "raw blocks still live at return: %s (live=%d)" % (sorted(blocks)[:5], live)
    st0 = arenas[0] if arenas else "none"
    want = {"alive": "owned", "destroyed": "destroyed", "none": "none"}[st0]
    if want != arena:
        return "arena=%s but the trace leaves the parser's arena %s" % (arena, st0)
    if is_value and st0 != "alive":
        return "a value was returned but its arena is %s" % st0
    if not is_value and st0 == "alive":
        return "no value was returned but the parser's arena was not destroyed (leak)"
    for k, st in enumerate(arenas[1:], 1):
        if st == "alive":
            return "temporary arena %d never destroyed (leak)" % k
    return None


def pick_ks(rng, reqs, trace, budget):
    """request indices to fail: all of 1..reqs+1 when the budget allows, otherwise the first and the last ones,
    raw (malloc/calloc/realloc) requests with their neighbours, and a random sample of the rest"""
    ks = list(range(1, reqs + 2))
    if len(ks) <= budget:
        return ks
    q = max(1, budget // 4)
    keep = set(ks[:q]) | set(ks[-q:])
    raw = [k for k in raw_request_indices(trace) if k > 2]
    for k0 in raw[:max(1, q // 2)]:
        keep.update(k for k in (k0 - 1, k0, k0 + 1) if 1 <= k <= reqs + 1)
    rest = [k for k in ks if k not in keep]
    keep.update(rng.sample(rest, min(len(rest), q)))
    return sorted(keep)


def budget_for(doc, cap):
    """fault points per (document, options): the model driver is quadratic in the document size (a 24 kB document
    of 5000 elements costs 0.6 s per case), so only the thorough tier (cap >= 100000) fails every request of the
    documents up to 5 kB, and the giants are sampled in both tiers"""
    n = len(doc)
    if cap >= 100000:
        return cap if n <= 5000 else (600 if n <= 10000 else 200)
    if n <= 1000:
        return cap
    if n <= 2000:
        return max(8, cap // 2)
    if n <= 5000:
        return max(8, cap // 3)
    return max(6, cap // 5)


def opts_for(doc, base_dump):
    opts = [0]
    if len(doc) <= 200 or not base_dump.startswith("ok "):
        opts.append(1)
    if b"#" in doc and len(doc) <= 2000:
        opts.append(9)
    return opts


def count_events(rep, prefix, trace):
    for t in tokens(trace) or []:
        rep.count("%s/events/%s" % (prefix, t[0]))


def run_stream(rep, rng, cfg, docs, what, cap, faults=True, opts_fn=opts_for, mode="san", opt_extra=0, max_doc=MAX_DOC):
    """Harness and driver on H lines for `docs`; returns True when a concrete failing input was found.
    faults=False: only k = 0 (the ledger of a fault-free read)."""
    found = False
    docs = [d for d in docs if d and len(d) <= max_doc]
    # fault-free pass on the code: number of requests and the trace decide which k are worth failing
    base_meta = []
    base_lines = []
    for d in docs:
        for opt in (0, 1, 9):
            base_lines.append("H 0 3 %d %s" % (opt | opt_extra, C.hexs(d)))
            base_meta.append((d, opt))
    base, bcr = K.run_impl(cfg, base_lines, mode=mode, style="wrap")
    for idx, rc, err in bcr:
        found = True
        head = next((l for l in err.split("\n") if "ERROR" in l or "runtime error" in l), err.strip().split("\n")[0] if err.strip() else "")
        rep.finding("reader/crash", "crash or sanitizer report in a fault-free read: %s" % head[:200],
                    {"kind": "line", "config": cfg, "style": "wrap", "line": base_lines[idx], "stderr": err[-3000:]})
    lines, meta = [], []
    by_doc = {}
    for (d, opt), b in zip(base_meta, base):
        pf = parse_h(b)
        if pf is None:
            continue
        by_doc.setdefault(d, {})[opt] = pf + (parse_dump_phase(b) or (pf[1], ""))
    for d in docs:
        got = by_doc.get(d, {})
        if 0 not in got:
            continue
        for opt in opts_fn(d, got[0][0]):
            if opt not in got:
                continue
            dump0, reqs, live, arena, trace, dreqs, dtrace = got[opt]
            lines.append("H 0 1 %d %s" % (opt | opt_extra, C.hexs(d)))
            meta.append((d, opt, 0, 1))
            if dreqs > reqs:
                lines.append("H 0 3 %d %s" % (opt | opt_extra, C.hexs(d)))
                meta.append((d, opt, 0, 3))
            if not faults:
                continue
            # the accessor phase: requests reqs+1 .. dreqs are made by the dump (each a request on the value's arena)
            if dreqs > reqs:
                aks = list(range(reqs + 1, dreqs + 2))
                nb = max(4, budget_for(d, cap) // 2)
                if len(aks) > nb:
                    aks = sorted(set(aks[:nb // 2] + aks[-2:] + rng.sample(aks, nb // 2)))
                for k in aks:
                    for m in (3, 4):
                        lines.append("H %d %d %d %s" % (k, m, opt | opt_extra, C.hexs(d)))
                        meta.append((d, opt, k, m))
            for k in pick_ks(rng, reqs, trace, budget_for(d, cap)):
                for m in (1, 2):
                    lines.append("H %d %d %d %s" % (k, m, opt | opt_extra, C.hexs(d)))
                    meta.append((d, opt, k, m))
    impl, model, diffs, crashes, mcr = K.correspond(cfg, lines, mode=mode, style="wrap")
    rep.count("%s/documents/%s" % (what, cfg), len(docs))
    rep.count("%s/cases/%s" % (what, cfg), len(lines))
    rep.count("%s/fault-points/%s" % (what, cfg), sum(1 for m in meta if m[2] > 0))
    rep.count("%s/accessor-phase-cases/%s" % (what, cfg), sum(1 for m in meta if m[3] in (3, 4)))
    for idx, rc, err in crashes:
        found = True
        head = next((l for l in err.split("\n") if "ERROR" in l or "runtime error" in l), err.strip().split("\n")[0] if err.strip() else "")
        d, opt, k, m = meta[idx]
        rep.finding("reader/crash", "crash or sanitizer report with request %d failing (%s): %s" % (k, "alone" if m in (1, 3) else "and every later one", head[:200]),
                    {"kind": "line", "config": cfg, "style": "wrap", "line": lines[idx], "input_text": d[:300].decode("latin-1"), "stderr": err[-3000:]})
    if mcr:
        rep.broken_obligation("correspondence/alloc-trace", "the model driver stopped on an H line: %s" % (mcr[0][2] or "")[-500:], False)
    for i in diffs[:3]:
        d, opt, k, m = meta[i]
        rep.broken_obligation("correspondence/alloc-trace",
                              "allocation-aware model and code disagree (configuration %s, options %d, request %d failing %s) on %r: model %r vs code %r"
                              % (cfg, opt, k, "alone" if m in (1, 3) else "and every later one", d[:120], (model[i] or "")[-400:], (impl[i] or "")[-400:]), False,
                              extra={"stream": "alloc-trace", "config": cfg, "style": "wrap", "mode": mode, "line": lines[i], "input_hex": C.hexs(d), "input_text": d[:300].decode("latin-1"),
                                     "request": k, "fault_mode": m, "options": opt, "model": (model[i] or "")[-1500:], "code": (impl[i] or "")[-1500:]})
    rep.count("%s/disagreements/%s" % (what, cfg), len(diffs))
    # what the code did, judged without the model: the ledger of every trace balances, nothing is left live, the
    # arena is owned exactly when a value is returned, and a value is never returned together with an error
    reqs_total = 0
    for i, o in enumerate(impl):
        if o is None:
            continue
        pf = parse_h(o)
        d, opt, k, m = meta[i]
        rp = {"kind": "line", "config": cfg, "style": "wrap", "line": lines[i], "input_text": d[:300].decode("latin-1"), "observed": o[-800:]}
        if pf is None:
            found = True
            rep.finding("reader/garbled", "unparseable result line", rp)
            continue
        dump, reqs, live, arena, trace = pf
        reqs_total += reqs
        if k == 0:
            count_events(rep, what, trace)
        if dump.startswith("BOTH") or dump.startswith("NEITHER"):
            found = True
            rep.finding("reader/partial-or-wrong", "value and error do not exclude each other: %s" % dump[:60], rp)
        is_value = dump.startswith("ok ")
        prob = ledger_replay(trace, reqs, live, arena, is_value)
        if prob:
            found = True
            rep.finding("reader/leak" if ("live" in prob or "leak" in prob) else "reader/ledger", "%s (request %d failing %s)" % (prob, k, "alone" if m in (1, 3) else "and every later one"), rp)
        dp = parse_dump_phase(o)
        if dp is not None:
            # the accessors only ever ask the value's arena: no raw block, no arena is created or destroyed
            if any(t[0] not in "aA" for t in (tokens(dp[1]) or ["?"])) and dp[1] != "":
                found = True
                rep.finding("reader/ledger", "an accessor call did something else than requesting arena memory: %s" % dp[1][:80], rp)
            if k == 0:
                rep.count("%s/accessor-requests" % what, dp[0] - reqs)
        if k > 0 and m in (1, 2):
            rep.count("%s/outcome-under-fault/%s" % (what, "value" if is_value else dump.split(" ")[1] if dump.startswith("err ") else dump.split(" ")[0]))
    rep.count("%s/requests/%s" % (what, cfg), reqs_total)
    rep.note_cases(len(lines), set(C.sha(cfg + l)[:16] for l in lines),
                   sample={"line": lines[1][:160] if len(lines) > 1 else "", "code": (impl[1] or "")[-200:] if len(impl) > 1 else "", "model": (model[1] or "")[-200:] if len(model) > 1 else ""})
    return found


def replay(r):
    """re-run one recorded H line through code and model"""
    mode = r.get("mode", "san")
    exe = C.harness("wrap", r["config"], mode)
    out = C.run_lines(exe, [r["line"]])
    print("code now :", out.outputs, out.returncode, out.stderr[-1500:])
    mo, _ = K.run_model(r["config"], [r["line"]])
    print("model now:", mo)
    return 0
