"""C08 - sets and maps reject duplicates regardless of size, position or element kind.

Lean: Edn.Properties.C08 (hasDuplicates decides "two elements are equal" for every element
count; permutation invariance).  Correspondence: set/map literals of 2..1600 elements through
the real reader and the model.  Oracle: the generator plants (or does not plant) an equal
pair, so the expected verdict is known."""
import json

from .. import common as C
from .. import corr as K
from .. import gen as G
from . import util as U

PID = "C08"

# (spelling a, spelling b) that denote equal values, per configuration
def twin_kinds(cfg):
    clj = cfg in ("clj", "both")
    exp = cfg in ("exp", "both")
    ks = [
        (b"7", b"7"), (b"7", b"+7"), (b"nil", b"nil"), (b"true", b"true"), (b"1.5", b"1.50"), (b"1e2", b"100.0"),
        (b"0.0", b"-0.0"), (b"##NaN", b"##NaN"), (b"##Inf", b"##Inf"), (b"12345678901234567890", b"12345678901234567890"),
        (b"5N", b"5N"), (b"1.5M", b"1.5M"), (b"\\a", b"\\u0061"), (b"\\newline", b"\\u000A"),
        (b"\"ab\"", b"\"ab\""), (b"\"a\\nb\"", b"\"a\nb\""), (b"\"q\\\\\"", b"\"q\\\\\""), (b":k", b":k"), (b":n/k", b":n/k"),
        (b"s", b"s"), (b"n/s", b"n/s"), (b"[1 2]", b"[1 2]"), (b"[1 2]", b"(1 2)"), (b"(1)", b"[1]"), (b"[]", b"()"),
        (b"{:a 1 :b 2}", b"{:b 2, :a 1}"), (b"#{1 2 3}", b"#{3 1 2}"), (b"#t 1", b"#t 1"), (b"#t [1]", b"#t (1)"),
        (b"[[[1]]]", b"[([1])]"), (b"{[1] #{2}}", b"{(1) #{2}}"), (b"[\"x\\ty\"]", b"[\"x\ty\"]"),
    ]
    if clj:
        ks += [(b"1/2", b"2/4"), (b"4/2", b"2"), (b"0x10", b"16"), (b"010", b"8"), (b"2r101", b"5"),
               (b"22222222222222222222/3", b"22222222222222222222/3"), (b"\\o101", b"\\A"), (b"\"\\u0041\"", b"\"A\""), (b"^:m [1]", b"[1]"),
               (b"#:n{:a 1}", b"{:n/a 1}")]
    if exp:
        ks += [(b"1_000", b"1000"), (b"1_0N", b"10N"), (b"\"\"\"\nab\"\"\"", b"\"ab\""), (b"\"\"\"\n  a\n  b\n  \"\"\"", b"\"a\\nb\\n\"")]
    return ks


# pairs that look alike but are NOT equal
def near_kinds(cfg):
    ks = []
    if cfg in ("clj", "both"):
        # a/b != c/d although a*d == c*b modulo 2^64
        ks += [(b"4294967296/3", b"4294967296/4294967299"), (b"1/3", b"6148914691236517206/1"), (b"3/4294967297", b"12884901891/4294967297"),
               (b"-4294967296/3", b"-4294967296/4294967299"), (b"1/2", b"1/3"), (b"2/3", b"3/2"), (b"9223372036854775807/2", b"9223372036854775807/3")]
    ks += [(b"1", b"1.0"), (b"1", b"1N"), (b"1.0", b"1.0M"), (b":a", b"a"), (b"\"a\"", b"a"), (b"\\a", b"\"a\""), (b"[1]", b"#{1}"),
          (b"[1 2]", b"[2 1]"), (b"{:a 1}", b"{:a 2}"), (b"#t 1", b"#u 1"), (b"nil", b"false"), (b"[nil]", b"[]"), (b"\"a\\\\n\"", b"\"a\\n\"")]
    return ks


def fillers(n, base=100000):
    return [str(base + i).encode() for i in range(n)]


def build(kind, elems):
    if kind == "set":
        return b"#{" + b" ".join(elems) + b"}"
    flat = []
    for i, e in enumerate(elems):
        flat.append(e)
        flat.append(str(i).encode())
    return b"{" + b" ".join(flat) + b"}"


def run(tier):
    rep = C.Report(PID, tier, "proof")
    rng = C.rng(PID)
    lean = U.lean_part(rep, PID)
    found = False
    counts_small = [2, 3, 8, 15, 16, 17, 18, 33]
    counts_big = [100, 999, 1000, 1001, 1002] + ([1600] if tier == "thorough" else [])
    for cfg in (["core", "both"] if tier == "quick" else ["core", "clj", "exp", "both"]):
        docs, expect = [], []
        twins = twin_kinds(cfg)
        nears = near_kinds(cfg)
        for kind in ("set", "map"):
            for n in counts_small + counts_big:
                big = n >= 100
                tw = twins if not big else rng.sample(twins, 6 if tier == "quick" else 14)
                for (a, b) in tw:
                    positions = [(0, n - 1), (0, 1), (n - 2, n - 1), (n // 2 - 1, n // 2)] if n > 3 else [(0, n - 1)]
                    if big:
                        positions = positions[:2] if tier == "quick" else positions
                    for (i, j) in positions:
                        if i == j:
                            continue
                        el = fillers(n - 2)
                        if rng.random() < 0.5:
                            rng.shuffle(el)
                        lo, hi = min(i, j), max(i, j)
                        el.insert(lo, a)
                        el.insert(hi, b)
                        docs.append(build(kind, el))
                        expect.append(("dup", kind, n, a, b))
                nr = nears if not big else rng.sample(nears, 3)
                for (a, b) in nr:
                    el = fillers(n - 2)
                    el.insert(0, a)
                    el.append(b)
                    d = build(kind, el)
                    docs.append(d)
                    expect.append(("nodup", kind, n, a, b))
                    # permutation: same verdict
                    el2 = list(el)
                    rng.shuffle(el2)
                    docs.append(build(kind, el2))
                    expect.append(("nodup", kind, n, a, b))
        # distinct values with EQUAL hashes (namespace and name bytes are hashed without a separator) between the two
        # members of an equal pair: a strategy that only compares neighbours inside a run of equal hashes misses these
        colliders = [[b":a/bc", b":abc", b":ab/c"], [b"a/bc", b"abc", b"ab/c"], [b"[a/bc]", b"[abc]", b"(ab/c)"], [b"#t :a/bc", b"#t :abc", b"#t :ab/c"]]
        for kind in ("set", "map"):
            for n in [3, 4, 16, 17, 18, 100, 1000, 1001]:
                for grp in colliders:
                    x, y, z = grp
                    for seq, dup in (([x, y, x], True), ([y, x, z, y], True), ([x, y, z, x], True), ([x, y, z], False), ([z, y, x], False)):
                        if n < len(seq):
                            continue
                        for where in ("front", "back", "spread"):
                            fl = fillers(n - len(seq))
                            if where == "front":
                                el = seq + fl
                            elif where == "back":
                                el = fl + seq
                            else:
                                el = list(fl)
                                step = max(1, len(el) // len(seq))
                                for qi, q in enumerate(seq):
                                    el.insert(min(len(el), qi * step + qi), q)
                            docs.append(build(kind, el))
                            expect.append(("dup" if dup else "nodup", kind, n, seq[0], seq[-1]))
        # namespaced maps: keys are compared after qualification; a symbol and a keyword of one name stay different
        if cfg in ("clj", "both"):
            for n in (0, 14, 15, 16, 100, 1000):
                pad = b" ".join(b":p%d %d" % (i, i) for i in range(n))
                for body, dup in ((b"id 1 :id 2", False), (b"id 1 db/id 2", True), (b":id 1 :db/id 2", True), (b":_/id 1 :id 2", False), (b":_/id 1 :_/id 2", True),
                                  (b"_/id 1 id 2", False), (b"_/id 1 _/id 2", True), (b":id 1 :other/id 2", False), (b"id 1 :db/id 2 db/id 3", True),
                                  (b":_x/id 1 :_y/id 2", False), (b":_x/id 1 :id 2", False), (b"\"id\" 1 :id 2 id 3", False)):
                    docs.append(b"#:db{" + body + b" " + pad + b"}")
                    expect.append(("dup" if dup else "nodup", "map", n + 2, body, b"#:db"))
                    docs.append(b"#:db{" + pad + b" " + body + b"}")
                    expect.append(("dup" if dup else "nodup", "map", n + 2, body, b"#:db"))
        # mixed-kind pairwise-unequal literals of generated values
        for _ in range(40 if tier == "quick" else 300):
            n = rng.choice([5, 17, 40, 120])
            vals, seen = [], set()
            while len(vals) < n:
                v = G.gen_value(rng, cfg, depth=rng.choice([0, 1, 2]), width=3)
                c = G.canon(v)
                if c not in seen:
                    seen.add(c)
                    vals.append(v)
            el = [G.render(rng, v, cfg, rich=False) for v in vals]
            docs.append(build("set", el))
            expect.append(("nodup", "set", n, b"", b""))
            dup = list(el)
            dup.insert(rng.randrange(len(dup)), G.render(rng, rng.choice(vals), cfg, rich=False))
            docs.append(build("set", dup))
            expect.append(("dup", "set", n + 1, b"", b""))

        lines = K.read_lines(docs)
        impl, model, diffs, crashes, mcr = K.correspond(cfg, lines, project=lambda s: s.split(" ")[0:2] if s else s)
        rep.count("literals/" + cfg, len(docs))
        for idx, rc, err in crashes:
            found = True
            rep.finding("crash", "reader crashed on a set/map literal", {"kind": "read", "config": cfg, "input_hex": C.hexs(docs[idx]), "stderr": err[:3000]})
        for i in diffs[:5]:
            rep.broken_obligation("correspondence/read", "model %r vs code %r on %s" % ((model[i] or "")[:120], (impl[i] or "")[:120], docs[i][:200]), False)
        for i, (out, ex) in enumerate(zip(impl, expect)):
            if out is None:
                continue
            what, kind, n, a, b = ex
            code = "DUPLICATE_ELEMENT" if kind == "set" else "DUPLICATE_KEY"
            is_dup = out.startswith("err " + code)
            if what == "dup" and not is_dup:
                found = True
                rep.finding("missed/%s/%d" % (kind, 0 if n <= 16 else (1 if n <= 1000 else 2)),
                            "a %s literal of %d elements containing the equal pair %r / %r was not rejected as duplicate: %s" % (kind, n, a, b, out[:80]),
                            {"kind": "read", "config": cfg, "input_hex": C.hexs(docs[i]), "expected": "err " + code, "observed": out[:300]})
            if what == "nodup" and not out.startswith("ok "):
                found = True
                rep.finding("spurious/%s" % kind, "a %s literal of %d pairwise unequal elements (%r / %r) was rejected: %s" % (kind, n, a, b, out[:80]),
                            {"kind": "read", "config": cfg, "input_hex": C.hexs(docs[i]), "expected": "ok", "observed": out[:300]})
        rep.note_cases(len(docs), set(C.sha(d)[:16] for d in docs), sample={"doc": docs[5][:200].decode("latin-1"), "result": (impl[5] or "")[:120]})
    U.finish_proof(rep, lean, found)


def replay(path):
    r = json.load(open(path))
    print(json.dumps(r, indent=1)[:2000])
    exe = C.harness("unity", r["config"], "san")
    doc = bytes.fromhex(r["input_hex"])
    out = C.run_lines(exe, K.read_lines([doc]))
    print("now:", (out.outputs or [""])[0][:300], "| expected:", r.get("expected"))
    return 0 if out.outputs and out.outputs[0].startswith(r.get("expected", "")) else 1
