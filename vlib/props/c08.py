"""C08 - sets and maps reject duplicates regardless of size, position or element kind.

Lean: Edn.Properties.C08 (hasDuplicates decides "two elements are equal" for every element
count; permutation invariance).  Correspondence: set/map literals of 2..1600 elements through
the real reader and the model.  Oracle: the generator plants (or does not plant) an equal
pair, so the expected verdict is known.

Families: twins / near misses with integer fillers at every size class; distinct values with
equal hashes between the members of a pair; namespaced maps; generated mixed values;
two-spellings (one value written two ways - escape vs raw byte, sign, exponent, underscore,
radix, \\uXXXX, list vs vector - among companions of its own type that sort between the two
spellings by raw bytes, raw length, escape flag or hash; scalar-only, with one composite, and
all wrapped; every size class; also as keys of namespaced maps); context (the literal under
#_ directly / nested / chained, under tags, in and under metadata, as key and value, inside
namespaced maps, 60 levels deep, under every reader option); discarded-elements (#_ forms
between elements are no elements); map-values (only keys count)."""
import json

from .. import common as C
from .. import corr as K
from .. import gen as G
from . import util as U

PID = "C08"

# (spelling a, spelling b) that denote equal values, per configuration
def twin_kinds(cfg):
    clj = cfg in ("clj", "both")
    exp = cfg in ("exp", "both")
    ks = [
        (b"7", b"7"), (b"7", b"+7"), (b"nil", b"nil"), (b"true", b"true"), (b"1.5", b"1.50"), (b"1e2", b"100.0"),
        (b"0.0", b"-0.0"), (b"##NaN", b"##NaN"), (b"##Inf", b"##Inf"), (b"12345678901234567890", b"12345678901234567890"),
        (b"5N", b"5N"), (b"1.5M", b"1.5M"), (b"\\a", b"\\u0061"), (b"\\newline", b"\\u000A"),
        (b"\"ab\"", b"\"ab\""), (b"\"a\\nb\"", b"\"a\nb\""), (b"\"q\\\\\"", b"\"q\\\\\""), (b":k", b":k"), (b":n/k", b":n/k"),
        (b"s", b"s"), (b"n/s", b"n/s"), (b"[1 2]", b"[1 2]"), (b"[1 2]", b"(1 2)"), (b"(1)", b"[1]"), (b"[]", b"()"),
        (b"{:a 1 :b 2}", b"{:b 2, :a 1}"), (b"#{1 2 3}", b"#{3 1 2}"), (b"#t 1", b"#t 1"), (b"#t [1]", b"#t (1)"),
        (b"[[[1]]]", b"[([1])]"), (b"{[1] #{2}}", b"{(1) #{2}}"), (b"[\"x\\ty\"]", b"[\"x\ty\"]"),
    ]
    if clj:
        ks += [(b"1/2", b"2/4"), (b"4/2", b"2"), (b"0x10", b"16"), (b"010", b"8"), (b"2r101", b"5"),
               (b"22222222222222222222/3", b"22222222222222222222/3"), (b"\\o101", b"\\A"), (b"\"\\u0041\"", b"\"A\""), (b"^:m [1]", b"[1]"),
               (b"#:n{:a 1}", b"{:n/a 1}")]
    if exp:
        ks += [(b"1_000", b"1000"), (b"1_0N", b"10N"), (b"\"\"\"\nab\"\"\"", b"\"ab\""), (b"\"\"\"\n  a\n  b\n  \"\"\"", b"\"a\\nb\\n\"")]
    return ks


# pairs that look alike but are NOT equal
def near_kinds(cfg):
    ks = []
    if cfg in ("clj", "both"):
        # a/b != c/d although a*d == c*b modulo 2^64
        ks += [(b"4294967296/3", b"4294967296/4294967299"), (b"1/3", b"6148914691236517206/1"), (b"3/4294967297", b"12884901891/4294967297"),
               (b"-4294967296/3", b"-4294967296/4294967299"), (b"1/2", b"1/3"), (b"2/3", b"3/2"), (b"9223372036854775807/2", b"9223372036854775807/3")]
    ks += [(b"1", b"1.0"), (b"1", b"1N"), (b"1.0", b"1.0M"), (b":a", b"a"), (b"\"a\"", b"a"), (b"\\a", b"\"a\""), (b"[1]", b"#{1}"),
          (b"[1 2]", b"[2 1]"), (b"{:a 1}", b"{:a 2}"), (b"#t 1", b"#u 1"), (b"nil", b"false"), (b"[nil]", b"[]"), (b"\"a\\\\n\"", b"\"a\\n\"")]
    return ks


def fillers(n, base=100000):
    return [str(base + i).encode() for i in range(n)]


def build(kind, elems):
    if kind == "set":
        return b"#{" + b" ".join(elems) + b"}"
    flat = []
    for i, e in enumerate(elems):
        flat.append(e)
        flat.append(str(i).encode())
    return b"{" + b" ".join(flat) + b"}"


# ---------------------------------------------------------------------------------------------------------------------
# One value, several spellings.  A strategy that orders the elements by something derived from the *text* of a literal
# (raw bytes, raw length, an "has escapes" flag, a hash of the raw digits) and then tests neighbours only separates two
# spellings of one value as soon as a third element sorts between them.  Each group below is (type, [spellings of ONE
# value], [companions: pairwise unequal values of the same type, close to the value and to its spellings under every
# such order]).
# ---------------------------------------------------------------------------------------------------------------------
_ESC = {9: b"\\t", 10: b"\\n", 13: b"\\r", 34: b"\\\"", 92: b"\\\\"}


def s_raw(c):
    """string literal with the mandatory escapes only (TAB / LF / CR stay raw bytes)"""
    return b"\"" + b"".join(_ESC[x] if x in (34, 92) else bytes([x]) for x in c) + b"\""


def s_esc(c):
    return b"\"" + b"".join(_ESC.get(x, bytes([x])) for x in c) + b"\""


def str_companions(c):
    out, seen = [], {bytes(c), b""}

    def add(x):
        x = bytes(x)
        if x not in seen:
            seen.add(x)
            out.append(x)
    for p in range(len(c)):
        if c[p] in (9, 10, 13):
            for r in (0x20, 0x30, 0x41, 0x5b, 0x5d, 0x7e, 9, 10, 13):
                add(c[:p] + bytes([r]) + c[p + 1:])
    for p in (0, len(c) - 1):
        for d in (-1, 1):
            b = c[p] + d
            if 0x20 <= b < 0x7f or b in (9, 10, 13):
                add(c[:p] + bytes([b]) + c[p + 1:])
    for x in (b"!", b"a", b"~", b"\t", b"\n"):
        add(c + x)
        add(x + c)
    add(c[:-1])
    add(c[1:])
    add(c + c)
    # one content, one spelling (escaped and raw alternate), so that companions stay pairwise unequal
    return [(s_esc if i % 2 == 0 else s_raw)(x) for i, x in enumerate(out)]


def int_spell(x, i, cfg):
    if x >= 0 and i % 3 == 0:
        return b"+%d" % x
    if x >= 0 and i % 3 == 1 and cfg in ("clj", "both"):
        return b"0x%x" % x
    if x >= 1000 and i % 3 == 2 and cfg in ("exp", "both"):
        d = b"%d" % x
        return d[:1] + b"_" + d[1:]
    return b"%d" % x


def int_companions(v, cfg):
    vals, seen = [], {v}
    for x in [v + 1, v - 1, v + 2, -v, v * 10, v * 10 + 1, v * 11, v // 2] + list(range(0, 10)) + list(range(-9, 0)) + [v * 100, v + 16, v + 256]:
        if x not in seen:
            seen.add(x)
            vals.append(x)
    return [int_spell(x, i, cfg) for i, x in enumerate(vals)]


def big_companions(v, hexa=False):
    vals, seen = [], {v}
    for x in [v + 1, v - 1, v + 2, v * 10, v * 10 + 1, v + 10 ** 5, v + 10 ** 19, v * 3, v * 100, -v, -v - 1, v * 7, v + 3, v + 4, v + 5, v + 6, v + 7]:
        if x not in seen and abs(x) > 2 ** 64:
            seen.add(x)
            vals.append(x)
    out = []
    for i, x in enumerate(vals):
        body = (b"0x%X" % abs(x)) if hexa else (b"%d" % abs(x))
        sign = b"-" if x < 0 else (b"+" if i % 3 == 0 else b"")
        out.append(sign + body + (b"N" if (i % 3 == 1 and not hexa) else b""))
    return out


def float_companions(v):
    """v is a multiple of 1/4 (exact in binary and in two decimals)"""
    vals, seen = [], {v}
    for x in [v + 0.25, v - 0.25, v + 0.5, v - 0.5, v + 1, v - 1, v * 2 + 0.5, v * 10 + 0.25, v * 100 + 1, -v - 0.75, 0.25, 0.5, 0.75, 1.25, 2.75, 3.5, 7.25, 12.5]:
        if x not in seen:
            seen.add(x)
            vals.append(x)
    out = []
    for i, x in enumerate(vals):
        r = repr(float(x)).encode()
        if i % 3 == 1:
            r += b"0"
        elif i % 3 == 2:
            r = b"%de-2" % int(round(x * 100))
        out.append(r)
    return out


def char_spell(cp, i):
    if i % 2 == 0 and 0x21 <= cp <= 0x7e and chr(cp) not in "uo":
        return b"\\" + bytes([cp])
    return b"\\u%04X" % cp


def char_companions(cp):
    cps, seen = [], {cp}
    for x in [cp + 1, cp - 1, cp + 2, cp - 2, cp + 3, 0x21, 0x7e, 0x30, 0x39, 0x5a, 0x78, 0x100, 0x3bb, 0x20ac, 0x62, 0x42, 0x7d, 0x5c, 0x22]:
        if x not in seen and x > 0 and x not in (0x20, 9, 10, 13, 12, 8):
            seen.add(x)
            cps.append(x)
    return [char_spell(x, i) for i, x in enumerate(cps)]


def spelling_groups(cfg):
    clj = cfg in ("clj", "both")
    exp = cfg in ("exp", "both")
    gs = []
    # strings: escape vs raw byte, partially escaped, more than one SSE block, escapes on both sides
    for c in (b"tab\there", b"a\nb", b"\r", b"0123456789abcdef\tq\n"):
        gs.append(("str", [s_esc(c), s_raw(c)], str_companions(c)))
    gs.append(("str", [b"\"x\\ty\\tz\"", b"\"x\ty\\tz\"", b"\"x\ty\tz\""], str_companions(b"x\ty\tz")))
    gs.append(("str", [b"\"q\\\"\\t\"", b"\"q\\\"\t\""], str_companions(b"q\"\t")))
    if clj:
        gs.append(("str", [b"\"A\"", b"\"\\u0041\"", b"\"\\101\""], str_companions(b"A")))
        gs.append(("str", [b"\"k\\t\"", b"\"k\\u0009\"", b"\"k\\11\"", b"\"k\t\""], str_companions(b"k\t")))
        gs.append(("str", [b"\"\xc3\xa9\"", b"\"\\u00e9\"", b"\"\\u00E9\""], str_companions(b"\xc3\xa9")))
    if exp:
        gs.append(("str", [b"\"\"\"\nab\"\"\"", b"\"ab\""], str_companions(b"ab")))
        gs.append(("str", [b"\"\"\"\n  a\n  b\n  \"\"\"", b"\"a\\nb\\n\"", b"\"a\nb\n\""], str_companions(b"a\nb\n")))
    # integers
    gs.append(("int", [b"7", b"+7"], int_companions(7, cfg)))
    gs.append(("int", [b"0", b"-0", b"+0"], [b"1", b"-1", b"+2", b"10", b"-10", b"+100", b"3", b"-3", b"4", b"5", b"+6", b"8", b"9", b"-2", b"-4"]))
    gs.append(("int", [b"+4096", b"4096"], int_companions(4096, cfg)))
    if clj:
        gs.append(("int", [b"0x10", b"16", b"020", b"2r10000", b"16r10", b"+16"], int_companions(16, cfg)))
    if exp:
        gs.append(("int", [b"1_000", b"1000", b"+1_0_0_0"], int_companions(1000, cfg)))
    # big integers
    v = 12345678901234567890
    gs.append(("bigint", [b"%d" % v, b"+%d" % v, b"%dN" % v], big_companions(v)))
    gs.append(("bigint", [b"5N", b"+5N"], [b"4N", b"+6N", b"-5N", b"50N", b"+55N", b"7N", b"8N", b"+9N", b"15N", b"25N", b"+35N", b"45N", b"65N", b"+75N", b"85N"]))
    if clj:
        h = 0xFFFFFFFFFFFFFFFFFFFF
        gs.append(("bigint", [b"0x%X" % h, b"+0x%X" % h], big_companions(h, hexa=True)))
    if exp:
        gs.append(("bigint", [b"1_000N", b"1000N"], [b"999N", b"+1001N", b"1_011N", b"10_00_0N", b"100N", b"+1_0N", b"1002N", b"1003N", b"+1004N", b"1_005N", b"1006N", b"+1007N", b"1_008N", b"1009N", b"+1010N"]))
        w = 10 ** 21
        gs.append(("bigint", [b"1_000_000_000_000_000_000_000", b"%d" % w, b"+1000000000000_000000000"], big_companions(w)))
    # floats
    gs.append(("float", [b"1.0", b"1.00", b"1e0", b"10e-1", b"+1.0"], float_companions(1.0)))
    gs.append(("float", [b"1e2", b"100.0", b"1E2", b"1e+2"], float_companions(100.0)))
    gs.append(("float", [b"0.0", b"-0.0", b"0e0"], float_companions(0.0)))
    gs.append(("float", [b"1.5", b"1.50", b"15e-1"], float_companions(1.5)))
    gs.append(("float", [b"-2.5", b"-25e-1", b"-2.50"], float_companions(-2.5)))
    if exp:
        gs.append(("float", [b"1_0.5", b"10.5", b"1_0.5_0"], float_companions(10.5)))
    # characters
    for names, cp in (([b"\\a", b"\\u0061"], 0x61), ([b"\\newline", b"\\u000A", b"\\u000a"], 10), ([b"\\space", b"\\u0020"], 0x20),
                      ([b"\\tab", b"\\u0009"], 9), ([b"\\return", b"\\u000D"], 13)):
        gs.append(("char", names, char_companions(cp)))
    if clj:
        gs.append(("char", [b"\\A", b"\\o101", b"\\u0041"], char_companions(0x41)))
    # big decimals
    gs.append(("bigdec", [b"1.5M", b"+1.5M"], [b"1.4M", b"+1.6M", b"1.25M", b"15.5M", b"0.5M", b"+2.5M", b"-1.5M", b"11.5M", b"+1.75M", b"3.5M", b"4.5M", b"+5.5M", b"6.5M", b"7.5M", b"+8.5M"]))
    if exp:
        gs.append(("bigdec", [b"1_0.5M", b"10.5M"], [b"10.4M", b"+10.6M", b"1_0.25M", b"105.5M", b"0.5M", b"+1_1.5M", b"-10.5M", b"9.5M", b"+12.5M", b"13.5M", b"14.5M", b"+15.5M", b"16.5M", b"17.5M", b"+18.5M"]))
    if clj:
        rc = [b"1/3", b"4/6", b"3/4", b"2/5", b"6/10", b"1/4", b"5/8", b"4/7", b"3/7", b"+5/9", b"4/9", b"5/11", b"6/11", b"-1/3", b"-3/4", b"7/12"]
        gs.append(("ratio", [b"1/2", b"2/4", b"+1/2", b"3/6"], rc))
        gs.append(("ratio", [b"-1/2", b"-2/4"], rc[:13] + [b"-1/5", b"-2/7"]))
    # composites whose own elements are spelled / ordered differently
    cc = [b"[1 3]", b"(2 1)", b"[1]", b"(1 2 3)", b"[[1 2]]", b"{:a 1}", b"{:a 1 :b 3}", b"{:a 2 :b 1}", b"#{1 2}", b"#{1 2 4}", b"#{[1 2]}", b"#t [2]", b"#u [1]", b"#t 1",
          b"[\"a\\tc\"]", b"(1.0 \"a\")", b"{1 2}", b"[2 2]"]
    gs.append(("composite", [b"[1 2]", b"(1 2)"], cc))
    gs.append(("composite", [b"{:a 1 :b 2}", b"{:b 2, :a 1}"], cc))
    gs.append(("composite", [b"#{1 2 3}", b"#{3 1 2}", b"#{2 3 1}"], cc))
    gs.append(("composite", [b"#t [1]", b"#t (1)"], cc))
    gs.append(("composite", [b"[1.0 \"a\\tb\"]", b"(1e0 \"a\tb\")", b"[1.00 \"a\tb\"]"], cc))
    gs.append(("composite", [b"[]", b"()"], cc))
    gs.append(("composite", [b"[[[1]]]", b"[([1])]", b"(([1]))"], cc))
    gs.append(("composite", [b"{[1] #{2}}", b"{(1) #{2}}"], cc))
    if clj:
        gs.append(("composite", [b"^:m [1 2]", b"[1 2]", b"^{:k 1} (1 2)"], cc))
        gs.append(("composite", [b"#:n{:a 1}", b"{:n/a 1}", b"#:n{:n/a 1}"], cc))
    return gs


def typed_filler(ty, i):
    k = i // 2
    if i % 2 == 1:   # every second filler is a scalar of another type
        return [b":kw%d" % k, b"sy%d" % k, b"%d" % (3000000 + k)][k % 3]
    if ty == "str":
        return (b"\"s%04d\\t\"" % k) if k % 4 == 0 else (b"\"s%04d\"" % k)
    if ty == "int":
        return b"%d" % (7000000 + k)
    if ty == "bigint":
        return b"%d" % (7 * 10 ** 30 + k)
    if ty == "float":
        return b"%d.5" % (1000 + k)
    if ty == "char":
        return b"\\u%04X" % (0x400 + k)
    if ty == "bigdec":
        return b"%d.5M" % (1000 + k)
    if ty == "ratio":
        return b"%d/1000003" % (2 + k)
    return b"[%d]" % (7000 + k)


WRAPS = [b"[%s]", b"#t %s", b"{:k %s}", b"#{%s}", b"{%s 1}", b"(%s)", b"[0 %s]", b"[[%s]]", b"#a #b %s"]
ODD_ONES = [b"[:odd :one]", b"#odd 1", b"{}", b"#{}", b"(:odd)", b"9.75M", b"[[]]", b"{[] ()}"]


def spelling_pairs(group):
    ty, sp, comp = group
    ps = [(sp[i], sp[i + 1]) for i in range(len(sp) - 1)]
    if len(sp) > 2:
        ps.append((sp[-1], sp[0]))
    return ps


def spelling_docs(rng, cfg, tier, add):
    """add(doc, what, kind, n, a, b, family)"""
    groups = spelling_groups(cfg)
    small = [3, 16, 17, 18, 40] if tier == "quick" else [2, 3, 8, 16, 17, 18, 19, 33, 40, 64]
    large = [1000, 1001, 1002] if tier == "quick" else [100, 999, 1000, 1001, 1002, 1600]
    seen_type = set()
    pi = 0
    for g in groups:
        ty, sp, comp = g
        first_of_type = ty not in seen_type
        seen_type.add(ty)
        for gi, (a, b) in enumerate(spelling_pairs(g)):
            pi += 1
            if rng.random() < 0.5:
                a, b = b, a
            sizes = list(small)
            if first_of_type and gi == 0:
                sizes += large
            else:
                sizes += [1001] if tier == "quick" else [999, 1000, 1001, 1002]
            for n in sizes:
                others = list(comp)
                if len(others) > n - 2:
                    # keep the closest companions (front of the list) and a few random others
                    head = others[:max(0, (n - 2) // 2)]
                    rest = others[len(head):]
                    others = head + rng.sample(rest, n - 2 - len(head))
                k = 0
                while len(others) < n - 2:
                    others.append(typed_filler(ty, k))
                    k += 1
                for cls in ("same", "mixed", "wrapped"):
                    oth = list(others)
                    aa, bb = a, b
                    if cls == "mixed" and oth:
                        oth[(pi + n) % len(oth)] = ODD_ONES[(pi + n) % len(ODD_ONES)]
                    if cls == "wrapped":
                        w = WRAPS[(pi + n) % len(WRAPS)]
                        oth = [w % x for x in oth]
                        aa, bb = w % a, w % b
                    for kind in ("set", "map"):
                        layouts = ("apart", "shuffled") if (n < 100 and (kind == "set" or tier == "thorough")) else ("shuffled",)
                        for lay in layouts:
                            el = [aa] + oth + [bb]
                            if lay == "shuffled":
                                rng.shuffle(el)
                            add(build(kind, el), "dup", kind, n, aa, bb, "two-spellings/%s/%s" % (ty, cls))
                        if kind == "map" and cfg in ("clj", "both") and (n in (3, 17, 40) or (n > 1000 and cls == "same")):
                            # the same keys in a namespaced map: qualification touches the keyword fillers only
                            el = [aa] + oth + [bb]
                            rng.shuffle(el)
                            add(b"#:ns" + build(kind, el), "dup", kind, n, aa, bb, "two-spellings/%s/%s" % (ty, cls))
                        if n < 100 or (cls == "same" and (kind == "set" or tier == "thorough")):
                            # the same companions around ONE of the two spellings: pairwise unequal, never rejected
                            el = [aa if (pi + n) % 2 else bb] + oth
                            rng.shuffle(el)
                            add(build(kind, el), "nodup", kind, n - 1, aa, b"(companions only)", "two-spellings/%s/%s" % (ty, cls))


# ---------------------------------------------------------------------------------------------------------------------
# The literal is not the whole document: a set / map literal with an equal pair is malformed wherever it is written -
# under a discard marker (directly, nested, chained), under a tag, as metadata or annotated by metadata, as a key or a
# value, inside a namespaced map, under every reader option.  Its well-formed counterpart is accepted there.
# ---------------------------------------------------------------------------------------------------------------------
def context_templates(cfg):
    """(name, template with %s, reader options it is read under, usable for the well-formed counterpart)"""
    clj = cfg in ("clj", "both")
    opts_all = [0, 1, 2, 4, 8, 16]
    t = [
        ("discard/top", b"#_%s :kept", opts_all, True),
        ("discard/top-nospace", b"#_ %s,:kept", [0], True),
        ("discard/in-vector", b"[#_%s :kept]", opts_all, True),
        ("discard/in-vector-last", b"[:kept #_%s]", [0, 8], True),
        ("discard/in-list", b"(1 #_ %s)", [0], True),
        ("discard/in-set", b"#{1 #_%s 2}", [0, 16], True),
        ("discard/in-map-value-position", b"{:k #_%s :v}", [0, 1], True),
        ("discard/in-map-key-position", b"{#_%s :k :v}", [0], True),
        ("discard/nested-vector", b"[#_[x %s] :kept]", opts_all, True),
        ("discard/nested-map-value", b"[#_{:k %s} :kept]", [0, 8], True),
        ("discard/nested-map-key", b"[#_{%s 1} :kept]", [0], True),
        ("discard/nested-set", b"[#_#{%s} y]", [0], True),
        ("discard/nested-deep", b"[#_(1 (2 [3 {4 %s}])) y]", [0, 2], True),
        ("discard/chain-second", b"[#_ #_ :x %s :kept]", opts_all, True),
        ("discard/chain-first", b"[#_ #_ %s :x :kept]", [0, 8], True),
        ("discard/chain-three", b"[#_ #_ #_ 1 2 %s :kept]", [0], True),
        ("discard/chain-nested", b"[#_ #_ [%s] :x :kept]", [0], True),
        ("discard/chain-top", b"#_ #_ %s 1 2", [0, 1], True),
        ("discard/inside-discard", b"[#_ [#_ %s 1] 2]", [0, 4], True),
        ("discard/comment-between", b"[#_ ;c\n %s :kept]", [0], True),
        ("discard/tagged", b"[#_ #t %s 1]", [0, 8], True),
        ("discard/tagged-nested", b"#_ #t [%s] 1", [0], True),
        ("discard/registered-tag", b"[#_ #id %s 1]", [8], True),
        ("discard/failing-tag", b"[#_ #fail %s 1]", [8], False),
        ("after-a-discard", b"[#_#{1 2} %s]", [0, 8], True),
        ("after-a-discard/map", b"[#_{:a 1} #_ x %s]", [0], True),
        ("tag", b"#t %s", [0, 2, 16], True),
        ("tag/nested", b"#t [%s]", [0], True),
        ("tag/two", b"#a #b %s", [0], True),
        ("tag/registered", b"#id %s", [8], True),
        ("tag/registered-ext", b"[#ext %s]", [8], True),
        ("tag/registered-failing", b"#fail %s", [8], False),
        ("map-value", b"{:k %s}", opts_all, True),
        ("map-value/middle", b"{:a 1 :k %s :b 2}", [0], True),
        ("map-key", b"{%s :v}", [0, 8], True),
        ("in-vector", b"[%s]", [0, 1], True),
        ("in-list", b"(1 %s)", [0], True),
        ("in-set", b"#{%s 1}", [0, 4], True),
        ("in-set/deep", b"#{#{#{%s}}}", [0], True),
        ("in-vector/deep", b"[[[[%s]]]]", [0], True),
        ("in-vector/depth-60", b"[" * 60 + b"%s" + b"]" * 60, [0], True),
        ("in-mixed/depth-40", b"[{:k (#{#t " * 10 + b"%s" + b"})}]" * 10, [0], True),
        ("discard/depth-40", b"[{:k (#{#_ #t " * 10 + b"[%s]" + b" 1})}]" * 10, [0], True),
        ("map-value/deep", b"{:a {:b {:c %s}}}", [0, 8], True),
    ]
    if clj:
        t += [
            ("metadata/target", b"^:m %s", [0, 8], True),
            ("metadata/target-map-meta", b"^{:k 1} %s", [0], True),
            ("metadata/target-in-vector", b"[^:m %s]", [0, 1], True),
            ("metadata/in-value", b"^{:k %s} [1]", [0, 8], True),
            ("metadata/in-key", b"^{%s 1} [1]", [0], True),
            ("metadata/discarded-target", b"#_ ^:m %s 1", [0], True),
            ("metadata/discarded-in-value", b"[#_ ^{:k %s} x 2]", [0, 8], True),
            ("metadata/two", b"^:a ^{:b %s} [1]", [0], True),
            ("namespaced-map/value", b"#:n{:a %s}", [0, 8], True),
            ("namespaced-map/key", b"#:n{%s 1}", [0], True),
            ("namespaced-map/discarded-value", b"[#_#:n{:a %s} 1]", [0, 8], True),
            ("namespaced-map/discarded-inside", b"#:n{:a 1 #_ %s :b 2}", [0], True),
        ]
    return t


def context_payloads(rng, cfg, tier):
    """(literal, kind, n, is duplicate, size class)"""
    clj = cfg in ("clj", "both")
    ps = [
        (b"#{1 1}", "set", 2, True, 0), (b"#{[1] (1)}", "set", 2, True, 0), (b"#{0.0 -0.0}", "set", 2, True, 0), (b"#{\"a\\tb\" \"a\tb\"}", "set", 2, True, 0),
        (b"#{##NaN ##NaN}", "set", 2, True, 0), (b"#{:a b :a}", "set", 3, True, 0), (b"#{#t 1 #t 1}", "set", 2, True, 0),
        (b"{:a 1 :a 2}", "map", 2, True, 0), (b"{[1] 1 (1) 2}", "map", 2, True, 0), (b"{1.0 1 x 2 1e0 3}", "map", 3, True, 0), (b"{#{1 2} 1 #{2 1} 1}", "map", 2, True, 0),
        (b"#{1 2}", "set", 2, False, 0), (b"#{[1] (2)}", "set", 2, False, 0), (b"#{0.0 0}", "set", 2, False, 0), (b"#{:a a \"a\" \\a}", "set", 4, False, 0),
        (b"{:a 1 :b 1}", "map", 2, False, 0), (b"{[1] 1 #{1} 1}", "map", 2, False, 0),
    ]
    if clj:
        ps += [(b"#:n{:a 1 :n/a 2}", "map", 2, True, 0), (b"#:n{a 1 n/a 2}", "map", 2, True, 0), (b"#{[1] ^:m [1]}", "set", 2, True, 0),
               (b"#{1/2 2/4}", "set", 2, True, 0), (b"#:n{:a 1 :m/a 2 :_/a 3 a 4}", "map", 4, False, 0), (b"#{[1] ^:m [2]}", "set", 2, False, 0)]
    for n, cls in ((17, 1), (21, 1), (1001, 2)) if tier == "quick" else ((16, 0), (17, 1), (21, 1), (1000, 1), (1001, 2), (1200, 2)):
        ints = [b"%d" % i for i in range(n - 1)]
        comps = [[b"[%d]", b"(%d)", b"#{%d}", b"{%d 0}", b"#t %d", b"\"%d\"", b":k%d"][i % 7] % i for i in range(n - 1)]
        for base, twin in ((ints, (b"7", b"+7")), (comps, (b"[7]", b"(7)"))):
            if n > 1000 and base is comps and tier == "quick":
                continue
            for kind in ("set", "map"):
                el = list(base)
                el[7] = twin[0]
                d = el + [twin[1]]
                u = el + [b"-1"]
                rng.shuffle(d)
                rng.shuffle(u)
                ps.append((build(kind, d), kind, n, True, cls))
                ps.append((build(kind, u), kind, n, False, cls))
    return ps


def has_tag(x):
    return b"#" in x.replace(b"#_", b"").replace(b"#{", b"").replace(b"#:", b"").replace(b"##", b"")


def context_docs(rng, cfg, tier, add):
    temps = context_templates(cfg)
    pays = context_payloads(rng, cfg, tier)
    for (name, t, opts, wellformed_ok) in temps:
        for (p, kind, n, dup, cls) in pays:
            if not dup and not wellformed_ok:
                continue
            os_ = list(opts)
            if cls == 2:
                # literals above the last threshold are long: directly discarded, nested, chained, tagged, as a value - under the default options
                if name not in ("discard/in-vector", "discard/nested-vector", "discard/chain-second", "tag", "map-value", "metadata/in-value", "namespaced-map/value"):
                    continue
                os_ = os_[:1]
            elif cls == 1 or not dup:
                os_ = os_[:2]
            for o in os_:
                if (o & 4) and (has_tag(t) or has_tag(p)):
                    continue    # an unknown tag is an error by option, whatever it is applied to
                add(t.replace(b"%s", p), "dup" if dup else "nodup", kind, n, p[:40], name.encode(), "context/" + name.split("/")[0], o)


def map_value_docs(rng, cfg, tier, add):
    """Only keys count: equal values, values equal to keys and values holding duplicate-free copies of the keys make no duplicate."""
    for n in (2, 3, 16, 17, 18, 100, 1001):
        keys = [[b"%d", b"[%d]", b":k%d", b"\"%d\"", b"(%d 0)", b"%d.5"][i % 6] % i for i in range(n)]
        for name, vals in (("all values equal", [b"\"v\\t\""] * n), ("values are the keys, rotated", keys[1:] + keys[:1]), ("every value equals its key", keys),
                           ("values in two spellings", [(b"1.0" if i % 2 else b"1e0") for i in range(n)])):
            flat = []
            for k_, v_ in zip(keys, vals):
                flat += [k_, v_]
            add(b"{" + b" ".join(flat) + b"}", "nodup", "map", n, name.encode(), b"", "map-values", 0)
            if cfg in ("clj", "both") and n <= 100:
                add(b"#:q{" + b" ".join(flat) + b"}", "nodup", "map", n, name.encode(), b"", "map-values", 0)


def discarded_element_docs(rng, cfg, tier, add):
    """A discarded form between the elements is no element: repeating an element under #_ makes no duplicate, and an
    equal pair stays one with discarded forms between and around its members."""
    for n in (2, 3, 16, 17, 18, 100, 1001):
        base = [[b"%d", b"[%d]", b":k%d", b"\"%d\"", b"(%d 0)"][i % 5] % i for i in range(n)]
        for kind in ("set", "map"):
            def lit(items):
                if kind == "set":
                    return b"#{" + b" ".join(items) + b"}"
                out = []
                for i, e in enumerate(items):
                    out.append(e if e.startswith(b"#_") else e + b" %d" % i)
                return b"{" + b" ".join(out) + b"}"
            # every element once more, discarded
            every = []
            for e in base:
                every += [e, b"#_" + e]
            add(lit(every), "nodup", kind, n, b"#_ copy of every element", b"", "discarded-elements", 0)
            one = list(base)
            one.insert(rng.randrange(1, n + 1), b"#_ " + base[0])
            one.append(b"#_ #_ " + base[-1] + b" " + base[0])
            add(lit(one), "nodup", kind, n, b"#_ copies of the first and last element", b"", "discarded-elements", 0)
            for (a, b) in ((b"1.0", b"1e0"), (b"[x]", b"(x)")):
                d = list(base)
                d.insert(rng.randrange(0, n + 1), a)
                j = rng.randrange(0, len(d) + 1)
                d.insert(j, b)
                d.insert(j, b"#_ " + b)
                d.insert(rng.randrange(0, len(d) + 1), b"#_ #_ q " + a)
                add(lit(d), "dup", kind, n + 2, a, b, "discarded-elements", 0)


def run(tier):
    rep = C.Report(PID, tier, "proof")
    rng = C.rng(PID)
    lean = U.lean_part(rep, PID)
    found = False
    counts_small = [2, 3, 8, 15, 16, 17, 18, 33]
    counts_big = [100, 999, 1000, 1001, 1002] + ([1600] if tier == "thorough" else [])
    for cfg in (["core", "both"] if tier == "quick" else ["core", "clj", "exp", "both"]):
        docs, expect = [], []
        twins = twin_kinds(cfg)
        nears = near_kinds(cfg)
        for kind in ("set", "map"):
            for n in counts_small + counts_big:
                big = n >= 100
                tw = twins if not big else rng.sample(twins, 6 if tier == "quick" else 14)
                for (a, b) in tw:
                    positions = [(0, n - 1), (0, 1), (n - 2, n - 1), (n // 2 - 1, n // 2)] if n > 3 else [(0, n - 1)]
                    if big:
                        positions = positions[:2] if tier == "quick" else positions
                    for (i, j) in positions:
                        if i == j:
                            continue
                        el = fillers(n - 2)
                        if rng.random() < 0.5:
                            rng.shuffle(el)
                        lo, hi = min(i, j), max(i, j)
                        el.insert(lo, a)
                        el.insert(hi, b)
                        docs.append(build(kind, el))
                        expect.append(("dup", kind, n, a, b))
                nr = nears if not big else rng.sample(nears, 3)
                for (a, b) in nr:
                    el = fillers(n - 2)
                    el.insert(0, a)
                    el.append(b)
                    d = build(kind, el)
                    docs.append(d)
                    expect.append(("nodup", kind, n, a, b))
                    # permutation: same verdict
                    el2 = list(el)
                    rng.shuffle(el2)
                    docs.append(build(kind, el2))
                    expect.append(("nodup", kind, n, a, b))
        # distinct values with EQUAL hashes (namespace and name bytes are hashed without a separator) between the two
        # members of an equal pair: a strategy that only compares neighbours inside a run of equal hashes misses these
        colliders = [[b":a/bc", b":abc", b":ab/c"], [b"a/bc", b"abc", b"ab/c"], [b"[a/bc]", b"[abc]", b"(ab/c)"], [b"#t :a/bc", b"#t :abc", b"#t :ab/c"]]
        for kind in ("set", "map"):
            for n in [3, 4, 16, 17, 18, 100, 1000, 1001]:
                for grp in colliders:
                    x, y, z = grp
                    for seq, dup in (([x, y, x], True), ([y, x, z, y], True), ([x, y, z, x], True), ([x, y, z], False), ([z, y, x], False)):
                        if n < len(seq):
                            continue
                        for where in ("front", "back", "spread"):
                            fl = fillers(n - len(seq))
                            if where == "front":
                                el = seq + fl
                            elif where == "back":
                                el = fl + seq
                            else:
                                el = list(fl)
                                step = max(1, len(el) // len(seq))
                                for qi, q in enumerate(seq):
                                    el.insert(min(len(el), qi * step + qi), q)
                            docs.append(build(kind, el))
                            expect.append(("dup" if dup else "nodup", kind, n, seq[0], seq[-1]))
        # namespaced maps: keys are compared after qualification; a symbol and a keyword of one name stay different
        if cfg in ("clj", "both"):
            for n in (0, 14, 15, 16, 100, 1000):
                pad = b" ".join(b":p%d %d" % (i, i) for i in range(n))
                for body, dup in ((b"id 1 :id 2", False), (b"id 1 db/id 2", True), (b":id 1 :db/id 2", True), (b":_/id 1 :id 2", False), (b":_/id 1 :_/id 2", True),
                                  (b"_/id 1 id 2", False), (b"_/id 1 _/id 2", True), (b":id 1 :other/id 2", False), (b"id 1 :db/id 2 db/id 3", True),
                                  (b":_x/id 1 :_y/id 2", False), (b":_x/id 1 :id 2", False), (b"\"id\" 1 :id 2 id 3", False)):
                    docs.append(b"#:db{" + body + b" " + pad + b"}")
                    expect.append(("dup" if dup else "nodup", "map", n + 2, body, b"#:db"))
                    docs.append(b"#:db{" + pad + b" " + body + b"}")
                    expect.append(("dup" if dup else "nodup", "map", n + 2, body, b"#:db"))
        # mixed-kind pairwise-unequal literals of generated values
        for _ in range(40 if tier == "quick" else 300):
            n = rng.choice([5, 17, 40, 120])
            vals, seen = [], set()
            while len(vals) < n:
                v = G.gen_value(rng, cfg, depth=rng.choice([0, 1, 2]), width=3)
                c = G.canon(v)
                if c not in seen:
                    seen.add(c)
                    vals.append(v)
            el = [G.render(rng, v, cfg, rich=False) for v in vals]
            docs.append(build("set", el))
            expect.append(("nodup", "set", n, b"", b""))
            dup = list(el)
            dup.insert(rng.randrange(len(dup)), G.render(rng, rng.choice(vals), cfg, rich=False))
            docs.append(build("set", dup))
            expect.append(("dup", "set", n + 1, b"", b""))

        # one value in two spellings among companions that sort between them; literals that are not the whole document
        opts = {}
        oracle_only = set()    # of the new families' literals around and above the last threshold one in 16 (thorough: 4) is also read by the model (slow there), all by the library
        nbig = [0]

        def add(doc, what, kind, n, a, b, fam, opt=0):
            if opt:
                opts[len(docs)] = opt
            if n >= 999:
                nbig[0] += 1
                if nbig[0] % (16 if tier == "quick" else 4) != 1:
                    oracle_only.add(len(docs))
                    rep.count("oracle-only/" + cfg)
            docs.append(doc)
            expect.append((what, kind, n, a, b, fam))
            rep.count("%s/%s/%s" % (fam.split("/")[0], cfg, what))
            if fam.startswith("two-spellings"):
                rep.count("two-spellings/by-type/" + fam.split("/")[1])
                rep.count("two-spellings/by-companions/" + fam.split("/")[2])
                rep.count("two-spellings/by-size/" + ("<=16" if n <= 16 else ("17..1000" if n <= 1000 else ">1000")))
            elif fam.startswith("context"):
                rep.count("context/by-place/" + b.decode())
                rep.count("context/by-option/%d" % opt)

        spelling_docs(rng, cfg, tier, add)
        context_docs(rng, cfg, tier, add)
        discarded_element_docs(rng, cfg, tier, add)
        map_value_docs(rng, cfg, tier, add)

        lines = ["R %d %s" % (opts.get(i, 0), C.hexs(d)) for i, d in enumerate(docs)]
        impl, crashes = K.run_impl(cfg, lines)
        midx = [i for i in range(len(lines)) if i not in oracle_only]
        mouts, mcr = K.run_model(cfg, [lines[i] for i in midx])
        model = [None] * len(lines)
        for i, o in zip(midx, mouts):
            model[i] = o
        project = lambda s: s.split(" ")[0:2] if s else s
        diffs = [i for i in midx if impl[i] is not None and project(impl[i]) != project(model[i])]
        rep.count("literals/" + cfg, len(docs))
        for idx, rc, err in crashes:
            found = True
            rep.finding("crash", "reader crashed on a set/map literal", {"kind": "read", "config": cfg, "input_hex": C.hexs(docs[idx]), "stderr": err[:3000]})
        for i in diffs[:5]:
            rep.broken_obligation("correspondence/read", "model %r vs code %r on %s" % ((model[i] or "")[:120], (impl[i] or "")[:120], docs[i][:200]), False)
        for i, (out, ex) in enumerate(zip(impl, expect)):
            if out is None:
                continue
            what, kind, n, a, b = ex[:5]
            fam = ex[5] if len(ex) > 5 else None
            suffix = ("/" + fam.split("/")[0]) if fam else ""
            where = (" (%s)" % fam) if fam else ""
            code = "DUPLICATE_ELEMENT" if kind == "set" else "DUPLICATE_KEY"
            is_dup = out.startswith("err " + code)
            if what == "dup" and not is_dup:
                found = True
                rep.finding("missed/%s/%d%s" % (kind, 0 if n <= 16 else (1 if n <= 1000 else 2), suffix),
                            "a %s literal of %d elements containing the equal pair %r / %r was not rejected as duplicate%s: %s" % (kind, n, a, b, where, out[:80]),
                            {"kind": "read", "config": cfg, "opt": opts.get(i, 0), "input_hex": C.hexs(docs[i]), "expected": "err " + code, "observed": out[:300]})
            if what == "nodup" and not out.startswith("ok "):
                found = True
                rep.finding("spurious/%s%s" % (kind, suffix), "a %s literal of %d pairwise unequal elements (%r / %r) was rejected%s: %s" % (kind, n, a, b, where, out[:80]),
                            {"kind": "read", "config": cfg, "opt": opts.get(i, 0), "input_hex": C.hexs(docs[i]), "expected": "ok", "observed": out[:300]})
        rep.note_cases(len(docs), set(C.sha(d)[:16] for d in docs), sample={"doc": docs[5][:200].decode("latin-1"), "result": (impl[5] or "")[:120]})
    U.finish_proof(rep, lean, found)


def replay(path):
    r = json.load(open(path))
    print(json.dumps(r, indent=1)[:2000])
    exe = C.harness("unity", r["config"], "san")
    doc = bytes.fromhex(r["input_hex"])
    out = C.run_lines(exe, K.read_lines([doc], r.get("opt", 0)))
    print("now:", (out.outputs or [""])[0][:300], "| expected:", r.get("expected"))
    return 0 if out.outputs and out.outputs[0].startswith(r.get("expected", "")) else 1
