"""C03 - well-formed EDN is accepted and read with full structural fidelity.

Lean: Edn.Properties.C03 (token- and structure-level completeness lemmas proved so far).
Correspondence: generated values x renderings, grammar derivations and the 256-byte context
sweep through the real reader and the model.  Oracle: the generator knows the value it
rendered, so the expected canonical dump (through public accessors only) is known by
construction; every document sampled from the project's published grammars (re-read from
docs/grammar on every run) must be accepted."""
import json

from .. import common as C
from .. import corr as K
from .. import ebnf
from .. import gen as G
from . import util as U

PID = "C03"


def run(tier):
    rep = C.Report(PID, tier, "proof")
    rng = C.rng(PID)
    lean = U.lean_part(rep, PID)
    found = False
    nvals = 2500 if tier == "quick" else 40000
    for cfg in ("core", "clj", "exp", "both"):
        # ---- values x renderings
        vals = [G.gen_value(rng, cfg, depth=rng.choice([2, 3, 4, 5, 8]) if rng.random() < 0.9 else 8, width=rng.choice([3, 5])) for _ in range(nvals)]
        docs = [G.render_doc(rng, v, cfg, rich=rng.random() < 0.7) for v in vals]
        # every scalar kind as the leaf of the deepest permitted nesting (and one level less), inside each collection kind
        limit = 100
        leaves = [("symf", "NaN"), ("symf", "Inf"), ("symf", "-Inf"), ("float", "1.5"), ("int", 7), ("str", b"s\n"), ("char", 0x61), ("kw", "n", "k"), ("sym", None, "s"),
                  ("nil",), ("bool", True), ("bigint", False, "99999999999999999999"), ("bigdec", False, "1.5")]
        for leaf in leaves:
            for depth in (limit, limit - 1):
                for kind in ("vec", "list", "mixed"):
                    v = leaf
                    for lvl in range(depth):
                        k2 = kind if kind != "mixed" else ("vec", "list", "set", "map")[lvl % 4]
                        v = ("map", [(("kw", None, "k"), v)]) if k2 == "map" else (k2, [v])
                    vals.append(v)
                    docs.append(G.render_doc(rng, v, cfg, rich=False))
        # identifiers, keywords and strings made of long runs of non-ASCII bytes, after runs of blanks of every length
        # (whole 16-byte blocks of blanks and bytes >= 0x80)
        words = ["中国人民日报", "αβγδεζηθικλμ", "日本語のテキスト", "ééééééééé", "𝔘𝔫𝔦𝔠𝔬𝔡𝔢", "ÿ" * 17, "\u00a0\u00a0x"]
        for w in words:
            for nsp in (0, 1, 3, 4, 5, 15, 16, 17, 33):
                for v in (("sym", None, w), ("kw", None, w), ("kw", w, "k"), ("str", w.encode())):
                    for wrap in ("vec2", "map"):
                        vv = ("vec", [v, ("int", 1)]) if wrap == "vec2" else ("map", [(("kw", None, "title"), v)])
                        vals.append(vv)
                        body = G.render(rng, v, cfg, rich=False)
                        docs.append((b"[" + b" " * nsp + body + b" 1]") if wrap == "vec2" else (b"{:title" + b" " * (nsp + 1) + body + b"}"))
        # experimental flag: text blocks of 1..40 and more source lines (the reader keeps line records in a buffer that grows at 16, 32, ...)
        if cfg in ("exp", "both"):
            for nl in list(range(1, 41)) + [63, 64, 65, 100, 129, 300]:
                for ind in (0, 2):
                    body = b"".join(b" " * ind + (b"line %03d of the block" % i) + b"\n" for i in range(nl))
                    text = b"".join((b"line %03d of the block" % i) + b"\n" for i in range(nl))
                    for closer, txt in ((b" " * ind + b'"""', text), (None, text[:-1])):
                        src = b'"""\n' + (body if closer is not None else body[:-1]) + (closer if closer is not None else b'"""')
                        vals.append(("vec", [("int", 1), ("str", txt), ("kw", None, "after")]))
                        docs.append(b"[1 " + src + b" :after]")
        # Clojure flag: a namespaced map denotes its explicit expansion (only the namespace `_` is the opt-out marker)
        if cfg in ("clj", "both"):
            # keys of every kind inside a namespaced map: only top-level keyword / symbol keys are qualified, nothing inside a composite key
            for doc, val in ((b"#:a{[:x y] 1}", ("map", [(("vec", [("kw", None, "x"), ("sym", None, "y")]), ("int", 1))])),
                             (b"{:m #:cfg{:id 7, #{:_/t} true}}", ("map", [(("kw", None, "m"), ("map", [(("kw", "cfg", "id"), ("int", 7)), (("set", [("kw", "_", "t")]), ("bool", True))]))])),
                             (b"#:a{(b :c) 1 d {:e f}}", ("map", [(("list", [("sym", None, "b"), ("kw", None, "c")]), ("int", 1)), (("sym", "a", "d"), ("map", [(("kw", None, "e"), ("sym", None, "f"))]))])),
                             (b"#:a{#:b{:y 1} 2}", ("map", [(("map", [(("kw", "b", "y"), ("int", 1))]), ("int", 2))])),
                             (b"#:a{#t :k 1}", ("map", [(("tagged", "t", ("kw", None, "k")), ("int", 1))]))):
                vals.append(val)
                docs.append(doc)
            for pfx in ("user", "a.b", "_p"):
                ents = [((":name", ("kw", pfx, "name"))), (":_internal/id", ("kw", "_internal", "id")), ("_impl/state", ("sym", "_impl", "state")),
                        (":_/plain", ("kw", None, "plain")), ("_/bare", ("sym", None, "bare")), ("sym", ("sym", pfx, "sym")), (":o/k", ("kw", "o", "k")),
                        (":__/u", ("kw", "__", "u")), ("\"s\"", ("str", b"s")), ("7", ("int", 7))]
                for cnt in (1, 4, len(ents)):
                    sub = rng.sample(ents, cnt)
                    vals.append(("map", [(kv, ("int", i)) for i, (_, kv) in enumerate(sub)]))
                    docs.append(("#:%s{%s}" % (pfx, " ".join("%s %d" % (kt, i) for i, (kt, _) in enumerate(sub)))).encode())
        # the list-based model computes positions by walking the remaining input (quadratic in the document size)
        cap = 25000 if tier == "quick" else 60000
        keep = [i for i, d in enumerate(docs) if len(d) <= cap]
        vals = [vals[i] for i in keep]
        docs = [docs[i] for i in keep]
        lines = K.read_lines(docs)
        impl, model, diffs, crashes, mcr = K.correspond(cfg, lines)
        rep.count("renderings/" + cfg, len(docs))
        kinds = {}
        for v in vals[:2000]:
            kinds[v[0]] = kinds.get(v[0], 0) + 1
        rep.coverage.setdefault("value_kinds", {})[cfg] = kinds
        for idx, rc, err in crashes:
            found = True
            rep.finding("crash", "reading a well-formed document crashed", {"kind": "read", "config": cfg, "input_hex": C.hexs(docs[idx]), "stderr": err[:3000]})
        for i in diffs[:5]:
            rep.broken_obligation("correspondence/read", "model %r vs code %r on %r" % ((model[i] or "")[:200], (impl[i] or "")[:200], docs[i][:200]), False,
                                  extra={"config": cfg, "input_hex": C.hexs(docs[i]), "model": model[i], "code": impl[i]})
        if U.grammar_verdicts(rep, cfg, docs, impl, model, diffs, ("well-formed-rejected", "read-differently")):
            found = True
        for i, a in enumerate(impl):
            if a is None:
                continue
            e = "ok " + G.expected_dump(vals[i], cfg)
            got = K.strip_ranges(a)
            if got != e:
                found = True
                k = 0
                while k < min(len(got), len(e)) and got[k] == e[k]:
                    k += 1
                rep.finding("fidelity/" + ("rejected" if a.startswith("err") else "value"),
                            "a well-formed rendering was %s: ...%s  expected ...%s" % ("rejected" if a.startswith("err") else "read differently", got[max(0, k - 40):k + 60], e[max(0, k - 40):k + 60]),
                            {"kind": "read", "config": cfg, "input_hex": C.hexs(docs[i]), "expected": e[:2000], "observed": got[:2000]})
        rep.note_cases(len(docs), set(C.sha(d)[:16] for d in docs), sample={"doc": docs[1][:200].decode("latin-1"), "expected": G.expected_dump(vals[1], cfg)[:200]})

        # ---- documents read with a handler registry: identity handlers leave the content unchanged, however many tags there are
        rvals, rdocs = [], []
        for n in (1, 50, 99, 100, 101, 300):
            for tag in (b"id", b"my/id", b"inst"):
                rvals.append(("vec", [("int", i) for i in range(n)]))
                rdocs.append(b"[" + b" ".join(b"#" + tag + b" %d" % i for i in range(n)) + b"]")
        rimpl, rmodel, rdiffs, rcr, _ = K.correspond(cfg, K.read_lines(rdocs, 8))
        rep.count("registry-renderings/" + cfg, len(rdocs))
        for i in rdiffs[:3]:
            rep.broken_obligation("correspondence/registry-read", "model %r vs code %r" % ((rmodel[i] or "")[:160], (rimpl[i] or "")[:160]), False)
        for i, a in enumerate(rimpl):
            if a is None:
                continue
            e = "ok " + G.expected_dump(rvals[i], cfg)
            got = K.strip_ranges(a.split(" calls=[")[0])
            if got != e:
                found = True
                rep.finding("fidelity/registry", "a document of %d identity-handled tags was %s" % (len(rvals[i][1]), "rejected: " + a[:80] if a.startswith("err") else "read differently"),
                            {"kind": "read", "config": cfg, "opt": 8, "input_hex": C.hexs(rdocs[i]), "expected": e[:600], "observed": got[:600]})

        # ---- the same for tags nobody handles: kept as tagged values without a registry (option 0) and with one (8),
        # replaced by their operand when the caller asks for unknown tags to be unwrapped (10) - by the hundred, too
        for opt in (0, 8, 10):
            uvals, udocs = [], []
            for n in (1, 50, 99, 100, 101, 120, 300):
                for tag in ("unit/m", "foo", "a.b/c-d"):
                    ints = [("int", i) for i in range(n)]
                    uvals.append(("vec", ints if opt == 10 else [("tagged", tag, x) for x in ints]))
                    udocs.append(b"[" + b" ".join(b"#" + tag.encode() + b" %d" % i for i in range(n)) + b"]")
                    uvals.append(("vec", [("vec", ints if opt == 10 else [("tagged", tag, x) for x in ints]), ("int", 5)]))
                    udocs.append(b"[[" + b" ".join(b"#" + tag.encode() + b" %d" % i for i in range(n)) + b"] 5]")
            uimpl, umodel, udiffs, ucr, _ = K.correspond(cfg, K.read_lines(udocs, opt))
            rep.count("unhandled-tag-renderings/%s/opt%d" % (cfg, opt), len(udocs))
            for i in udiffs[:3]:
                rep.broken_obligation("correspondence/registry-read", "model %r vs code %r" % ((umodel[i] or "")[:160], (uimpl[i] or "")[:160]), False)
            for i, a in enumerate(uimpl):
                if a is None:
                    continue
                e = "ok " + G.expected_dump(uvals[i], cfg)
                got = K.strip_ranges(a.split(" calls=[")[0])
                if got != e:
                    found = True
                    rep.finding("fidelity/unhandled-tags", "a flat document of unhandled tags (reader options %d) was %s" % (opt, "rejected: " + a[:80] if a.startswith("err") else "read differently"),
                                {"kind": "read", "config": cfg, "opt": opt, "input_hex": C.hexs(udocs[i]), "expected": e[:600], "observed": got[:600]})

        # ---- grammar derivations
        grammars = [("edn_grammar.ebnf", cfg)]
        if cfg in ("clj", "both"):
            grammars.append(("clojure.edn_grammar.ebnf", cfg))
        for which, c in grammars:
            if which == "edn_grammar.ebnf" and cfg != "core" and tier == "quick" and cfg != "both":
                continue
            rules, order = ebnf.load(which)
            S = ebnf.Sampler(rules, rng, cfg)
            n = 1500 if tier == "quick" else 20000
            gdocs, feats = [], []
            for _ in range(n):
                d, f = S.document(rng.choice([1, 2, 3, 4]))
                if cfg in ("exp", "both") and b'"""\n' in d:
                    continue  # spells a text-block opener: extension syntax
                if cfg in ("clj", "both") and which == "edn_grammar.ebnf" and (b"^" in d or b"#:" in d or b"\\o" in d or b"\\f" in d or b"\\b" in d or b"\\\x0c" in d or b"\\\x08" in d):
                    continue  # core grammar text that the Clojure flag gives another meaning (C18)
                gdocs.append(d)
                feats.append(f)
            lines = K.read_lines(gdocs)
            impl, model, diffs, crashes, mcr = K.correspond(cfg, lines)
            rep.count("grammar/%s/%s" % (which, cfg), len(gdocs))
            for i in diffs[:5]:
                rep.broken_obligation("correspondence/grammar", "model %r vs code %r on %r" % ((model[i] or "")[:200], (impl[i] or "")[:200], gdocs[i][:200]), False)
            if U.grammar_verdicts(rep, cfg, gdocs, impl, model, diffs, ("well-formed-rejected", "read-differently")):
                found = True
            for i, a in enumerate(impl):
                if a is None or a.startswith("ok "):
                    continue
                if a.startswith("err DUPLICATE"):
                    continue  # the grammar does not express uniqueness of set elements / map keys
                f = feats[i]
                cls = "grammar/" + ("+".join(sorted(f)) if f else "unexplained")
                if f:
                    # attribute to each single known class
                    hit = False
                    for one in sorted(f):
                        if not rep.finding("grammar/" + one, "document derivable from %s is not accepted: %r -> %s" % (which, gdocs[i][:80], a[:60]),
                                           {"kind": "read", "config": cfg, "input_hex": C.hexs(gdocs[i]), "grammar": which, "features": sorted(f), "observed": a}):
                            hit = True
                            break
                    if hit:
                        continue
                    found = True
                else:
                    found = True
                    rep.finding(cls, "document derivable from %s is not accepted: %r -> %s" % (which, gdocs[i][:80], a[:60]),
                                {"kind": "read", "config": cfg, "input_hex": C.hexs(gdocs[i]), "grammar": which, "observed": a})
            rep.note_cases(len(gdocs), set(C.sha(d)[:16] for d in gdocs), sample={"grammar": which, "doc": gdocs[3][:120].decode("latin-1")})

        # ---- 256 byte values in every syntactic context (exhaustive): model = code
        bdocs = list(G.byte_context_docs())
        impl, model, diffs, crashes, mcr = K.correspond(cfg, K.read_lines(bdocs))
        rep.count("byte-contexts/" + cfg, len(bdocs))
        for idx, rc, err in crashes:
            found = True
            rep.finding("crash", "byte-context document crashed", {"kind": "read", "config": cfg, "input_hex": C.hexs(bdocs[idx]), "stderr": err[:3000]})
        for i in diffs[:5]:
            rep.broken_obligation("correspondence/byte-context", "model %r vs code %r on %r" % ((model[i] or "")[:200], (impl[i] or "")[:200], bdocs[i]), False)
        rep.note_cases(len(bdocs), set(C.sha(d)[:16] for d in bdocs))
    rep.coverage["exhaustive"] = False
    U.finish_proof(rep, lean, found)


def replay(path):
    r = json.load(open(path))
    print(json.dumps(r, indent=1)[:2500])
    exe = C.harness("unity", r["config"], "san")
    out = C.run_lines(exe, K.read_lines([bytes.fromhex(r["input_hex"])]))
    print("now:", (out.outputs or [""])[0][:500])
    return 0
