"""C05 - floating-point literals read as the correctly rounded IEEE-754 double.

Lean: Edn.Properties.C05 (power-of-ten table exact, rounding well defined, fast path
correctly rounded, clamp harmless).  Correspondence: bit patterns from
parse_double_from_buffer and from whole reads, real code vs model.  Oracle: Python's
float(literal), which is correctly rounded."""
import json
import math
import re
import struct

from .. import common as C
from .. import corr as K
from . import util as U

PID = "C05"


def bits(text):
    f = float(text)
    if f != f:
        return "7ff8000000000000"
    return struct.pack(">d", f).hex()


def literals(tier, rng):
    out = []
    # every (mantissa digit count, exponent) cell around the fast-path boundary
    for nd in range(1, 20):
        for e in range(-26, 27):
            for _ in range(2 if tier == "quick" else 8):
                m = rng.choice("123456789") + "".join(rng.choice("0123456789") for _ in range(nd - 1))
                out.append("%se%d" % (m, e))
                # with a decimal point somewhere
                p = rng.randint(0, nd)
                out.append("%s.%se%d" % (m[:p] or "0", m[p:], e))
    # exact halfway cases near 2^53 and in other binades
    for k in (53, 54, 60, 80, 100):
        base = 2 ** k
        ulp = 2 ** (k - 52)
        for j in range(1, 6):
            for delta in (-1, 0, 1):
                v = base + j * ulp + ulp // 2 * (1 if ulp > 1 else 0) + delta
                out.append(str(v))
                out.append(str(v) + ".0")
                out.append(str(v) + "e0")
    out += ["9007199254740993", "9007199254740993.0", "9007199254740992.5", "9007199254740993e0", "0.5e-323", "2.4703282292062327e-324",
            "2.4703282292062328e-324", "4.9e-324", "2.2250738585072011e-308", "2.2250738585072014e-308", "1.7976931348623157e308",
            "1.7976931348623158e308", "1.7976931348623159e308", "1.8e308", "1e309", "1e-400", "0e999999", "0.0e-999999", "1e22", "1e23", "1e-22", "1e-23",
            "0.3", "0.1", "0.7", "1e-5", "123456789012345e-15", "123456789012345678e-18", "5e-324", "3e-324", "2e-324", "-0.0", "-0e0", "+0.0",
            "1.", "1.e5", "0.e0", "100000000000000000000000.0", "8.5e15", "0.000001", "1e400", "-1e400", "1e-330"]
    # shortest round-trip renderings of random doubles
    for _ in range(3000 if tier == "quick" else 60000):
        u = rng.getrandbits(64)
        f = struct.unpack(">d", struct.pack(">Q", u))[0]
        if f != f or f in (float("inf"), float("-inf")):
            continue
        r = repr(f)
        if "e" not in r and "." not in r:
            r += ".0"
        out.append(r)
        if "e" in r:
            out.append(r.replace("e", "E"))
            out.append(r.replace("e+", "e"))
    # many significant characters
    for n in ([20, 100, 511, 512, 513, 700] + ([2000] if True else [])):
        for _ in range(3 if tier == "quick" else 20):
            digs = rng.choice("123456789") + "".join(rng.choice("0123456789") for _ in range(n - 1))
            p = rng.randint(1, n - 1)
            out.append(digs[:p] + "." + digs[p:])
            out.append(digs[:1] + "." + digs[1:] + "e%d" % rng.randint(-320, 300))
            out.append("0." + "0" * rng.randint(0, 30) + digs)
    # the same value with the decimal point far away and a cancelling written exponent: leading / trailing zero runs
    # around every saturation point of the exponent and digit accounting (15..19 digits, 308, 1000, 10000)
    for z in (1, 5, 14, 15, 16, 19, 20, 22, 23, 40, 300, 330, 998, 999, 1000, 1001, 1005, 2000, 9999, 10000, 10010):
        for digs in ("1", "25", "123", "999999999999999", "1234567890123456", "7"):
            for k in (-23, -22, -5, 0, 1, 5, 22, 23, 37):
                if tier == "quick" and (z > 2000 or (k not in (-22, 0, 1, 22) and z not in (15, 16, 999, 1000, 1001))):
                    continue
                out.append("0." + "0" * z + digs + "e%d" % (z + len(digs) + k))
                out.append(digs + "0" * z + "e-%d" % (z - k) if z - k >= 0 else digs + "0" * z + "e%d" % (k - z))
                out.append(digs + "0" * z + ".0e-%d" % (z - k) if z - k >= 0 else digs + "0" * z + ".0e%d" % (k - z))
    # uniformly random shapes
    for _ in range(2000 if tier == "quick" else 40000):
        ip = str(rng.randrange(10 ** rng.randint(1, 25)))
        fr = "".join(rng.choice("0123456789") for _ in range(rng.randint(0, 25)))
        ex = rng.choice(["", "e%d" % rng.randint(-350, 350), "E+%d" % rng.randint(0, 40), "e-%d" % rng.randint(0, 40)])
        s = rng.choice(["", "-", "+"]) + ip + ("." + fr if (fr or not ex) else "") + ex
        out.append(s)
    res = []
    seen = set()
    for s in out:
        if s not in seen and ("." in s or "e" in s or "E" in s):
            seen.add(s)
            res.append(s)
    return res


def dbl_bits(m, e, neg):
    """bit pattern of (-1)^neg * m * 2^e for a value that is a double (or of infinity when it is 2^1024)"""
    try:
        f = math.ldexp(m, e)
    except OverflowError:
        f = float("inf")
    return struct.pack(">d", -f if neg else f).hex()


def render(ds, q, layout, rng):
    """a float literal for int(ds) * 10^q (ds: significant digits, first one non-zero) in one of several spellings"""
    n = len(ds)
    es = lambda x: rng.choice(["e", "E"]) + ("+" if x >= 0 and rng.random() < 0.3 else "") + str(x)
    if layout == "plain":
        if q >= 0:
            return ds + "0" * q + rng.choice([".0", ".", ".000", "e0"])
        il = n + q
        return ds[:il] + "." + ds[il:] if il > 0 else "0." + "0" * (-il) + ds
    if layout == "sci":
        return ds[0] + "." + (ds[1:] or "0") + es(q + n - 1)
    if layout == "int-e":
        return ds + es(q)
    if layout == "shift":
        s = rng.randint(1, max(1, n - 1))
        return ds[:s] + "." + (ds[s:] or "0") + es(q + n - s)
    z = rng.randint(0, 25)  # "lead0"
    return "0." + "0" * z + ds + es(q + n + z)


LAYOUTS = ("plain", "sci", "int-e", "shift", "lead0")
MAXLEN = 2000  # the property's quantifier: literals of 1..2000 significant characters


def halfway_long(tier, rng):
    """Decimal expansions of exact half-way points (2m+1)*2^(e-1) between the adjacent doubles m*2^e and (m+1)*2^e -
    normal, subnormal, and the overflow threshold - written out exactly (up to 767 significant digits), then
      tie    the expansion itself, also padded with zeros up to T significant digits       -> the even neighbour
      above  padded with zeros and ONE non-zero digit as the T-th significant digit         -> the upper neighbour
      below  last digit decreased, then nines up to T significant digits                    -> the lower neighbour
    for T from just above the expansion's length up to literals of 2000 characters, in five spellings and both signs.
    Returns [(literal, expected bits by construction, kind)]."""
    pts = [(2 ** 52, 1), (2 ** 52 + 1, 1), (2 ** 52, -52), (2 ** 52 + 1, -52), (2 ** 53 - 1, -53), (2 ** 53 - 1, 0),
           (0, -1074), (1, -1074), (2, -1074), (2 ** 52 - 1, -1074), (2 ** 52, -1074), (2 ** 52 - 2, -1074),
           (2 ** 53 - 1, 971), (2 ** 53 - 2, 971), (2 ** 52, 971), (2 ** 52 + 12345, -1022 - 52)]
    nrand = 10 if tier == "quick" else 60
    for _ in range(nrand):
        kind = rng.choice(["normal", "normal", "tiny", "huge", "subnormal", "unit"])
        m = rng.randrange(2 ** 52, 2 ** 53)
        if kind == "normal":
            pts.append((m, rng.randint(-1074, 971)))
        elif kind == "tiny":
            pts.append((m, rng.randint(-1074, -1000)))
        elif kind == "huge":
            pts.append((m, rng.randint(900, 971)))
        elif kind == "unit":
            pts.append((m, rng.randint(-60, 10)))
        else:
            pts.append((rng.randrange(0, 2 ** rng.randint(1, 52)), -1074))
    out = []
    for pi, (m, e) in enumerate(pts):
        num, e2 = 2 * m + 1, e - 1
        if e2 >= 0:
            n10, q = num << e2, 0
        else:
            n10, q = num * 5 ** (-e2), e2
        ds = str(n10)
        strip = len(ds) - len(ds.rstrip("0"))
        if strip:
            ds, q = ds[:-strip], q + strip
        n0 = len(ds)
        lo, hi = (m, e), (m + 1, e)
        even = lo if m % 2 == 0 else hi
        below = ds[:-1] + str(int(ds[-1]) - 1)  # ds has no trailing zero, so this is the digit string of n10/10^strip - 1
        for lay_i in range(2):
            neg = rng.random() < 0.3
            lit = ("-" if neg else rng.choice(["", "", "+"])) + render(ds, q, "plain" if lay_i == 0 else LAYOUTS[1 + pi % 4], rng)
            if len(lit) <= MAXLEN:
                out.append((lit, dbl_bits(even[0], even[1], neg), "tie"))
        # total numbers of significant digits: just beyond the expansion, sizes around internal buffers, random ones, the maximum
        for lay in rng.sample(LAYOUTS, 2 if tier == "quick" else 5):
            overhead = len(render(ds, q, lay, rng)) - n0 + 32
            tmax = MAXLEN - overhead
            if tmax <= n0 + 1:
                continue
            ts = {n0 + 1, n0 + 2, tmax, tmax - rng.randint(1, 40)}
            ts |= set(t for t in (511, 512, 513, 767, 768, 769, 770, 800, 1023, 1024, 1025, 1100, 1536) if rng.random() < (0.35 if tier == "quick" else 1.0))
            ts |= set(rng.randint(n0 + 1, tmax) for _ in range(3 if tier == "quick" else 10))
            for t in sorted(x for x in ts if n0 < x <= tmax):
                neg = rng.random() < 0.3
                sg = "-" if neg else rng.choice(["", "", "+"])
                pad = t - n0
                cases = [(ds + "0" * pad, even, "tie-padded"),
                         (ds + "0" * (pad - 1) + rng.choice("123456789"), hi, "above"),
                         (below + "9" * (pad - 1) + rng.choice("0123456789"), lo, "below")]
                for digs, tgt, kind in cases:
                    if digs[0] == "0":
                        continue
                    lit = sg + render(digs, q - pad, lay, rng)
                    if len(lit) <= MAXLEN:
                        out.append((lit, dbl_bits(tgt[0], tgt[1], neg), kind))
    return out


def run(tier):
    rep = C.Report(PID, tier, "proof")
    rng = C.rng(PID)
    lean = U.lean_part(rep, PID)
    found = False
    lits = literals(tier, rng)
    # exact half-way points continued by long runs of zeros / nines: expectation by construction, cross-checked with float()
    hw = []
    for lit, wbits, kind in halfway_long(tier, C.rng(PID + "/halfway-long")):
        rep.count("halfway-long/" + kind)
        if bits(lit) != wbits:
            rep.count("halfway-long/oracles-disagree")  # construction vs Python's float(): never used as evidence against the library
            continue
        hw.append(lit)
    rep.coverage["halfway_long"] = {"literals": len(hw), "min_chars": min(map(len, hw)), "max_chars": max(map(len, hw)),
                                    "over_768_chars": sum(1 for s in hw if len(s) > 768)}
    seen = set(lits)
    hw = [s for s in hw if not (s in seen or seen.add(s))]
    nbase = len(lits)
    lits = lits + hw
    want = [bits(s) for s in lits]
    for cfg in ("core", "both"):
        # direct calls of the static converter
        lines = ["N dbl %s" % C.hexs(s.encode()) for s in lits]
        impl, model, diffs, crashes, mcr = K.correspond(cfg, lines)
        rep.count("converter-calls/" + cfg, len(lines))
        for idx, rc, err in crashes:
            found = True
            rep.finding("crash", "float conversion crashed / sanitizer report", {"kind": "line", "config": cfg, "line": lines[idx], "literal": lits[idx], "stderr": err[:3000]})
        for i, a in enumerate(impl):
            if a is not None and a != want[i]:
                found = True
                n = len(lits[i])
                rep.finding("rounding/%s" % ("long" if n >= 512 else "short"), "literal %s read as %s, correctly rounded value is %s" % (lits[i][:60], a, want[i]),
                            {"kind": "line", "config": cfg, "line": lines[i], "literal": lits[i], "expected": want[i], "observed": a})
        for i in diffs[:5]:
            rep.broken_obligation("correspondence/converter", "model %r vs code %r on %s" % (model[i], impl[i], lits[i][:80]), False)
        helper_missing = bool(impl) and all(a is None for a in impl) and not crashes
        # experimental flag: underscores between digits do not change the value (fraction and exponent included)
        if cfg in ("exp", "both"):
            udocs, uwant = [], []
            for sl in lits[:nbase:7] + hw[::23] + ["3.141592", "1000.0001", "0.50", "6.02214076e23", "123456.789012e-10", "1.0e100", "9007199254740993.0"]:
                m = re.match(r"^([+-]?)([0-9]+)(?:\.([0-9]*))?(?:([eE][+-]?)([0-9]+))?$", sl)
                if not m:
                    continue
                sg, ip, fr, ee, ex = m.groups()

                def us(d):
                    if d is None or len(d) < 2:
                        return d
                    k = rng.randrange(1, len(d))
                    return d[:k] + rng.choice(["_", "__"]) + d[k:]
                t = sg + us(ip) + ("." + us(fr) if fr is not None else "") + ((ee + us(ex)) if ee else "")
                if "_" in t and ("." in t or "e" in t.lower()):
                    udocs.append(t.encode())
                    uwant.append(bits(sl))
            ui, um, ud, ucr, _ = K.correspond(cfg, K.read_lines(udocs))
            rep.count("underscore-floats/" + cfg, len(udocs))
            for i in ud[:3]:
                rep.broken_obligation("correspondence/underscore-float", "model %r vs code %r on %r" % (um[i], ui[i], udocs[i]), False)
            for i, a in enumerate(ui):
                if a is None:
                    continue
                mm = re.match(r"^ok \(float \d+ \d+ ([0-9a-f]{16})\)$", a)
                if not mm or mm.group(1) != uwant[i]:
                    found = True
                    rep.finding("rounding/underscore", "literal %s read as %s, its value is %s" % (udocs[i].decode(), a[:80], uwant[i]),
                                {"kind": "read", "config": cfg, "input_hex": C.hexs(udocs[i]), "literal": udocs[i].decode(), "expected": uwant[i], "observed": a[:200]})
        # whole reads (sign handling, terminators) and equal-value spellings
        # (every literal when the converter could not be called directly because its signature changed; the long half-way
        # family always completely)
        every = tier == "thorough" or helper_missing
        if helper_missing:
            rep.count("reads-instead-of-converter-calls/" + cfg, nbase)
        docs = [s.encode() for s in lits[:nbase: (1 if every else 3)]] + [s.encode() for s in hw]
        nbd = len(docs) - len(hw)
        rl = K.read_lines(docs)
        impl, model, diffs, crashes, mcr = K.correspond(cfg, rl)
        rep.count("reads/" + cfg, len(rl))
        rep.count("reads-halfway-long/" + cfg, len(hw))
        for idx, rc, err in crashes:
            found = True
            rep.finding("read-crash", "reading a float literal crashed / sanitizer report", {"kind": "read", "config": cfg, "input_hex": C.hexs(docs[idx]), "stderr": err[:3000]})
        for i, a in enumerate(impl):
            if a is None:
                continue
            e = "ok (float 0 %d %s)" % (len(docs[i]), bits(docs[i].decode()))
            if a != e:
                found = True
                lit = docs[i].decode()
                nsig = len(re.sub(r"[eE].*$", "", lit).replace(".", "").lstrip("+-").lstrip("0"))
                what = "literal %s%s (%d characters, %d significant digits) read as %s, expected %s" % (
                    lit[:60], "..." + lit[-24:] if len(lit) > 84 else lit[60:], len(lit), nsig, a[:80], e)
                rep.finding("read/halfway-long" if i >= nbd else "read", what, {"kind": "read", "config": cfg, "input_hex": C.hexs(docs[i]), "literal": lit, "expected": e, "observed": a})
        for i in diffs[:5]:
            rep.broken_obligation("correspondence/read", "model %r vs code %r on %r" % (model[i], impl[i], docs[i][:80]), False)
        # the literal ends where `length` says, whatever digits, point or exponent happen to follow in memory
        tdocs = docs[:nbd: (1 if tier == "thorough" else 4)] + docs[nbd:: (2 if tier == "thorough" else 12)]
        if U.tail_independence(rep, cfg, tdocs, [b"0123456789012345678901234567890", b"e5 ", b".000000000000000001e3", b"5e-3\x00"], base=None):
            found = True
        rep.note_cases(len(lines) + len(rl), set(C.sha(s)[:16] for s in lits), sample={"literal": lits[10], "bits": want[10]})
    # two literals denoting the same real number read as the same double
    same = [("1e2", "100.0"), ("0.5", "5e-1"), ("0.5", "0.50000"), ("1e23", "100000000000000000000000.0"), ("12.5e1", "125.0"), ("-0.0", "-0e5")]
    rep.coverage["equal_value_pairs"] = len(same)
    for a, b in same:
        if bits(a) != bits(b):
            continue
        out, _ = K.run_impl("core", ["N dbl %s" % C.hexs(a.encode()), "N dbl %s" % C.hexs(b.encode())])
        if out[0] != out[1]:
            found = True
            rep.finding("same-value", "%s and %s read differently" % (a, b), {"kind": "pair", "config": "core", "a": a, "b": b, "observed": out})
    U.finish_proof(rep, lean, found)


def replay(path):
    r = json.load(open(path))
    print(json.dumps(r, indent=1)[:2000])
    exe = C.harness("unity", r["config"], "san")
    line = r["line"] if "line" in r else K.read_lines([bytes.fromhex(r["input_hex"])])[0]
    out = C.run_lines(exe, [line])
    print("now:", out.outputs, "| expected:", r.get("expected"))
    return 0
