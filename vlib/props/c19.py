"""C19 - namespaced maps and metadata desugar exactly (Clojure extensions).

Lean: Edn.Properties.C19 (key qualification; the namespaced reader is the map reader with keys
passed through the qualification before the duplicate check; annotation expansion; merged keys
unique and outer annotation wins; metadata transparent to hash/equality; target and annotation
gates; markers without operands are errors).  Correspondence: scripts through library and model
in the two configurations with the Clojure flag.  Oracle (real library): a namespaced literal
and its explicit expansion are equal, hash alike and dump alike (or both are rejected as
duplicate keys); a metadata chain attaches a map equal to the independently computed merge,
with unique keys, leaves the target equal to and hashing like the bare target, is rejected on
scalar targets and when an operand is missing."""
import json

from .. import common as C
from .. import corr as K
from .. import gen as G
from . import util as U

PID = "C19"
NAMES = ["a", "b", "c", "k1", "long-name", "x.y", "tag", "param-tags", "_", "q"]
PREFIXES = ["p", "foo", "a.b", "x-y", "_x", "tag", "_", "_"]  # `_` is an ordinary prefix: `#:_{:a 1}` = `{:_/a 1}`


def h(b):
    return C.hexs(b)


def gen_key(rng, prefix):
    """(text in the namespaced literal, text in the expansion)"""
    r = rng.random()
    n = rng.choice(NAMES)
    if n == "_":
        n = "u_"
    if r < 0.25:
        return ":" + n, ":%s/%s" % (prefix, n)
    if r < 0.35:
        return ":_/" + n, ":" + n
    if r < 0.45:
        ns = rng.choice(["other", prefix, "z"])
        if ns == "_":
            return ":_/" + n, ":" + n  # the prefix `_` does not change what `_/` means inside the literal
        return ":%s/%s" % (ns, n), ":%s/%s" % (ns, n)
    if r < 0.6:
        return n, "%s/%s" % (prefix, n)
    if r < 0.68:
        return "_/" + n, n
    if r < 0.76:
        ns = rng.choice(["other", prefix])
        if ns == "_":
            return "_/" + n, n
        return "%s/%s" % (ns, n), "%s/%s" % (ns, n)
    other = rng.choice(["%d" % rng.randrange(100), '"s%d"' % rng.randrange(9), "[%s 1]" % n, "\\x", "nil", "{:%s 1}" % n, "#{:%s}" % n, "1.5", "(:%s)" % n])
    return other, other


def nsmap_case(rng):
    prefix = rng.choice(PREFIXES)
    n = rng.choice([0, 1, 2, 3, 5, 9, 20])
    ents = []
    for i in range(n):
        a, b = gen_key(rng, prefix)
        v = rng.choice(["%d" % i, ":v%d" % i, "[%d]" % i, '"%d"' % i, "{:in %d}" % i, "#:in{:k %d}" % i])
        ents.append((a, b, v))
    if n >= 2 and rng.random() < 0.25:
        # plant a collision that only exists after qualification
        nm = rng.choice(NAMES[:5])
        kind = rng.choice(["kw", "sym", "under"]) if prefix != "_" else "under"  # with the prefix `_`, `:_/a` is stripped, not a twin of `:a`
        if kind == "kw":
            ents[0] = (":" + nm, ":%s/%s" % (prefix, nm), "1")
            ents[-1] = (":%s/%s" % (prefix, nm), ":%s/%s" % (prefix, nm), "2")
        elif kind == "sym":
            ents[0] = (nm, "%s/%s" % (prefix, nm), "1")
            ents[-1] = ("%s/%s" % (prefix, nm), "%s/%s" % (prefix, nm), "2")
        else:
            ents[0] = (":_/" + nm, ":" + nm, "1")
            ents[-1] = (":_/" + nm, ":" + nm, "2")
    sep = rng.choice([" ", ", ", "\n", "  "])
    gap = rng.choice(["", " ", "\n", " , "])
    a = "#:%s%s{%s}" % (prefix, gap, sep.join("%s %s" % (x, v) for x, _, v in ents))
    b = "{%s}" % sep.join("%s %s" % (y, v) for _, y, v in ents)
    return a.encode(), b.encode()


ANN_KEYS = ["a", "b", "tag", "param-tags", "c", "x/k", "y/k", "spec/tag", "my.lib/a", "x/a",
            "ab", "a/b", "a/bc", "ab/c", "abc"]  # distinct keys whose namespace and name bytes concatenate alike


def gen_ann(rng):
    """(text, entries) where entries = list of (key text, value text) after expansion"""
    r = rng.random()
    if r < 0.3:
        k = rng.choice(ANN_KEYS)
        return ":" + k, [(":" + k, "true")]
    if r < 0.45:
        s = '"s%d"' % rng.randrange(5)
        return s, [(":tag", s)]
    if r < 0.6:
        s = rng.choice(["String", "java.util.List", "ns/T", "T%d" % rng.randrange(4)])
        return s, [(":tag", s)]
    if r < 0.72:
        v = "[%s]" % " ".join(rng.choice(["x", "y", "1", ":k"]) for _ in range(rng.randrange(3)))
        return v, [(":param-tags", v)]
    n = rng.choice([0, 1, 2, 3])
    keys = rng.sample(ANN_KEYS + ["d", "e"], n)
    ents = [(":" + k, rng.choice(["%d" % rng.randrange(50), '"v"', "[1 2]", "nil", ":w", "{:n 1}"])) for k in keys]
    if rng.random() < 0.2:
        ents.append(('"strkey"', "1"))
    if rng.random() < 0.35:
        # keys that are equal across annotations although spelled / typed differently
        k = rng.choice(list(TWIN_KEYS))
        ents.append((k, rng.choice(["1", ":t", "[0]"])))
    return "{%s}" % " ".join("%s %s" % e for e in ents), ents


# spellings of equal keys -> canonical name
TWIN_KEYS = {"[1 2]": "seq12", "(1 2)": "seq12", "[]": "seq0", "()": "seq0", "\"a\\nb\"": "str-a-nl-b", "\"a\nb\"": "str-a-nl-b",
             "#{1 2}": "set12", "#{2 1}": "set12", "{:x 1 :y 2}": "mapxy", "{:y 2, :x 1}": "mapxy", "[(1)]": "nest1", "([1])": "nest1"}


def canon_key(k):
    return TWIN_KEYS.get(k, k)


def merge_chain(anns):
    """outer annotations win; order: the outermost annotation's entries first"""
    merged = []
    for text, ents in reversed(anns):
        newkeys = [canon_key(k) for k, _ in ents]
        merged = list(ents) + [(k, v) for k, v in merged if canon_key(k) not in newkeys]
    return merged


TARGETS_OK = ["x", "ns/sym", "[1 2]", "(a b)", "{:k 1}", "#{1 2}", "#t 5", "#inst \"x\"", "[]", "()", "{}", "#{}", "#:p{:a 1}", "[^:in y]"]
TARGETS_BAD = ["5", "\"str\"", ":kw", "nil", "true", "\\c", "1.5", "3N", "2.5M", "1/2", "##Inf"]


def meta_case(rng, n=None):
    n = n or rng.choice([1, 1, 2, 3, 4, 5, 6])
    anns = [gen_ann(rng) for _ in range(n)]
    tgt = rng.choice(TARGETS_OK)
    gap = lambda: rng.choice([" ", "  ", "\n", ", ", " ; c\n", " #_ 1 "])
    doc = "".join("^" + (rng.choice(["", " "])) + t + gap() for t, _ in anns) + tgt
    merged = merge_chain(anns)
    exp = "{%s}" % " ".join("%s %s" % e for e in merged)
    return doc.encode(), exp.encode(), tgt.encode()


def embed(rng, doc):
    ctx = rng.choice([b"%s", b"[%s]", b"[1 %s 2]", b"{:k %s}", b"{%s :v}", b"#{%s}", b"(%s)", b"#t %s", b"[[%s]]"])
    return ctx.replace(b"%s", doc), ctx


def path_for(ctx):
    return {b"%s": "0", b"[%s]": "0.0", b"[1 %s 2]": "0.1", b"{:k %s}": "0.1", b"{%s :v}": "0.0", b"#{%s}": "0.0", b"(%s)": "0.0",
            b"#t %s": "0.0", b"[[%s]]": "0.0.0"}[ctx]


def run(tier):
    rep = C.Report(PID, tier, "proof")
    rng = C.rng(PID)
    lean = U.lean_part(rep, PID)
    found = False
    nn = 400 if tier == "quick" else 6000
    for cfg in ("clj", "both"):
        scripts, kinds = [], []
        for _ in range(nn):
            a, b = nsmap_case(rng)
            scripts.append("Q r0=%s r1=%s e:0:1 e:1:0 h:0 h:1 t:0 t:1" % (h(a), h(b)))
            kinds.append(("nsmap", a, b))
        for i in range(nn):
            doc, exp, tgt = meta_case(rng, n=(1 + i % 6))
            full, ctx = embed(rng, doc)
            p = path_for(ctx)
            scripts.append("Q r0=%s r1=%s r2=%s e:%s.m:1 e:1:%s.m e:%s:2 e:2:%s h:%s h:2 d:%s.m t:%s.m t:1" % (h(full), h(exp), h(tgt), p, p, p, p, p, p, p))
            kinds.append(("meta", full, exp, tgt))
        for tgt in TARGETS_BAD:
            for ann in (":a", "{:a 1}", "\"s\"", "T", "[x]"):
                d = ("^%s %s" % (ann, tgt)).encode()
                for full in (d, b"[" + d + b"]", b"{:k " + d + b"}"):
                    scripts.append("Q r0=%s" % h(full))
                    kinds.append(("reject", full, "scalar target"))
        # the target / annotation gates also hold inside discarded forms
        for d in (b"#_ ^:a 5 x", b"[1 #_ ^{:doc \"d\"} \"s\" 2]", b"{:k #_ ^:private :kw 1}", b"#_ [^:a 5] x", b"#_ ^:a nil ^:b [1]", b"#_ ^5 [1] x", b"[#_ ^:a]", b"#_ ^:a #_ 1 2.5 x"):
            scripts.append("Q r0=%s" % h(d))
            kinds.append(("reject", d, "gate inside discard"))
        for ann in ("5", "nil", "\\c", "1.5", "(a)", "#{a}", "#t x", "true"):
            d = ("^%s x" % ann).encode()
            scripts.append("Q r0=%s" % h(d))
            kinds.append(("reject", d, "annotation kind"))
        for d in (b"[^:a]", b"[^]", b"^", b"^:a", b"[^:a ^:b]", b"{^:a}", b"#{^{:a 1}}", b"(^\"s\")", b"[1 ^:a]", b"^ ]", b"#t ^:a", b"[#t ^:a]",
                  b"^:a ^:b", b"[^:a ^]", b"^:a #_ x", b"[^:a #_ x]", b"^#_ :a x"):
            scripts.append("Q r0=%s" % h(d))
            kinds.append(("reject" if d != b"^#_ :a x" else "any", d, "missing operand"))
        for d in (b"#:p [1]", b"#:p", b"#:{:a 1}", b"#:p/q{:a 1}", b"#: p{:a 1}", b"#:p{:a}", b"#:p{:a 1", b"#:p x", b"#::p{:a 1}"):
            scripts.append("Q r0=%s" % h(d))
            kinds.append(("reject", d, "malformed namespaced map"))
        # a marker lacking its annotation or target at the very end of the input is an error also when the caller
        # supplies an end-of-input value (option bit 1)
        eofdocs = [b"^:private", b"^:a ", b"^", b"^ ", b"^{:doc \"x\"} ^:dynamic  ; trailing comment", b"^String ^:a", b"^{:a 1}", b"^[x] ^\"s\"  \n",
                   b"[1] ^:a", b"#:p", b"#:p ", b"^:a #_ x", b"^:a ;c\n"]
        for opt in (0, 1):
            eo, ecr = K.run_impl(cfg, K.read_lines(eofdocs, opt))
            em, _ = K.run_model(cfg, K.read_lines(eofdocs, opt))
            rep.count("markers-at-eof/%s/opt%d" % (cfg, opt), len(eofdocs))
            for d, a, b in zip(eofdocs, eo, em):
                if a is None:
                    continue
                if a != b:
                    rep.broken_obligation("correspondence/markers-at-eof", "model %r vs code %r on %r (opt %d)" % (b, a, d, opt), False)
                if d == b"[1] ^:a":
                    continue  # a complete form comes first: it is the result
                if not a.startswith("err "):
                    found = True
                    rep.finding("accepted/marker-at-eof", "a marker without operand at the end of the input was accepted (opt %d): %r -> %s" % (opt, d, a[:80]),
                                {"kind": "read", "config": cfg, "opt": opt, "input_hex": C.hexs(d), "observed": a[:300]})
        impl, model, diffs, crashes, mcr = K.correspond(cfg, scripts)
        rep.count("scripts/" + cfg, len(scripts))
        for idx, rc, err in crashes:
            found = True
            rep.finding("crash", "script crashed", {"kind": "script", "config": cfg, "line": scripts[idx], "stderr": err[:2000]})
        for i in diffs[:5]:
            rep.broken_obligation("correspondence/script", "model %r vs code %r on %s" % (model[i][:300], impl[i][:300], scripts[i][:300]), False)
        for i, (out, kd) in enumerate(zip(impl, kinds)):
            if out is None:
                continue
            t = out.split("\t")
            rp = {"kind": "script", "config": cfg, "line": scripts[i], "observed": out[:1500], "doc": kd[1].decode("latin-1")}
            if kd[0] == "nsmap":
                if t[0].startswith("err") or t[1].startswith("err"):
                    rep.count("nsmap-rejected")
                    if t[0] != t[1]:
                        found = True
                        rep.finding("nsmap/verdict", "namespaced literal %s but its expansion %s" % (t[0], t[1]), dict(rp, expansion=kd[2].decode("latin-1")))
                    continue
                rep.count("nsmap-accepted")
                e01, e10, h0, h1, d0, d1 = t[2:8]
                if e01 != "1" or e10 != "1" or h0 != h1 or d0 != d1:
                    found = True
                    rep.finding("nsmap/desugar", "namespaced literal differs from its expansion (equal %s/%s, hashes %s %s)" % (e01, e10, h0, h1),
                                dict(rp, expansion=kd[2].decode("latin-1")))
            elif kd[0] == "meta":
                if t[:3] != ["ok", "ok", "ok"]:
                    found = True
                    rep.finding("meta/rejected", "a metadata chain on a legal target was rejected: %s" % t[:3], dict(rp, expected_meta=kd[2].decode("latin-1")))
                    continue
                rep.count("meta-chains")
                em1, em2, e02, e20, h0, h2, dup, dm_, d1 = t[3:12]
                prob = []
                if em1 != "1" or em2 != "1" or dm_ != d1:
                    prob.append("attached metadata is not the merge (outer wins)")
                if e02 != "1" or e20 != "1" or h0 != h2:
                    prob.append("metadata changed the target's equality or hash")
                if dup != "0":
                    prob.append("merged metadata has duplicate keys")
                if prob:
                    found = True
                    rep.finding("meta/" + prob[0].split()[0], "; ".join(prob), dict(rp, expected_meta=kd[2].decode("latin-1"), target=kd[3].decode("latin-1")))
            elif kd[0] == "reject":
                rep.count("must-reject")
                if not t[0].startswith("err"):
                    found = True
                    rep.finding("accepted/" + kd[2].replace(" ", "-"), "%s accepted: %r" % (kd[2], kd[1]), rp)
        rep.note_cases(len(scripts), set(C.sha(s)[:16] for s in scripts), sample={"script": scripts[nn][:300], "result": (impl[nn] or "")[:300]})
    U.finish_proof(rep, lean, found)


def replay(path):
    r = json.load(open(path))
    print(json.dumps(r, indent=1)[:3000])
    if r.get("kind") == "read":
        out = C.run_lines(C.harness("unity", r["config"], "san"), K.read_lines([bytes.fromhex(r["input_hex"])], r.get("opt", 0)))
        print("now:", out.outputs)
        return 0
    if r.get("kind") == "script":
        out = C.run_lines(C.harness("unity", r["config"], "san"), [r["line"]])
        print("now:", out.outputs)
        return 0
    return 1
