"""C14 - tagged elements dispatch to handlers as configured; registries behave as maps.

Lean: Edn.Properties.C14 (registry and external-type table refine the abstract map for every
operation sequence; the dispatch step of the reader).  Correspondence: registry / external
operation sequences and documents with tags under every option combination, real code vs
model.  Oracle: an abstract map in Python for the registries; for dispatch, an independent
re-implementation on the passthrough tree (expected handler calls in post-order, expected
result per default mode, nothing called inside discards)."""
import itertools
import json

from .. import common as C
from .. import corr as K
from .. import gen as G
from .. import sexp
from . import util as U

PID = "C14"
FNV_OFF, FNV_PRIME = 14695981039346656037, 1099511628211
REGISTERED = {"id": "id", "my/id": "id", "fail": "fail", "failq": "failq", "ext": "ext", "inst": "alt"}


def fnv(b):
    h = FNV_OFF
    for c in b:
        h = ((h ^ c) * FNV_PRIME) % 2 ** 64
    return h


def colliding_pair():
    seen = {}
    for a in "abcdefghijklmnopqrstuvwxyz":
        for b in "abcdefghijklmnopqrstuvwxyz":
            t = a + b
            k = fnv(t.encode()) % 16
            if k in seen:
                return seen[k], t
            seen[k] = t
    return "aa", "ab"


def prefix_colliding_pair():
    """two tags in the same bucket one of which is a proper prefix of the other"""
    for base in ("time", "inst", "id", "x", "db/id"):
        hb = fnv(base.encode()) % 16
        for suf in ("-ns", "s", "x", "-2", "/a", "!", "-utc", "1", "ab", "zz", "-q", "2"):
            if fnv((base + suf).encode()) % 16 == hb:
                return base, base + suf
    return "time", "time-ns"


def registry_oracle(ops):
    m, names, out = {}, [], []
    for op in ops:
        o = op[0]
        body = op[1:]
        k, _, h = body.partition("=")
        if k not in names:
            names.append(k)
        if o == "+":
            hv = int(h)
            m[k] = (hv // 10 if hv % 10 == 0 else hv) if hv >= 10 else (1 if hv == 1 else 2)
            tag = "1"
        elif o == "-":
            m.pop(k, None)
            tag = "u"
        else:
            tag = "q"
        out.append(tag + "{" + ",".join("%s=%d" % (n, m.get(n, 0)) for n in names) + "} ")
    return "".join(out).rstrip("\n")


# ---------------------------------------------------------------------------------------------------------------
# Operation sequences over a wide key space.  Both registries are maps whatever their layout (chains, open addressing,
# growth, deletion by unlinking / shifting / marking): after every step every key seen so far is looked up.
# A line uses at most 64 distinct keys (the harness observes that many).
# ---------------------------------------------------------------------------------------------------------------
BIG_IDS = [64, 65, 127, 128, 255, 256, 1023, 1024, 4095, 65535, 65536, 1000000, 16777216, 2 ** 31 - 1, 2 ** 31, 2 ** 31 + 1, 2 ** 32 - 16, 2 ** 32 - 2, 2 ** 32 - 1]


def tag_universe():
    names = ["t%d" % i for i in range(64)] + ["ns/name-%d" % i for i in range(32)] + ["a" * k for k in range(1, 17)] + ["my.app/rec%02d" % i for i in range(16)]
    names += ["p", "p/q", "p/q.r", "pq", "inst", "inst2", "uuid", "uuid/v4", "x" * 40, "x" * 41, "y" * 63]
    return names


def reg_val(kind, rng):
    return rng.choice(["1", "2"]) if kind == "G" else rng.choice(["1", "2", "11", "12", "21", "22"])


def pair_sweep(kind, keys):
    """register a, register b, unregister a (b must survive), unregister b: every ordered pair"""
    out = []
    for a in keys:
        for b in keys:
            if a != b:
                out.append("%s +%s=%s +%s=%s -%s -%s" % (kind, a, "1" if kind == "G" else "11", b, "2" if kind == "G" else "22", a, b))
    return out


def fill_and_drain(kind, rng, pool):
    """register the whole pool, unregister it key by key in another order (re-registering some on the way), register it again"""
    ks = list(pool)
    rng.shuffle(ks)
    seq = ["+%s=%s" % (k, reg_val(kind, rng)) for k in ks]
    order = list(ks)
    rng.shuffle(order)
    for i, k in enumerate(order):
        seq.append("-%s" % k)
        if i % 5 == 4:
            seq.append("+%s=%s" % (order[rng.randrange(i + 1)], reg_val(kind, rng)))
    for k in order[::2]:
        seq.append("+%s=%s" % (k, reg_val(kind, rng)))
    for k in order[::3]:
        seq.append("-%s" % k)
    return kind + " " + " ".join(seq)


def random_walk(kind, rng, pool, length):
    """phases of mostly-registering and mostly-unregistering over the pool"""
    seq, live = [], set()
    grow = True
    for i in range(length):
        if i % max(4, len(pool) // 2) == 0:
            grow = rng.random() < 0.6
        r = rng.random()
        if r < (0.7 if grow else 0.25) or not live:
            k = rng.choice(pool)
            live.add(k)
            seq.append("+%s=%s" % (k, reg_val(kind, rng)))
        elif r < 0.95:
            k = rng.choice(sorted(live, key=str)) if rng.random() < 0.85 else rng.choice(pool)
            live.discard(k)
            seq.append("-%s" % k)
        else:
            seq.append("?%s" % rng.choice(pool))
    return kind + " " + " ".join(seq)


def wide_sequences(rng, tier):
    """-> (small, large, counts): `small` lines never hold more than 8 live keys (a table of 16 slots need not grow), `large`
    lines hold up to 64"""
    quick = tier == "quick"
    small, large, counts = [], [], {}
    ids = [str(i) for i in range(64)]
    big = [str(i) for i in BIG_IDS]
    tagu = tag_universe()

    def add(dst, fam, ls):
        dst.extend(ls)
        counts[fam] = counts.get(fam, 0) + len(ls)

    # every ordered pair of type ids 0..63, of the large ids, and of large x small; every ordered pair of 64 tag names
    add(small, "X/pair-sweep", pair_sweep("X", ids) + pair_sweep("X", big) + [l for b in big for i in ids[::7] for l in pair_sweep("X", [b, i])])
    add(small, "G/pair-sweep", pair_sweep("G", tagu[:64]) + pair_sweep("G", tagu[64:64 + (24 if quick else 60)]))
    # triples and short walks that never exceed 8 live keys
    for kind, uni in (("X", ids + big), ("G", tagu)):
        ls = []
        for _ in range(1500 if quick else 20000):
            ks = rng.sample(uni, rng.choice([3, 3, 4, 5, 6, 8]))
            seq = ["+%s=%s" % (k, reg_val(kind, rng)) for k in ks]
            victims = list(ks)
            rng.shuffle(victims)
            for v in victims[:rng.randint(1, len(ks))]:
                seq.append("-%s" % v)
                if rng.random() < 0.3:
                    seq.append("+%s=%s" % (rng.choice(ks), reg_val(kind, rng)))
            ls.append(kind + " " + " ".join(seq))
        add(small, kind + "/few-keys", ls)
    # up to 64 live keys: fill and drain, random walks
    for kind, uni in (("X", ids + big), ("G", tagu)):
        fd, rw = [], []
        for n in (9, 12, 16, 17, 20, 24, 31, 32, 33, 34, 40, 48, 63, 64):
            for rep_ in range(3 if quick else 20):
                pool = rng.sample(uni, n) if rep_ else (uni[:n] if kind == "X" else uni[:n])
                fd.append(fill_and_drain(kind, rng, pool))
                pool = rng.sample(uni, n)
                rw.append(random_walk(kind, rng, pool, 3 * n + 20))
        add(large, kind + "/fill-and-drain", fd)
        add(large, kind + "/random-walk", rw)
    return small, large, counts


def expected_dispatch(tree_line, mode, registry, doc):
    """Re-implement dispatch on the passthrough tree (ranges on).  Returns (result kind, calls)
    where result kind is 'ok'/'err CODE'; the call list is post-order."""
    root = sexp.parse_result(tree_line)
    if root is None:
        return None
    calls = []

    class Fail(Exception):
        def __init__(self, code):
            self.code = code

    def walk(n):
        """returns (s, e) range of the value the node evaluates to"""
        for k in n.kids:
            pass
        if n.kind != "tagged":
            for k in n.kids:
                walk(k)
            if n.meta is not None:
                pass  # metadata values were read before the target; handled by order below
            return (n.s, n.e)
        tag = bytes.fromhex(n.args[0]).decode("latin-1")
        inner = walk(n.kids[0])
        if not registry:
            return (n.s, n.e)
        if tag in REGISTERED:
            h = REGISTERED[tag]
            calls.append("%s@%d:%d" % (h, inner[0], inner[1]))
            if h in ("fail", "failq"):
                raise Fail("INVALID_SYNTAX")
            return (n.s, n.e)
        if mode == 1:
            return inner
        if mode == 2:
            raise Fail("UNKNOWN_TAG")
        return (n.s, n.e)

    try:
        walk(root)
        return ("ok", calls)
    except Fail as f:
        return ("err " + f.code, calls)


def gen_tag_doc(rng, cfg):
    tags = ["id", "my/id", "fail", "failq", "ext", "inst", "uuid", "foo/bar", "unk"]
    weights = [4, 2, 1, 1, 3, 3, 3, 2, 2]

    def val(d):
        r = rng.random()
        if d <= 0 or r < 0.3:
            return G.render(rng, G.gen_scalar(rng, cfg), cfg)
        if r < 0.6:
            t = rng.choices(tags, weights)[0]
            return b"#" + t.encode() + rng.choice([b" ", b"  ", b"\n"]) + val(d - 1)
        if r < 0.7:
            return b"#_" + rng.choice([b"", b" "]) + val(d - 1) + b" " + val(d - 1)
        # no sets: handler results (e.g. two externals) may legitimately collide as duplicates
        op, cl = rng.choice([(b"[", b"]"), (b"(", b")")])
        n = rng.randint(0, 3)
        items, seen = [], set()
        for _ in range(n):
            x = val(d - 1)
            if x not in seen:
                seen.add(x)
                items.append(x)
        return op + b" ".join(items) + cl

    return val(rng.choice([2, 3, 4]))


def run(tier):
    rep = C.Report(PID, tier, "proof")
    rng = C.rng(PID)
    lean = U.lean_part(rep, PID)
    found = False

    # ---- registries: all operation sequences over 4 tags (incl. a bucket-colliding pair) x 2 handlers
    t1, t2 = colliding_pair()
    tags = [t1, t2, "my/x", "q"]
    ops = []
    for t in tags:
        ops += ["+%s=1" % t, "+%s=2" % t, "-%s" % t]
    maxlen = 4 if tier == "quick" else 5
    lines, exps = [], []
    for n in range(1, maxlen + 1):
        for seq in itertools.product(ops, repeat=n):
            lines.append("G " + " ".join(seq))
            exps.append(registry_oracle(seq))
    # a registered tag must not answer for its own prefixes (nor the other way round), also inside one bucket
    p1, p2 = prefix_colliding_pair()
    pops = []
    for t in (p1, p2):
        pops += ["+%s=1" % t, "+%s=2" % t, "-%s" % t, "?%s" % t]
    for n in range(1, maxlen + 1):
        for seq in itertools.product(pops, repeat=n):
            lines.append("G " + " ".join(seq))
            exps.append(registry_oracle(seq))
    rep.coverage["prefix_colliding_tags"] = [p1, p2]
    # external types with and without a hash callback: re-registration replaces both callbacks
    hops = ["+5=11", "+5=10", "+5=22", "+5=2", "+9=12", "-5", "?9"]
    for n in range(1, maxlen + 1):
        for seq in itertools.product(hops, repeat=n):
            lines.append("X " + " ".join(seq))
            exps.append(registry_oracle(seq))
    ids = ["5", "21", "7", "1000000"]
    xops = []
    for t in ids:
        xops += ["+%s=1" % t, "+%s=2" % t, "-%s" % t]
    for n in range(1, (4 if tier == "quick" else 5) + 1):
        for seq in itertools.product(xops, repeat=n):
            lines.append("X " + " ".join(seq))
            exps.append(registry_oracle(seq))
    # many distinct tags / type ids in one registry (more entries than buckets, several times over): every one stays
    # reachable after each further registration, removal and re-registration
    for fam in ("type%02d", "ns/t%d", "k%d", "a.b.c/long-tag-name-%d"):
        for n in (17, 18, 24, 40, 60):
            names = [fam % i for i in range(n)]
            seq = ["+%s=%d" % (t, 1 + i % 2) for i, t in enumerate(names)]
            seq += ["-%s" % names[i] for i in range(0, n, 5)] + ["+%s=2" % names[i] for i in range(0, n, 10)] + ["?%s" % names[n - 1]]
            lines.append("G " + " ".join(seq))
            exps.append(registry_oracle(seq))
    for n in (17, 24, 40, 60):
        idl = [str(3 + 7 * i) for i in range(n)]
        seq = ["+%s=%d" % (t, 1 + i % 2) for i, t in enumerate(idl)] + ["-%s" % idl[i] for i in range(0, n, 5)] + ["+%s=2" % idl[i] for i in range(0, n, 10)]
        lines.append("X " + " ".join(seq))
        exps.append(registry_oracle(seq))
    # wide key spaces: type ids 0..63 and large ones, 150 tag names; up to 64 live entries.  Lines that keep a table small come
    # first within every harness process (a table that has grown in an earlier line would hide the small layouts)
    small, large, wcounts = wide_sequences(rng, tier)
    nbase = len(lines)
    lines = small + lines + large
    exps = [registry_oracle(l[2:].split()) for l in small] + exps + [registry_oracle(l[2:].split()) for l in large]
    for fam, n in sorted(wcounts.items()):
        rep.count("registry-wide/" + fam, n)
    rep.coverage["registry_wide_keys"] = {"type_ids": "0..63 and %s" % BIG_IDS, "tags": len(tag_universe()), "max_live_entries": 64}
    impl, model, diffs, crashes, mcr = K.correspond("core", lines)
    rep.count("registry-sequences", len(lines))
    rep.coverage["colliding_tags"] = [t1, t2]
    for idx, rc, err in crashes:
        found = True
        rep.finding("registry-crash", "registry operation sequence crashed", {"kind": "line", "config": "core", "line": lines[idx], "stderr": err[:3000]})
    for i, (a, e) in enumerate(zip(impl, exps)):
        if a is None:
            continue
        if "INTERNAL-DIFFERS" in a or a.strip() != e.strip():
            found = True
            rep.finding("registry/" + lines[i][0], "registry does not behave like a map", {"kind": "line", "config": "core", "line": lines[i], "expected": e, "observed": a})
    for i in diffs[:5]:
        rep.broken_obligation("correspondence/registry", "model %r vs code %r on %s" % (model[i], impl[i], lines[i]), False)
    rep.note_cases(len(lines), set(C.sha(l)[:16] for l in lines), sample={"line": lines[100], "result": impl[100]})

    # ---- dispatch
    ndocs = 400 if tier == "quick" else 4000
    for cfg in ("core", "both"):
        docs = [gen_tag_doc(rng, cfg) for _ in range(ndocs)]
        docs += [b"#id 1", b"#fail 1", b"#failq [1 2]", b"[#_ #fail 1 2]", b"#_ #id 1 #id 2", b"#unk #id 1", b"#id #unk 1", b"#ext #ext 5",
                 b"{#id :a #inst \"x\"}", b"#id", b"[#id]", b"#id #_ 1", b"#my/id #my/id #my/id nil"]
        # long flat runs of tags (more of them than the nesting limit): handled, unknown, mixed, with collections as operands
        for n in (50, 98, 99, 100, 101, 150, 400):
            docs.append(b"[" + b" ".join(b"#u %d" % i for i in range(n)) + b" #id [7]]")
            docs.append(b"[" + b" ".join(b"#id %d" % i for i in range(n)) + b" #u [7]]")
            docs.append(b"[" + b" ".join(b"#inst [%d]" % i for i in range(n)) + b"]")
            docs.append(b"[" + b" ".join(rng.choice([b"#u", b"#id", b"#ext", b"#my/id", b"#v/w"]) + b" {:k %d}" % i for i in range(n)) + b"]")
        # an unknown tag around handlers that fail or succeed: inner forms are read (and their handlers run) first
        docs += [b"#nope #fail 1", b"[#id 1 #nope [#id 2 #id 3]]", b"#nope {:a 1}", b"#nope [1 2", b"#nope #failq [#id 1]", b"[#nope #ext 1 #id 2]", b"#nope #nope #id 1"]
        base, _ = K.run_impl(cfg, K.read_lines(docs, 0))
        for mode in (0, 1, 2):
            for reg in (0, 1):
                opt = (mode << 1) | (8 if reg else 0)
                lines = K.read_lines(docs, opt)
                impl, model, diffs, crashes, mcr = K.correspond(cfg, lines)
                rep.count("dispatch/%s/mode%d/reg%d" % (cfg, mode, reg), len(lines))
                for idx, rc, err in crashes:
                    found = True
                    rep.finding("dispatch-crash", "reading a tagged document crashed", {"kind": "read", "config": cfg, "opt": opt, "input_hex": C.hexs(docs[idx]), "stderr": err[:3000]})
                for i in diffs[:5]:
                    rep.broken_obligation("correspondence/dispatch", "model %r vs code %r on %r opt %d" % ((model[i] or "")[:200], (impl[i] or "")[:200], docs[i], opt), False)
                for i, a in enumerate(impl):
                    if a is None or base[i] is None:
                        continue
                    if not reg:
                        if a != base[i]:
                            found = True
                            rep.finding("no-registry", "without a registry the result depends on the default mode",
                                        {"kind": "read", "config": cfg, "opt": opt, "input_hex": C.hexs(docs[i]), "expected": base[i][:300], "observed": a[:300]})
                        continue
                    exp = expected_dispatch(base[i], mode, True, docs[i])
                    if exp is None:
                        continue  # not well-formed: nothing to predict
                    kind, calls = exp
                    got_calls = a.split(" calls=[")[1].rstrip("]").split() if " calls=[" in a else []
                    got_kind = "ok" if a.startswith("ok ") else " ".join(a.split(" ")[:2])
                    if got_kind != kind or got_calls != calls:
                        found = True
                        rep.finding("dispatch", "dispatch differs from the configured behaviour: got %s calls %s, expected %s calls %s" % (got_kind, got_calls, kind, calls),
                                    {"kind": "read", "config": cfg, "opt": opt, "input_hex": C.hexs(docs[i]), "expected": kind + " " + " ".join(calls), "observed": a[:400]})
        rep.note_cases(len(docs) * 6, set(C.sha(d)[:16] for d in docs), sample={"doc": docs[2].decode("latin-1"), "passthrough": (base[2] or "")[:200]})
    U.finish_proof(rep, lean, found)


def replay(path):
    r = json.load(open(path))
    print(json.dumps(r, indent=1)[:2500])
    exe = C.harness("unity", r["config"], "san")
    line = r["line"] if r.get("kind") == "line" else K.read_lines([bytes.fromhex(r["input_hex"])], r.get("opt", 0))[0]
    out = C.run_lines(exe, [line])
    print("now:", out.outputs)
    return 0
