"""C18 - feature flags only add syntax: core EDN reads identically in every configuration.

Lean: Edn.Properties.C18 (a document the core configuration accepts, free of the byte patterns
the extensions re-interpret, whose strings use core escapes only, reads to the same tree in all
four configurations; string contents and number readings the core accepts are flag-independent).
Correspondence: the same documents through the model and the library in each of the four
configurations.  Oracle (real library, four builds): core-generator documents and all short
strings over an alphabet that contains every reserved spelling are read in the four builds; the
dumps (kinds, ranges, decoded contents, numeric values) must agree whenever the hypotheses of
the theorem hold, and any difference at all must be attributable to a reserved spelling."""
import json
import re

from .. import common as C
from .. import corr as K
from .. import gen as G
from . import util as U

PID = "C18"
CFGS = ["core", "clj", "exp", "both"]

ALPHA = [b"0", b"1", b"7", b"8", b"x", b"r", b"N", b"M", b"/", b"_", b"\\", b"\"", b"#", b":", b"{", b"}", b"[", b"]", b" ", b"a",
         b".", b"-", b"e", b"^", b"\n", b"u", b"o", b"f"]

CORE_NUM = re.compile(rb"^[+-]?(0|[1-9][0-9]*)(N|M|(\.[0-9]*)?([eE][+-]?[0-9]+)?M?)$")
TOKEN_SPLIT = re.compile(rb"[\s\x1c-\x1f,()\[\]{}\";#]+")  # EDN blanks include 0x1C..0x1F


EXT_ESCAPE = re.compile(rb"\\[fbu0-7]")


def no_triggers(doc):
    """the hypothesis NoTriggers of Edn.Proofs.FlagIndep (fifth conjunct: string escapes are decoded lazily, so a
    discarded form may hold literals the core configuration cannot decode; see Properties/C18.lean)"""
    return (b"^" not in doc and b'"""\n' not in doc and b"\\\x0c" not in doc and b"\\\x08" not in doc
            and (b"#_" not in doc or not EXT_ESCAPE.search(doc)))


def reserved_spelling(doc):
    """over-approximation of 'uses an extension's own syntax' for arbitrary (also rejected) documents"""
    if not no_triggers(doc) or b"#:" in doc:
        return True
    # escapes / character names beyond the core ones
    for m in re.finditer(rb"\\(.?)", doc, re.S):
        c = m.group(1)
        if c in (b"f", b"b", b"o", b"u") or (c and c in b"01234567"):
            return True
    # number-like tokens that are not core numbers
    for tok in TOKEN_SPLIT.split(doc.replace(b"#_", b" ").replace(b"##", b" ")):
        if re.match(rb"^[+-]?[0-9]", tok) and not CORE_NUM.match(tok):
            return True
    return False


def run(tier):
    rep = C.Report(PID, tier, "proof")
    rng = C.rng(PID)
    lean = U.lean_part(rep, PID)
    found = False
    docs = []
    n = 1500 if tier == "quick" else 20000
    for _ in range(n):
        v = G.gen_value(rng, "core", depth=rng.choice([1, 2, 3, 4]), width=4)
        docs.append(G.render_doc(rng, v, "core", rich=True))
    # core number tokens in every shape the per-flag number code paths distinguish: digit counts around every accumulator / fast-path limit
    # (15..19, 20, 40 significant digits), leading zeros after the point, exponents at the fast-path edges, integers at the 2^63 edge, N / M
    # suffixes, long tokens (the flags change which path converts them; the value must not change)
    for sg in ("", "-", "+"):
        for lz in (0, 1, 2, 5, 17, 18, 19, 20, 25, 40):
            for nd in (1, 2, 14, 15, 16, 17, 18, 19, 20, 21, 25, 40):
                digs = "".join(str((7 * i + 1) % 10) for i in range(nd))
                for tail in ("", "0", "000"):
                    frac = "0." + "0" * lz + digs.rstrip("0") + "5" + tail
                    docs.append((sg + frac).encode())
                    docs.append(("[" + sg + frac + "e" + str(lz) + " " + sg + frac + "E-3 :k]").encode())
                docs.append((sg + (digs.lstrip("0") or "1") + "." + "0" * lz + "25").encode())
    for e in (-25, -23, -22, -21, -1, 0, 1, 21, 22, 23, 25, 37, 300, 308, 309, -308, -324, -325):
        for m in ("1", "9007199254740993", "123456789012345678", "1234567890123456789", "0.000000000000000000123", "4.9", "1.7976931348623157"):
            docs.append(("%se%d" % (m, e)).encode())
    for t in ("9223372036854775807", "9223372036854775808", "-9223372036854775808", "-9223372036854775809", "123456789012345678901234567890", "0", "-0", "+0", "7N", "0N", "-12N",
              "1.5M", "0.5M", "-0.25M", "0M", "1e3M", "12345678901234567890.12345678901234567890M", "3" * 600, "3" * 600 + ".5", "0." + "1" * 600, "1e0000000000000000005"):
        docs.append(t.encode())
        docs.append(("{:a " + t + " :b [" + t + "]}").encode())
    ngen = len(docs)
    for d in list(docs[:n // 3]):
        docs.extend(c for c, _, _ in G.corruptions(rng, d, "core", limit=3))
        docs.append(G.mutate(rng, d))
    docs += [d for d in G.strings_over(ALPHA, 3 if tier == "quick" else 4, 1)]
    docs += G.byte_context_docs()
    docs = [d for d in docs if d]
    lines = K.read_lines(docs, 0)
    outs = {}
    for cfg in CFGS:
        impl, model, diffs, crashes, mcr = K.correspond(cfg, lines)
        outs[cfg] = impl
        rep.count("reads/" + cfg, len(lines))
        for idx, rc, err in crashes:
            found = True
            rep.finding("crash", "reading crashed", {"kind": "read", "config": cfg, "input_hex": C.hexs(docs[idx]), "stderr": err[:2000]})
        for i in diffs[:5]:
            rep.broken_obligation("correspondence/read", "model %r vs code %r (config %s) on %r" % (model[i][:200], impl[i][:200], cfg, docs[i][:80]), False)
    stats = {"theorem-hypotheses-hold": 0, "differs-with-reserved-spelling": 0, "identical": 0}
    for i, d in enumerate(docs):
        row = [outs[c][i] for c in CFGS]
        if any(r is None for r in row):
            continue
        core = row[0]
        same = all(r == core for r in row)
        hyp = core.startswith("ok ") and no_triggers(d) and " ERR)" not in core
        if hyp:
            stats["theorem-hypotheses-hold"] += 1
        if same:
            stats["identical"] += 1
            continue
        which = [c for c, r in zip(CFGS, row) if r != core]
        if hyp:
            found = True
            rep.finding("core-document-differs", "a core document reads differently with flags %s" % ",".join(which),
                        {"kind": "read4", "input_hex": C.hexs(d), "input": d.decode("latin-1"), "expected": core[:600],
                         "observed": {c: r[:600] for c, r in zip(CFGS, row)}})
        elif not reserved_spelling(d) or i < ngen:
            found = True
            rep.finding("difference-without-extension-syntax", "flags %s change the reading of a document that uses no extension syntax" % ",".join(which),
                        {"kind": "read4", "input_hex": C.hexs(d), "input": d.decode("latin-1"), "expected": core[:600],
                         "observed": {c: r[:600] for c, r in zip(CFGS, row)}})
        else:
            stats["differs-with-reserved-spelling"] += 1
    for k, v in stats.items():
        rep.count(k, v)
    rep.note_cases(4 * len(docs), set(C.sha(d)[:16] for d in docs), sample={"doc": docs[0][:200].decode("latin-1"), "core": outs["core"][0][:300]})
    U.finish_proof(rep, lean, found)


def replay(path):
    r = json.load(open(path))
    print(json.dumps(r, indent=1)[:2500])
    d = bytes.fromhex(r["input_hex"])
    for cfg in ([r["config"]] if "config" in r else CFGS):
        out = C.run_lines(C.harness("unity", cfg, "san"), K.read_lines([d], 0))
        print("now %s:" % cfg, out.outputs)
    return 0
