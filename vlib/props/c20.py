"""C20 - text blocks follow the documented indentation algorithm (experimental extension).

Lean: Edn.Properties.C20 (the scanner recovers the source lines of every well-formed block and
the value holds exactly the text the documented algorithm denotes; final line feed iff the
closing delimiter is on its own line; a block equals and hashes like the ordinary literal of
the same content).  Correspondence: the same blocks through library and model.  Oracle (real
library): an independent Python implementation of the documented algorithm over source lines
predicts bytes and exact length; the block must equal, hash like and collide with the ordinary
literal spelling the same content."""
import itertools
import json

from .. import common as C
from .. import corr as K
from .. import gen as G
from . import util as U

PID = "C20"
TQ = b'"""'


def rstrip_blanks(b):
    return b.rstrip(b" \t")


def expected_text(lines, closer):
    """lines: [(indent, body)], closer: None (inline) or indent bytes (own line)"""
    ws = [len(i) for i, b in lines if b]
    if closer is not None:
        ws.append(len(closer))
    common = min(ws) if ws else 0
    out = []
    for ind, body in lines:
        out.append((ind[common:] + rstrip_blanks(body).replace(b'\\"""', TQ)) if body else b"")
    if closer is not None:
        return b"".join(x + b"\n" for x in out)
    return b"\n".join(out)


def encode(lines, closer):
    if closer is not None:
        return b'"""\n' + b"".join(i + b + b"\n" for i, b in lines) + closer + TQ
    return b'"""\n' + b"\n".join(i + b for i, b in lines) + TQ


def wf(lines, closer):
    for ind, body in lines:
        if body and body[:1] in b" \t":
            return False
    if closer is None:
        if not lines or not lines[-1][1] or lines[-1][1][-1:] in (b"\\", b'"'):
            return False
    return True


def literal_for(rng, text, cfg):
    return G.render_string(rng, text, cfg, escapes=True)


INDENTS = [b"", b" ", b"  ", b"\t", b"    "]
BODIES = [b"", b"a", b"a  ", b"a b", b'\\"""', b'x\\"""y \t', b"b\t", b'q"q', b"\\n"]
CLOSERS = [None, b"", b" ", b"  ", b"   ", b"\t"]


def gen_body(rng):
    r = rng.random()
    if r < 0.15:
        return b""
    n = rng.choice([1, 2, 5, 12, 15, 16, 17, 30, 33, 70])
    body = bytearray()
    while len(body) < n:
        x = rng.random()
        if x < 0.08:
            body += b'\\"""'
        elif x < 0.12:
            body += rng.choice([b'"', b'""', b"\\", b"\\\\", b"\\n", b"\\t"])
        elif x < 0.25:
            body += rng.choice([b" ", b"\t", b"  "])
        else:
            body += bytes([rng.choice(b"abcxyz019,;#{}[]()^:'\xc3\xa9\r")])
    body = bytes(body)
    if body[:1] in b" \t":
        body = b"k" + body
    # a raw triple quote would end the block
    while TQ in body.replace(b'\\"""', b"@@@@"):
        body = body.replace(b'\\"""', b"@@@@").replace(TQ, b'"x"').replace(b"@@@@", b'\\"""')
    if rng.random() < 0.3:
        body += rng.choice([b" ", b"  \t", b"\t"])
    return body


def gen_block(rng):
    n = rng.choice([0, 1, 1, 2, 3, 4, 6, 9, 12, 15, 16, 17, 18, 31, 32, 33, 64, 65, 100])  # the reader's line buffer grows at 16, 32, 64 ...
    lines = []
    for i in range(n):
        ind = bytes(rng.choice(b" \t") if rng.random() < 0.15 else 0x20 for _ in range(rng.choice([0, 0, 1, 2, 2, 4, 4, 6, 8, 15, 16, 17, 20])))
        body = gen_body(rng)
        lines.append((ind, body))
    closer = None if rng.random() < 0.4 else b" " * rng.choice([0, 1, 2, 4, 6, 8, 20])
    if closer is None:
        if not lines:
            lines = [(b"  ", b"only")]
        ind, body = lines[-1]
        if not body or body[-1:] in (b"\\", b'"'):
            lines[-1] = (ind, body + b"z")
    return lines, closer


def run(tier):
    rep = C.Report(PID, tier, "proof")
    rng = C.rng(PID)
    lean = U.lean_part(rep, PID)
    found = False
    blocks = []
    shapes = [(i, b) for i in INDENTS for b in BODIES]
    for c in CLOSERS:
        blocks.append(([], c))
        for l1 in shapes:
            blocks.append(([l1], c))
    pairs = list(itertools.product(shapes, repeat=2))
    if tier == "quick":
        pairs = rng.sample(pairs, 600)
    for l1, l2 in pairs:
        for c in CLOSERS:
            blocks.append(([l1, l2], c))
    if tier == "thorough":
        for tr in rng.sample(list(itertools.product(shapes, repeat=3)), 8000):
            blocks.append((list(tr), rng.choice(CLOSERS)))
    for _ in range(1500 if tier == "quick" else 30000):
        blocks.append(gen_block(rng))
    blocks = [(l, c) for l, c in blocks if wf(l, c)]
    for cfg in ("exp", "both"):
        scripts, exps = [], []
        for lines, closer in blocks:
            doc = encode(lines, closer)
            text = expected_text(lines, closer)
            lit = literal_for(rng, text, cfg)
            scripts.append("Q r0=%s r1=%s r2=%s r3=%s sg:0 e:0:1 e:1:0 h:0 h:1 sg:1" % (
                C.hexs(doc + rng.choice([b"", b" ", b"\n1"])), C.hexs(lit), C.hexs(b"#{" + doc + b" " + lit + b"}"),
                C.hexs(b"{" + lit + b" 1 " + doc + b" 2}")))
            exps.append((doc, text, lit))
        # whole-read dumps (ranges, flags) through both sides as well
        rl = K.read_lines([encode(l, c) + b" :after" for l, c in blocks], 0)
        ri, rm, rdiffs, rcr, _ = K.correspond(cfg, rl)
        impl, model, diffs, crashes, mcr = K.correspond(cfg, scripts)
        rep.count("blocks/" + cfg, len(scripts))
        for idx, rc, err in crashes + rcr:
            found = True
            rep.finding("crash", "text block crashed the reader", {"kind": "script", "config": cfg, "line": (scripts + rl)[idx] if idx < len(scripts) else "", "stderr": err[:2000]})
        for i in diffs[:5]:
            rep.broken_obligation("correspondence/script", "model %r vs code %r on %r" % (model[i][:300], impl[i][:300], exps[i][0][:120]), False)
        for i in rdiffs[:5]:
            rep.broken_obligation("correspondence/read", "model %r vs code %r on %r" % (rm[i][:300], ri[i][:300], exps[i][0][:120]), False)
        for i, out in enumerate(impl):
            if out is None:
                continue
            doc, text, lit = exps[i]
            t = out.split("\t")
            rp = {"kind": "script", "config": cfg, "line": scripts[i], "observed": out[:800], "block": doc.decode("latin-1"),
                  "expected_text_hex": text.hex(), "literal": lit.decode("latin-1")}
            if t[0] != "ok" or t[1] != "ok":
                found = True
                rep.finding("block-rejected", "a well-formed block (or its literal) was rejected: %s %s" % (t[0], t[1]), rp)
                continue
            sg0, e01, e10, h0, h1, sg1 = t[4:10]
            prob = []
            if sg0.split(":")[0] != str(len(text)):
                prob.append("length differs: %s, expected %d" % (sg0.split(":")[0], len(text)))
            if sg0 != sg1:
                prob.append("block text differs from the documented algorithm's result")
            if e01 != "1" or e10 != "1":
                prob.append("block not equal to the ordinary literal of the same content")
            if h0 != h1:
                prob.append("block hashes differently from the ordinary literal")
            if t[2] != "err:DUPLICATE_ELEMENT":
                prob.append("block and literal do not collide in a set (%s)" % t[2])
            if t[3] != "err:DUPLICATE_KEY":
                prob.append("block and literal do not collide as map keys (%s)" % t[3])
            if prob:
                found = True
                rep.finding("algorithm/" + "-".join(prob[0].split(":")[0].split("(")[0].split()[:2]), "; ".join(prob), rp)
        rep.note_cases(len(scripts), set(C.sha(d)[:16] for d, _, _ in exps), sample={"block": exps[-1][0][:200].decode("latin-1"), "text": exps[-1][1][:100].decode("latin-1")})
        # malformed blocks: only model agreement and "no value" are demanded
        bad = []
        for lines, closer in blocks[:300]:
            d = encode(lines, closer)
            bad += [d[:-1], d[:-3], d[:5], d[:-3] + b"\n"]
        bl = K.read_lines(bad, 0)
        bi, bm, bdiffs, bcr, _ = K.correspond(cfg, bl)
        rep.count("truncated-blocks/" + cfg, len(bad))
        for idx, rc, err in bcr:
            found = True
            rep.finding("crash", "truncated block crashed the reader", {"kind": "read", "config": cfg, "input_hex": C.hexs(bad[idx]), "stderr": err[:2000]})
        for i in bdiffs[:5]:
            rep.broken_obligation("correspondence/truncated", "model %r vs code %r on %r" % (bm[i][:200], bi[i][:200], bad[i][:100]), False)
    U.finish_proof(rep, lean, found)


def replay(path):
    r = json.load(open(path))
    print(json.dumps(r, indent=1)[:3000])
    exe = C.harness("unity", r["config"], "san")
    if r.get("kind") == "script":
        print("now:", C.run_lines(exe, [r["line"]]).outputs)
    else:
        print("now:", C.run_lines(exe, K.read_lines([bytes.fromhex(r["input_hex"])], 0)).outputs)
    return 0
