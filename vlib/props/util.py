"""Helpers shared by the property checks."""
import re

from .. import common as C

KINDS = "nil|bool|int|bigint|float|bigdec|ratio|bigratio|char|str|sym|kw|list|vec|set|map|tagged|ext"
NODE_RE = re.compile(r"\((%s) (\d+) (\d+)" % KINDS)
ERR_RE = re.compile(r"^err (\S+) msg=(\d) (\d+):(\d+):(\d+) (\d+):(\d+):(\d+)(.*)$")
CALL_RE = re.compile(r"(\w+)@(\d+):(\d+)")

TRUSTED_BASE = [
    "Lean 4.33.0 kernel; axioms allowed: propext, Classical.choice, Quot.sound (audited with #print axioms on every run)",
    "no sorry/admit/native_decide/bv_decide/implemented_by/unsafe (token scan on every run)",
    "hand-written Lean model of src/*.c tied to the code by (a) Tables.lean regenerated from the working tree by harness/extract.c and (b) the correspondence run of this check",
    "statements in lean/Edn/Properties and lean/Edn/Spec are the reading of the English property",
]


def lean_part(rep, pid):
    lean = C.lean_obligations(pid)
    rep.coverage["obligations"] = lean["obligations"]
    rep.coverage["discharged"] = lean["discharged"]
    rep.coverage["checker_cmd"] = "cd lean && lake build Edn.Properties.%s && lake env lean <audit file with #print axioms for: %s>" % (
        pid, ", ".join(lean["theorems"]))
    rep.coverage["trusted_base"] = list(TRUSTED_BASE)
    rep.coverage["axioms"] = lean["axioms"]
    if rep.tier == "thorough" and not lean["failures"]:
        rc, out = C.leanchecker(pid)
        rep.coverage["leanchecker"] = "ok" if rc == 0 else out
        if rc != 0:
            lean["failures"].append("leanchecker rejected Edn.Properties.%s: %s" % (pid, out))
    return lean


def finish_proof(rep, lean, found_input):
    """A broken proof obligation is a violation even without a failing input."""
    from .. import corr as K
    if K.CRASHES and not any("crash" in c or "sanitizer" in c or "signal" in c or "stack-or-hang" in c or "race" in c or "resource" in c or "gcd/" in c
                             for c, _, _ in rep.violations):
        cfg, mode, style, ls, rc, err = K.CRASHES[0]
        head = next((l for l in err.split("\n") if "ERROR" in l or "runtime error" in l or "WARNING: " in l), err.strip().split("\n")[0] if err.strip() else "")
        rep.finding("crash", "the library crashed or a sanitizer reported an error (%s build, exit %s): %s" % (mode, rc, head[:200]),
                    {"kind": "lines", "config": cfg, "mode": mode, "style": style, "lines": ls, "stderr": err})
        found_input = True
    if K.UNSUPPORTED:
        missing = sorted(set(h for cfg in K.UNSUPPORTED for h in C.missing_helpers(cfg)))
        rep.coverage["unsupported_lines"] = dict(K.UNSUPPORTED)
        rep.broken_obligation("helper", "the static helper(s) behind the harness command(s) %s no longer exist in the source with the signature the harness "
                              "calls (renamed, inlined or changed): %d protocol lines of this check could not be run, so this part of the tie between model "
                              "and code is not checked" % (", ".join(missing), sum(K.UNSUPPORTED.values())), False)
    for f in lean["failures"]:
        rep.broken_obligation("lean", f, found_input)
    # correspondence breaks recorded with found_input=False get upgraded when an input was found
    if found_input:
        for i, (cls, desc, replay) in enumerate(rep.violations):
            if isinstance(replay, dict) and replay.get("no_failing_input_found"):
                replay["no_failing_input_found"] = False
                replay["note"] = "a concrete failing input was found by the oracle of this run; see the other replay files"
    rep.finish()


def shift_dump(line, k, doc=None):
    """What an `R` output line becomes when the document is prefixed by k blanks."""
    if line is None:
        return None

    def node(m):
        s, e = int(m.group(2)), int(m.group(3))
        if s == 0 and e == 0:
            return m.group(0)
        return "(%s %d %d" % (m.group(1), s + k, e + k)

    m = ERR_RE.match(line)
    if m:
        code, msg, so, sl, sc, eo, el, ec, rest = m.groups()
        so, sl, sc, eo, el, ec = map(int, (so, sl, sc, eo, el, ec))
        out = "err %s msg=%s %d:%d:%d %d:%d:%d" % (code, msg, so + k, sl, sc + (k if sl == 1 else 0), eo + k, el,
                                                   ec + (k if el == 1 else 0))
        return out + CALL_RE.sub(lambda c: "%s@%d:%d" % (c.group(1), int(c.group(2)) + k, int(c.group(3)) + k), rest)
    line = NODE_RE.sub(node, line)
    if "calls=[" in line:
        head, tail = line.split("calls=[", 1)
        tail = CALL_RE.sub(lambda c: "%s@%d:%d" % (c.group(1), int(c.group(2)) + k, int(c.group(3)) + k), tail)
        line = head + "calls=[" + tail
    return line


def tail_independence(rep, cfg, docs, tails, mode="san", base=None, lines=None):
    """`edn_read(input, length)` must not look at the bytes after `length`: the same documents are read again with
    each of `tails` placed directly after them in memory (harness placement 2); any difference is a finding.
    Returns True when a difference was found."""
    from .. import corr as K
    lines = lines or K.read_lines(docs)
    if base is None:
        base, _ = K.run_impl(cfg, lines, mode=mode)
    found = False
    for tail in tails:
        outs, _ = K.run_impl(cfg, lines, mode=mode, prefix=["P 2 %s" % C.hexs(tail)])
        rep.count("bytes-after-the-input/%s-%s" % (cfg, mode), len(docs))
        n = 0
        for i, (a, b) in enumerate(zip(base, outs)):
            if a is not None and b is not None and a != b:
                found = True
                n += 1
                if n <= 2:
                    rep.finding("bytes-after-the-input", "the result of edn_read(input, length) depends on the bytes after the input: %r followed by %r" % (docs[i][:60], tail[:20]),
                                {"kind": "read", "config": cfg, "mode": mode, "input_hex": C.hexs(docs[i]), "tail_hex": C.hexs(tail), "expected": a, "observed": b})
    return found


def grammar_verdicts(rep, cfg, docs, impl, model, diffs, classes, opt=0):
    """Turns model-vs-library differences on plain reads (no registry) into concrete findings.

    The Lean theorems `reader_accepts_exactly_the_grammar` (Edn.Properties.C03, all four configurations) and
    `ill_formed_document_is_rejected_in_every_configuration` / the class theorems of Edn.Properties.C10 identify the model's verdict on a
    document - accepted with this content, or rejected with this class - with the declarative grammar `Edn.Spec.FormX` of the configuration.
    A document on which the library's verdict differs from the model's is therefore a concrete input on which the property fails, not merely
    a broken correspondence.  `classes` selects which kinds of difference belong to the calling property.  Returns True if something was reported."""
    from .. import corr as K
    if opt & 8:
        return False
    found = False
    seen = set()
    for i in diffs:
        a, m = impl[i] or "", model[i] or ""
        if not a or not m:
            continue
        if m.startswith("err ") and a.startswith("ok "):
            cls = "ill-formed-accepted"
        elif m.startswith("ok ") and a.startswith("err "):
            cls = "well-formed-rejected"
        elif m.startswith("ok ") and a.startswith("ok ") and K.strip_ranges(a) != K.strip_ranges(m):
            cls = "read-differently"
        elif m.startswith("err ") and a.startswith("err ") and m.split(" ")[1:2] != a.split(" ")[1:2]:
            cls = "wrong-error-class"
        else:
            continue
        if cls not in classes or cls in seen:
            continue
        seen.add(cls)
        found = True
        d = docs[i]
        rep.finding("grammar-verdict/" + cls,
                    "by the grammar of this configuration (proved equal to the model's verdict) %r must read as %s; the library answers %s" % (d[:120], m[:120], a[:120]),
                    {"kind": "read", "config": cfg, "opt": opt, "input_hex": C.hexs(d), "expected": m[:2000], "observed": a[:2000]})
    return found
