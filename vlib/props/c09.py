"""C09 - lookup and membership agree with iteration and with the convenience helpers.

Lean: Edn.Properties.C09 (lookup of a value equal to key i yields value i; absent probes
are not found; set membership; the helpers' temporary keys are legal probes).
Correspondence: lookup scripts through the real library and the model.  Oracle: iterate
the real map with the accessors and compare."""
import json

from .. import common as C
from .. import corr as K
from .. import gen as G
from . import util as U
from .c07 import one_leaf_changed

PID = "C09"


def gen_keys(rng, cfg, n):
    keys, seen = [], set()
    tries = 0
    while len(keys) < n and tries < 20 * n + 100:
        tries += 1
        r = rng.random()
        if r < 0.3:
            v = ("kw", (G._ident(rng, 5) if rng.random() < 0.3 else None), G._ident(rng, 8))
        elif r < 0.5:
            v = ("str", G.gen_string_bytes(rng))
        elif r < 0.6:
            v = ("int", rng.randint(-10 ** 6, 10 ** 6))
        else:
            v = G.gen_value(rng, cfg, depth=rng.choice([0, 1, 2]), width=3)
        c = G.canon(v)
        if c in seen:
            continue
        seen.add(c)
        keys.append(v)
    return keys, seen


def twin(rng, v):
    """an equal value in another representation: list <-> vector (also inside), sets and maps reordered"""
    t = v[0]
    if t in ("list", "vec"):
        return ("vec" if t == "list" else "list", [twin(rng, x) if rng.random() < 0.5 else x for x in v[1]])
    if t == "set":
        xs = [twin(rng, x) for x in v[1]]
        rng.shuffle(xs)
        return ("set", xs)
    if t == "map":
        xs = [(twin(rng, k), twin(rng, x)) for k, x in v[1]]
        rng.shuffle(xs)
        return ("map", xs)
    if t == "tagged":
        return ("tagged", v[1], twin(rng, v[2]))
    return v


def run(tier):
    rep = C.Report(PID, tier, "proof")
    rng = C.rng(PID)
    lean = U.lean_part(rep, PID)
    found = False
    sizes = [0, 1, 2, 8, 16, 17, 40] + ([120] if tier == "quick" else [300, 1001, 1500])
    reps = 6 if tier == "quick" else 20
    for cfg in (["core", "both"] if tier == "quick" else ["core", "clj", "exp", "both"]):
        scripts, meta = [], []
        for n in sizes:
            for _ in range(reps if n < 1000 else 1):
                keys, seen = gen_keys(rng, cfg, n)
                vals = [G.gen_value(rng, cfg, depth=1, width=2) for _ in keys]
                m = ("map", list(zip(keys, vals)))
                s = ("set", list(keys))
                mtxt = G.render(rng, m, cfg, rich=False)
                stxt = G.render(rng, s, cfg, rich=False)
                ops = ["r0=%s" % C.hexs(mtxt), "r2=%s" % C.hexs(stxt)]
                checks = []
                idxs = range(len(keys)) if len(keys) <= 60 else sorted(rng.sample(range(len(keys)), 40))
                hist = rng.choice([[], ["h:0"], ["h:0", "h:2"], ["d:0"], ["h:0.0"], "list-keys", "list-keys"])
                if hist == "list-keys":
                    # what a program printing the container does first: fetch every key / element as a string
                    hist = ["sg:0.%d" % (2 * j) for j in range(len(keys))] + ["sg:2.%d" % j for j in range(len(keys))]
                    if len(hist) > 120:
                        hist = hist[:120]
                ops += hist
                for i in idxs:
                    ktxt = G.render(rng, twin(rng, keys[i]) if rng.random() < 0.5 else keys[i], cfg, rich=rng.random() < 0.2)
                    ops += ["r1=%s" % C.hexs(ktxt), "lk:0:1", "ck:0:1", "t:0.%d" % (2 * i + 1), "sc:2:1"]
                    checks.append(("present", i, len(ops) - 5))
                    k = keys[i]
                    if k[0] == "kw" and b"\x00" not in (k[2].encode()):
                        if k[1] is None:
                            ops += ["gk:0:%s" % C.hexs(k[2].encode())]
                        else:
                            ops += ["gn:0:%s:%s" % (C.hexs(k[1].encode()), C.hexs(k[2].encode()))]
                        checks.append(("helper", i, len(ops) - 1))
                    if k[0] == "str" and b"\x00" not in k[1]:
                        ops += ["gs:0:%s" % C.hexs(k[1])]
                        checks.append(("helper", i, len(ops) - 1))
                    # absent probe: one leaf changed
                    ab = one_leaf_changed(rng, k)
                    if ab is not None and G.canon(ab) not in seen:
                        ops += ["r1=%s" % C.hexs(G.render(rng, ab, cfg, rich=False)), "lk:0:1", "ck:0:1", "sc:2:1"]
                        checks.append(("absent", i, len(ops) - 4))
                scripts.append("Q " + " ".join(ops))
                meta.append((checks, mtxt))
        # keys nested up to the reader's limit (the property names nesting <= 64): every level shape that equality descends through - set member, map key,
        # map value, vector / list element, tag - at depths around every plausible recursion budget (50, 64, 100 minus the container's own levels)
        def deep(shape, d, leaf):
            t = leaf
            for lvl in range(d):
                sh = shape if shape != "mixed" else ("set", "mapkey", "vec", "mapval", "list", "tag")[lvl % 6]
                if sh == "set":
                    t = b"#{" + t + b"}"
                elif sh == "mapkey":
                    t = b"{" + t + b" :v}"
                elif sh == "mapval":
                    t = b"{:k " + t + b"}"
                elif sh == "vec":
                    t = b"[" + t + b"]"
                elif sh == "list":
                    t = b"(" + t + b")"
                else:
                    t = b"#t " + t
            return t
        for shape in ("set", "mapkey", "mapval", "vec", "list", "tag", "mixed"):
            for d in ((1, 10, 33, 49, 50, 51, 52, 63, 64, 65, 90, 97) if tier == "quick" else range(1, 98)):
                k0, k1 = deep(shape, d, b"1"), deep(shape, d, b"2")
                mtxt = b"{" + k0 + b" :first " + k1 + b" :second}"
                stxt = b"#{" + k0 + b" " + k1 + b"}"
                for hist in ([], ["h:0", "h:2"]):
                    ops = ["r0=%s" % C.hexs(mtxt), "r2=%s" % C.hexs(stxt)] + hist
                    checks = []
                    for i, kt in enumerate((k0, k1)):
                        ops += ["r1=%s" % C.hexs(kt), "lk:0:1", "ck:0:1", "t:0.%d" % (2 * i + 1), "sc:2:1"]
                        checks.append(("present", i, len(ops) - 5))
                    ab = deep(shape, d, b"3")
                    ops += ["r1=%s" % C.hexs(ab), "lk:0:1", "ck:0:1", "sc:2:1"]
                    checks.append(("absent", 0, len(ops) - 4))
                    scripts.append("Q " + " ".join(ops))
                    meta.append((checks, mtxt))
                    rep.count("deep-keys/%s/%s" % (shape, cfg))
        # strings whose escapes cannot be decoded in this configuration are compared by their raw text: different texts stay different
        raws = [b"\"C:\\work\"", b"\"D:\\data\"", b"\"D:\\data\\x\"", b"\"\\q\"", b"\"\\q1\"", b"\"a\\zb\"", b"\"\\\"", b"\"ok\""]
        raws = [r_ for r_ in raws if r_ != b"\"\\\""]
        for i, kx in enumerate(raws):
            others = [r_ for r_ in raws if r_ != kx][:3]
            mdoc = b"{" + kx + b" 1 " + others[0] + b" 2 :other 3}"
            sdoc = b"#{" + kx + b" " + others[0] + b" :k}"
            ops = ["r0=%s" % C.hexs(mdoc), "r2=%s" % C.hexs(sdoc), "r1=%s" % C.hexs(kx), "lk:0:1", "ck:0:1", "t:0.1", "sc:2:1"]
            chk = [("present", 0, 2)]
            for ab in others[1:]:
                ops += ["r1=%s" % C.hexs(ab), "lk:0:1", "ck:0:1", "sc:2:1"]
                chk.append(("absent", 0, len(ops) - 4))
            scripts.append("Q " + " ".join(ops))
            meta.append((chk, mdoc))
        # keys with a second spelling, or whose reading could depend on where they stand (multi-slash identifiers, identifiers
        # longer than a vector block, underscore-grouped big numbers, radix / ratio spellings): the key inside a container
        # below / above the 16-entry cut-over (where key hashes get cached), probed with the other spelling read on its own
        # and with one taken out of another container (so that the probe's hash is cached too)
        sp = [(b":http/get/users", b":http/get/users"), (b"a/b/c", b"a/b/c"), (b"clojure.core//", b"clojure.core//"), (b":user/id", b":user/id"),
              (b":abcdefghijklmnopqrstuvwx/yz", b":abcdefghijklmnopqrstuvwx/yz"), (b"abcdefghijklmno/p/q", b"abcdefghijklmno/p/q"),
              (b"12345678901234567890N", b"12345678901234567890N"), (b"1.50M", b"1.50M"), (b"\"a\\tb\"", b"\"a\tb\"")]
        if cfg in ("exp", "both"):
            sp += [(b"1_000_000_000_000_000_000_000N", b"1000000000000000000000N"), (b"3.141_592_653_589_793_238_46M", b"3.14159265358979323846M"),
                   (b"1_0", b"10"), (b"1000000000000000000000N", b"1_000_000_000_000_000_000_000N")]
        if cfg in ("clj", "both"):
            sp += [(b"0x1F", b"31"), (b"4/2", b"2"), (b"2/4", b"1/2"), (b"017", b"15"), (b"2r101", b"5"), (b"36rZ", b"35")]
        for kx, px in sp:
            for nfill in (2, 16, 19):
                for where in (0, nfill // 2, nfill):
                    fl = [b":filler%d" % i for i in range(nfill)]
                    ks = fl[:where] + [kx] + fl[where:]
                    mdoc = b"{" + b" ".join(k + b" " + (b"777" if k == kx else b"0") for k in ks) + b"}"
                    sdoc = b"#{" + b" ".join(ks) + b"}"
                    pdoc = b"#{" + px + b" " + b" ".join(b"p%d" % i for i in range(18)) + b"}"
                    ops = ["r0=%s" % C.hexs(mdoc), "r2=%s" % C.hexs(sdoc), "r1=%s" % C.hexs(px), "lk:0:1", "ck:0:1", "t:0.%d" % (2 * where + 1), "sc:2:1",
                           "r3=%s" % C.hexs(pdoc), "lk:0:3.0", "ck:0:3.0", "t:0.%d" % (2 * where + 1), "sc:2:3.0",
                           "h:1", "r1=%s" % C.hexs(px), "lk:0:1", "ck:0:1", "t:0.%d" % (2 * where + 1), "sc:2:1"]
                    scripts.append("Q " + " ".join(ops))
                    meta.append(([("present", where, 2), ("present", where, 7), ("present", where, 13)], mdoc))
        # Clojure flag: lookups in a metadata map merged from several annotations (its keys never went through the
        # duplicate check, so none of them carries a cached hash) agree with iteration, below and above 16 entries
        if cfg in ("clj", "both"):
            for na, nb in ((3, 3), (8, 8), (9, 9), (12, 7)):
                a1 = b"{" + b" ".join(b":a%d %d" % (i, i) for i in range(na)) + b"}"
                b1 = b"{" + b" ".join(b":b%d %d" % (i, 100 + i) for i in range(nb)) + b"}"
                doc = b"^" + a1 + b" ^" + b1 + b" [1 2 3]"
                ops = ["r0=%s" % C.hexs(doc)]
                chk = []
                for j in range(na + nb):
                    key = (b":a%d" % j) if j < na else (b":b%d" % (j - na))
                    ops += ["r1=%s" % C.hexs(key), "lk:0.m:1", "ck:0.m:1", "t:0.m.%d" % (2 * j + 1), "ck:0.m:1"]
                    chk.append(("present-meta", j, len(ops) - 5))
                    ops += ["gk:0.m:%s" % C.hexs(key[1:])]
                    chk.append(("helper-meta", j, len(ops) - 1))
                scripts.append("Q " + " ".join(ops))
                meta.append((chk, doc))
        impl, model, diffs, crashes, mcr = K.correspond(cfg, scripts)
        rep.count("scripts/" + cfg, len(scripts))
        for idx, rc, err in crashes:
            found = True
            rep.finding("crash", "lookup script crashed", {"kind": "script", "config": cfg, "line": scripts[idx][:20000], "stderr": err[:3000]})
        for i in diffs[:5]:
            rep.broken_obligation("correspondence/script", "model and code differ on a lookup script (map %s)" % meta[i][1][:200], False)
        nq = 0
        for i, out in enumerate(impl):
            if out is None:
                continue
            toks = out.split("\t")
            if toks[0] != "ok" or (len(toks) > 1 and toks[1].startswith("err")):
                continue
            for kind, ki, pos in meta[i][0]:
                nq += 1
                if kind == "present-meta":
                    rd, lk, ck, tv, ck2 = toks[pos:pos + 5]
                    if rd != "ok" or lk != tv or ck != "1" or ck2 != "1":
                        found = True
                        rep.finding("present-key", "lookup of key %d in merged metadata gave %s (contains %s/%s), the value at that index is %s" % (ki, lk[:60], ck, ck2, tv[:60]),
                                    {"kind": "script", "config": cfg, "line": scripts[i][:20000], "index": ki})
                        break
                    continue
                if kind == "helper-meta":
                    tv = None
                    for k2, ki2, pos2 in meta[i][0]:
                        if k2 == "present-meta" and ki2 == ki:
                            tv = toks[pos2 + 3]
                    if toks[pos] != tv:
                        found = True
                        rep.finding("helper", "keyword helper on merged metadata for key %d gave %s, iteration gives %s" % (ki, toks[pos][:60], (tv or "")[:60]),
                                    {"kind": "script", "config": cfg, "line": scripts[i][:20000], "index": ki})
                        break
                    continue
                if kind == "present":
                    rd, lk, ck, tv, sc = toks[pos:pos + 5]
                    if rd != "ok" or lk != tv or ck != "1" or sc != "1":
                        found = True
                        rep.finding("present-key", "lookup of a copy of key %d gave %s (contains %s, set-contains %s), the value at that index is %s" % (ki, lk[:60], ck, sc, tv[:60]),
                                    {"kind": "script", "config": cfg, "line": scripts[i][:20000], "index": ki})
                        break
                elif kind == "helper":
                    # compare with the value at index ki (printed just before by t:)
                    # find the preceding present check
                    tv = None
                    for k2, ki2, pos2 in meta[i][0]:
                        if k2 == "present" and ki2 == ki:
                            tv = toks[pos2 + 3]
                    if toks[pos] != tv:
                        found = True
                        rep.finding("helper", "convenience lookup for key %d gave %s, general lookup gives %s" % (ki, toks[pos][:60], (tv or "")[:60]),
                                    {"kind": "script", "config": cfg, "line": scripts[i][:20000], "index": ki})
                        break
                else:
                    rd, lk, ck, sc = toks[pos:pos + 4]
                    if rd == "ok" and (lk != "none" or ck != "0" or sc != "0"):
                        found = True
                        rep.finding("absent-key", "a probe equal to no key was found: %s %s %s" % (lk[:60], ck, sc),
                                    {"kind": "script", "config": cfg, "line": scripts[i][:20000], "index": ki})
                        break
        rep.count("queries/" + cfg, nq)
        rep.note_cases(nq, set(C.sha(s + str(j))[:16] for s, m in zip(scripts, meta) for j in range(len(m[0]))), sample={"script": scripts[3][:400], "result": (impl[3] or "")[:300]})
    U.finish_proof(rep, lean, found)


def replay(path):
    r = json.load(open(path))
    print(json.dumps(r, indent=1)[:2000])
    exe = C.harness("unity", r["config"], "san")
    out = C.run_lines(exe, [r["line"]])
    print("now:", (out.outputs or [""])[0][:2000])
    return 0
