"""C04 - integer, big-number and ratio literals denote exactly their mathematical value.

Lean: Edn.Properties.C04 (SWAR test and value for all 8-byte blocks, parse_int64 exact for
every digit string / radix / sign, ratio gcd exact).  Correspondence: direct calls of the
static helpers and whole literals through the reader, real code vs model.  Oracle: Python
big integers and Fraction."""
import json
from fractions import Fraction

from .. import common as C
from .. import corr as K
from . import util as U

PID = "C04"
DIGS = "0123456789abcdefghijklmnopqrstuvwxyz"


def to_radix(n, r):
    if n == 0:
        return "0"
    s = ""
    while n:
        s = DIGS[n % r] + s
        n //= r
    return s


def i64_expect(value, neg):
    v = -value if neg else value
    if -2 ** 63 <= v <= 2 ** 63 - 1:
        return "some %d" % v
    return "none"


def helper_cases(tier, rng, exp):
    out = []  # (line, expected)
    # parse_int64: neighbourhood of 2^63 for every radix, every digit count around block edges
    for radix in range(2, 37):
        for base in (2 ** 63, 2 ** 64, 2 ** 62, radix ** 5):
            for delta in range(-3, 4):
                v = base + delta
                if v < 0:
                    continue
                for neg in (0, 1):
                    s = to_radix(v, radix)
                    if rng.random() < 0.5:
                        s = s.upper()
                    out.append(("N i64 %d %d %s" % (radix, neg, C.hexs(s.encode())), i64_expect(v, neg)))
    # leading zeros leave the value alone but move the 8-digit block boundaries: every padding that changes the
    # number of blocks, around every limit (radix 10 all paddings up to 3 blocks; other radixes a sample)
    for radix in (10, 2, 8, 16, 36, rng.randint(3, 35)):
        for base in (2 ** 63, 2 ** 64, 10 ** 18, 2 ** 63 // radix):
            for delta in (-2, -1, 0, 1, 2, 91):
                v = base + delta
                s0 = to_radix(v, radix)
                for pad in (range(1, 25) if radix == 10 else (1, 5, 8, 13, 16)):
                    for neg in (0, 1):
                        out.append(("N i64 %d %d %s" % (radix, neg, C.hexs(("0" * pad + s0).encode())), i64_expect(v, neg)))
    for nd in list(range(1, 41)):
        for lead in ("1", "9", "0"):
            for _ in range(2):
                s = lead + "".join(rng.choice("0123456789") for _ in range(nd - 1))
                for neg in (0, 1):
                    out.append(("N i64 10 %d %s" % (neg, C.hexs(s.encode())), i64_expect(int(s), neg)))
    if exp:
        for _ in range(300):
            nd = rng.randint(2, 30)
            s = rng.choice("123456789") + "".join(rng.choice("0123456789") for _ in range(nd - 1))
            # underscores between digits
            t = ""
            for ch in s:
                t += ch
                if rng.random() < 0.25:
                    t += "_" * rng.randint(1, 2)
            t = t.rstrip("_")
            out.append(("N i64 10 0 %s" % C.hexs(t.encode()), i64_expect(int(s), 0)))
    # SWAR block converter
    nblocks = 20000 if tier == "quick" else 1000000
    for _ in range(nblocks):
        v = rng.randrange(10 ** 8)
        s = "%08d" % v
        out.append(("N d8 %s" % C.hexs(s.encode()), "1 %d" % v))
    for v in (0, 1, 9, 10, 99999999, 12345678, 90000000, 9999999, 10000000):
        out.append(("N d8 %s" % C.hexs(("%08d" % v).encode()), "1 %d" % v))
    # non-digit bytes in every lane: the test must refuse (value irrelevant)
    for lane in range(8):
        for b in list(range(0, 0x30)) + list(range(0x3A, 256)):
            blk = bytearray(b"12345678")
            blk[lane] = b
            out.append(("N d8 %s" % C.hexs(bytes(blk)), "0"))
    return out


def literal_cases(tier, rng, cfg):
    """(doc, expected dump without ranges)"""
    clj = cfg in ("clj", "both")
    exp = cfg in ("exp", "both")
    out = []

    def add_int(text, value, neg_digits=None):
        if -2 ** 63 <= value <= 2 ** 63 - 1:
            out.append((text, "(int %d)" % value))
        else:
            out.append((text, None))  # big: checked structurally below

    n = 300 if tier == "quick" else 3000
    for _ in range(n):
        mag = rng.choice([rng.randrange(10 ** rng.randint(1, 40)), 2 ** 63 + rng.randint(-2, 2), 2 ** 63 + rng.randint(-2, 100), 2 ** 64 + rng.randint(-2, 2), 10 ** 8 * rng.randint(1, 10 ** 10)])
        sign = rng.choice(["", "-", "+"])
        digs = str(mag)
        v = -mag if sign == "-" else mag
        if -2 ** 63 <= v <= 2 ** 63 - 1:
            out.append(((sign + digs).encode(), "(int %d)" % v))
        else:
            out.append(((sign + digs).encode(), "(bigint %d 10 %s)" % (1 if sign == "-" else 0, C.hexs(digs.encode()))))
        out.append(((sign + digs + "N").encode(), "(bigint %d 10 %s)" % (1 if sign == "-" else 0, C.hexs(digs.encode()))))
        out.append(((sign + digs + "M").encode(), "(bigdec %d %s)" % (1 if sign == "-" else 0, C.hexs(digs.encode()))))
        if exp and len(digs) > 1:
            t = "_".join([digs[: len(digs) // 2], digs[len(digs) // 2:]])
            if -2 ** 63 <= v <= 2 ** 63 - 1:
                out.append(((sign + t).encode(), "(int %d)" % v))
            else:
                out.append(((sign + t).encode(), "(bigint %d 10 %s)" % (1 if sign == "-" else 0, C.hexs(digs.encode()))))
        if clj:
            r = rng.randint(2, 36)
            rd = to_radix(mag, r)
            if -2 ** 63 <= v <= 2 ** 63 - 1:
                out.append(((sign + "%dr%s" % (r, rd)).encode(), "(int %d)" % v))
                out.append(((sign + "0x" + to_radix(mag, 16)).encode(), "(int %d)" % v))
                if mag > 0:
                    out.append(((sign + "0" + to_radix(mag, 8)).encode(), "(int %d)" % v))
            else:
                out.append(((sign + "%dr%s" % (r, rd)).encode(), "(bigint %d %d %s)" % (1 if sign == "-" else 0, r, C.hexs(rd.encode()))))
            # zero-padded digit strings after a radix / hex prefix (leading zeros are legal there and shift the
            # 8-digit blocks); a big integer keeps the literal's digits, zeros included
            pad = "0" * rng.choice([1, 2, 5, 8 - len(rd) % 8, 16 - len(rd) % 8, 13])
            for pre, rr, dd in (("%dr" % r, r, pad + rd), ("10r", 10, pad + digs), ("0x", 16, pad + to_radix(mag, 16))):
                if -2 ** 63 <= v <= 2 ** 63 - 1:
                    out.append(((sign + pre + dd).encode(), "(int %d)" % v))
                else:
                    out.append(((sign + pre + dd).encode(), None))  # which zeros a big integer keeps: model only
            # ratios
            den = rng.choice([1, 2, 3, rng.randint(1, 10 ** 6), 2 ** 63 - 1, 2 ** 63, rng.randrange(1, 10 ** 25)])
            num_ok = -2 ** 63 <= v <= 2 ** 63 - 1
            den_ok = den <= 2 ** 63 - 1
            text = (sign + digs + "/" + str(den)).encode()
            if mag == 0 and digs == "0":
                out.append((text, "(int 0)"))
            elif num_ok and den_ok:
                f = Fraction(v, den)
                if f.denominator == 1:
                    out.append((text, "(int %d)" % f.numerator))
                else:
                    out.append((text, "(ratio %d %d)" % (f.numerator, f.denominator)))
            elif den_ok and den == 1:
                out.append((text, "(bigint %d 10 %s)" % (1 if sign == "-" else 0, C.hexs(digs.encode()))))
            else:
                out.append((text, "(bigratio %d %s %s)" % (1 if sign == "-" else 0, C.hexs(digs.encode()), C.hexs(str(den).encode()))))
    if clj:
        for a in (-2 ** 63, 2 ** 63 - 1, -2 ** 63 + 1, 0, 1, -1, 2 ** 62, -2 ** 62, 6, -6):
            for b in (1, 2, 3, 4, 2 ** 63 - 1, 2 ** 62, 6, 9):
                if a == 0:
                    out.append((("%d/%d" % (a, b)).encode(), "(int 0)"))
                    continue
                f = Fraction(a, b)
                out.append((("%d/%d" % (a, b)).encode(), "(int %d)" % f.numerator if f.denominator == 1 else "(ratio %d %d)" % (f.numerator, f.denominator)))
    return out


def big_item(rng, kind, clen, exp):
    """One big-number literal whose digit text (what the accessor must return: no sign, no suffix, no underscores) has
    exactly `clen` bytes.  kind 'N' = N-suffixed integer, 'I' = integer too large for int64 (clen >= 20), 'M' = M-suffixed
    decimal (digits, optionally a point and / or an exponent).  With `exp` underscores are put between digits.
    Returns (literal text, expected dump without ranges)."""
    d = lambda n: "".join(rng.choice("0123456789") for _ in range(n))
    nz = lambda: rng.choice("123456789")
    if kind in ("N", "I") or clen < 3:
        text = nz() + d(clen - 1)
    else:
        shape = rng.choice(["digits", "point", "point", "exp", "point-exp"])
        if shape == "point-exp" and clen < 6:
            shape = "point"
        if shape == "digits":
            text = nz() + d(clen - 1)
        elif shape == "point":
            p = rng.randint(1, clen - 2)
            text = nz() + d(p - 1) + "." + d(clen - 1 - p)
        elif shape == "exp":
            es = rng.choice(["", "", "-", "+"]) if clen >= 4 else ""
            ne = rng.randint(1, min(3, clen - 2 - len(es)))
            text = nz() + d(clen - 2 - len(es) - ne) + "e" + es + nz() + d(ne - 1)
        else:
            ne = rng.randint(1, min(2, clen - 5))
            p = rng.randint(1, clen - 3 - ne)
            text = nz() + d(p - 1) + "." + d(clen - 2 - ne - p) + "e" + nz() + d(ne - 1)
    assert len(text) == clen, (kind, clen, text)
    lit = text
    if exp and rng.random() < 0.85:
        gaps = [i for i in range(1, len(text)) if text[i - 1].isdigit() and text[i].isdigit()]
        if gaps:
            cut = sorted(rng.sample(gaps, min(len(gaps), rng.choice([1, 1, 2, 3, 5]))), reverse=True)
            for i in cut:
                lit = lit[:i] + rng.choice(["_", "_", "__"]) + lit[i:]
    sign = rng.choice(["", "", "-", "+"])
    neg = 1 if sign == "-" else 0
    if kind == "M":
        return sign + lit + "M", "(bigdec %d %s)" % (neg, C.hexs(text.encode()))
    return sign + lit + ("N" if kind == "N" else ""), "(bigint %d 10 %s)" % (neg, C.hexs(text.encode()))


def interleaved_accessor_scripts(tier, rng, cfg):
    """Several big numbers (and strings with escapes, whose decoded copies live in the same arena) of ONE document, digit
    texts of every length 1..40 (every residue modulo the arena's rounding) plus a few beyond the arena's block size;
    every value is fetched, then every value again in another order (each one after all the others were materialised),
    then once more after hashing the document.  Every answer must be the literal's digit text with its exact length.
    Returns [(script line, [expected field or None])]."""
    exp = cfg in ("exp", "both")
    pool = [("N", n) for n in range(1, 41)] + [("M", n) for n in range(1, 41)] + [("I", n) for n in range(20, 41)]
    pool += [(k, n) for k in ("N", "M") for n in (8, 16, 24, 32, 40, 48, 56, 63, 64, 65, 72, 255, 256, 1000, 4088, 4096, 5000)]
    reps = 1 if tier == "quick" else 12
    out = []
    for rep_i in range(reps):
        items = list(pool)
        rng.shuffle(items)
        # members of one residue class side by side as well as mixed ones
        items += sorted(pool[:80], key=lambda kn: (kn[1] % 8, rng.random()))
        for at in range(0, len(items), 8):
            chunk = items[at:at + 8]
            elems = []  # (text, op, expected)
            for kind, n in chunk:
                lit, want = big_item(rng, kind, n, exp)
                elems.append((lit, "t", want))
            for j in range(rng.randint(0, 2)):
                body = "s%d" % rng.randrange(10 ** rng.randint(0, 9))
                elems.insert(rng.randint(0, len(elems)), ('"%s\\n"' % body, "sg", "%d:%s" % (len(body) + 1, C.hexs((body + "\n").encode()))))
            doc = ("[" + " ".join(e[0] for e in elems) + "]").encode()
            idx = list(range(len(elems)))
            second = list(reversed(idx)) if (at // 8) % 2 == 0 else rng.sample(idx, len(idx))
            star = [x for i in idx[1:] for x in (idx[0], i)] + [idx[0]]
            order = ([None] if (at // 8) % 3 == 2 else []) + idx + second + [None] + (star if rng.random() < 0.5 else idx)
            ops, wants = ["r0=%s" % C.hexs(doc)], ["ok"]
            for i in order:
                if i is None:
                    ops.append("h:0")
                    wants.append(None)
                else:
                    ops.append("%s:0.%d" % (elems[i][1], i))
                    wants.append(elems[i][2])
            out.append(("Q " + " ".join(ops), wants, doc))
    return out


def run(tier):
    rep = C.Report(PID, tier, "proof")
    rng = C.rng(PID)
    lean = U.lean_part(rep, PID)
    found = False
    for cfg in ("core", "clj", "exp", "both"):
        exp = cfg in ("exp", "both")
        hc = helper_cases(tier if cfg == "core" else "quick", rng, exp)
        if cfg in ("clj", "both"):
            for a in (-2 ** 63, -2 ** 63 + 1, 2 ** 63 - 1, 0, 1, -1, 2, 2 ** 62, 12, -18, 10 ** 18, 3 ** 39):
                for b in (1, 2, 3, 2 ** 63 - 1, 2 ** 62, 18, 5 ** 27, 2 ** 40 * 3 ** 10):  # the reader never passes a zero denominator
                    import math
                    hc.append(("N gcd %d %d" % (a, b), str(math.gcd(a, b))))
            for _ in range(2000):
                a = rng.randint(-2 ** 63, 2 ** 63 - 1)
                b = rng.randint(1, 2 ** 63 - 1)
                g = rng.choice([1, 2, 3, 2 ** rng.randint(0, 30), rng.randint(1, 10 ** 6)])
                a2, b2 = (a // g) * g, max(1, (b // g) * g)
                import math
                hc.append(("N gcd %d %d" % (a2, b2), str(math.gcd(a2, b2))))
        lines = [l for l, _ in hc]
        impl, model, diffs, crashes, mcr = K.correspond(cfg, lines, project=lambda s: s if not (s or "").startswith("0 ") else "0")
        rep.count("helper-calls/" + cfg, len(lines))
        for idx, rc, err in crashes:
            found = True
            rep.finding("helper-crash", "number helper crashed or sanitizer report", {"kind": "line", "config": cfg, "line": lines[idx], "stderr": err[:3000]})
        for i, (a, (l, e)) in enumerate(zip(impl, hc)):
            if a is None:
                continue
            a2 = "0" if (e == "0" and a.startswith("0 ")) else a
            if a2 != e:
                found = True
                rep.finding("helper/" + l.split()[1], "number helper result %r, mathematical value %r" % (a, e),
                            {"kind": "line", "config": cfg, "line": l, "expected": e, "observed": a})
        for i in diffs[:5]:
            rep.broken_obligation("correspondence/helper", "model %r vs code %r on %s" % (model[i], impl[i], lines[i]), False)
        rep.note_cases(len(lines), set(C.sha(l)[:16] for l in lines), sample={"line": lines[7], "expected": hc[7][1]})

        # big numbers are materialised lazily (digits cleaned of underscores): the accessor gives the same digits and length
        # on every call, before and after hashing
        bl = [b"123456789012345678901234567890", b"-42N", b"3.14159M", b"1e5M"]
        if cfg in ("exp", "both"):
            bl += [b"-1_000_000_000_000_000_000_000N", b"9_223_372_036_854_775_808", b"1_000.000_1M", b"1_0N", b"1__0N", b"1_2_3_4_5_6_7_8_9_0_1_2_3_4_5_6_7_8_9_0_1"]
        bscripts = ["Q r0=%s t:0 t:0 h:0 t:0 e:0:0 t:0" % C.hexs(b) for b in bl] + ["Q r0=%s r1=%s t:0.0 t:0.1 t:0.0 e:0.0:1.0 h:0 t:0.0 t:0.1" % (C.hexs(b"[" + b + b" " + b + b"]"), C.hexs(b"[" + b + b"]")) for b in bl]
        bi, bm, bd, bcr, _ = K.correspond(cfg, bscripts)
        rep.count("accessor-repeats/" + cfg, len(bscripts))
        for i in bd[:3]:
            rep.broken_obligation("correspondence/accessor-repeat", "model %r vs code %r" % (bm[i], bi[i]), False)
        for i, a in enumerate(bi):
            if a is None:
                continue
            t = a.split("\t")
            dumps = [x for x in t if x.startswith("(big") or x.startswith("(int") or x.startswith("(float")]
            if len(set(dumps)) > 1:
                found = True
                rep.finding("accessor/unstable", "a big number reads differently on a later accessor call: %s" % sorted(set(dumps))[:2],
                            {"kind": "line", "config": cfg, "line": bscripts[i], "observed": a[:600]})

        # interleaved accessor sequences over many big numbers of one document
        ia = interleaved_accessor_scripts(tier, C.rng(PID + "/interleaved/" + cfg), cfg)
        ilines = [l for l, _, _ in ia]
        ii, im, idf, icr, _ = K.correspond(cfg, ilines)
        rep.count("accessor-interleaved-scripts/" + cfg, len(ilines))
        rep.count("accessor-interleaved-fetches/" + cfg, sum(len(w) - 2 for _, w, _ in ia))
        for idx, rc, err in icr:
            found = True
            rep.finding("accessor-crash", "fetching the big numbers of a document crashed or a sanitizer reported", {"kind": "line", "config": cfg, "line": ilines[idx], "stderr": err[:3000]})
        for i in idf[:3]:
            rep.broken_obligation("correspondence/accessor-interleaved", "model %r vs code %r" % ((im[i] or "")[:300], (ii[i] or "")[:300]), False)
        for a, (line, wants, doc) in zip(ii, ia):
            if a is None:
                continue
            got = a.split("\t")
            bad = [k for k, w in enumerate(wants) if w is not None and (k >= len(got) or got[k] != w)]
            if bad:
                found = True
                k = bad[0]
                op = line.split(" ")[1 + k]
                rep.finding("accessor/interleaved", "document %s: operation %d (%s, after %d other accessor calls on the same document) answered %s, the literal denotes %s"
                            % (doc[:200].decode(), k, op, k - 1, (got[k] if k < len(got) else "nothing")[:200], wants[k][:200]),
                            {"kind": "line", "config": cfg, "line": line, "document": doc.decode(), "operation_index": k, "operation": op,
                             "expected": "\t".join(w if w is not None else "*" for w in wants), "observed": a})
        # the same sequences with ONE direct accessor call per step (`bg:`; the dump behind `t:` audits every accessor of the node
        # first, so it never shows what the very first edn_bigint_get / edn_bigdec_get call on a value answers); real library only
        blines = [l.replace(" t:", " bg:") for l in ilines]
        bo, bcr2 = K.run_impl(cfg, blines)
        rep.count("accessor-interleaved-direct-scripts/" + cfg, len(blines))
        for idx, rc, err in bcr2:
            found = True
            rep.finding("accessor-crash", "fetching the big numbers of a document crashed or a sanitizer reported", {"kind": "line", "config": cfg, "line": blines[idx], "stderr": err[:3000]})
        for a, bline, (line, wants, doc) in zip(bo, blines, ia):
            if a is None:
                continue
            got = a.split("\t")
            bad = [k for k, w in enumerate(wants) if w is not None and (k >= len(got) or got[k] != w)]
            if bad:
                found = True
                k = bad[0]
                op = bline.split(" ")[1 + k]
                nth = sum(1 for o in bline.split(" ")[1:1 + k] if o == op) + 1
                rep.finding("accessor/direct", "document %s: operation %d (%s = accessor call number %d on that value) answered %s, the literal denotes %s"
                            % (doc[:200].decode(), k, op, nth, (got[k] if k < len(got) else "nothing")[:200], wants[k][:200]),
                            {"kind": "line", "config": cfg, "line": bline, "document": doc.decode(), "operation_index": k, "operation": op,
                             "expected": "\t".join(w if w is not None else "*" for w in wants), "observed": a})
        rep.note_cases(len(ilines) + len(blines), set(C.sha(l)[:16] for l in ilines + blines), sample={"line": ilines[0][:300]})

        lits = literal_cases(tier, rng, cfg)
        docs = [d for d, _ in lits]
        rl = K.read_lines(docs)
        impl, model, diffs, crashes, mcr = K.correspond(cfg, rl)
        rep.count("literals/" + cfg, len(docs))
        for idx, rc, err in crashes:
            found = True
            rep.finding("literal-crash", "reading a number literal crashed", {"kind": "read", "config": cfg, "input_hex": C.hexs(docs[idx]), "stderr": err[:3000]})
        for i, (a, (d, e)) in enumerate(zip(impl, lits)):
            if a is None or e is None:
                continue
            got = K.strip_ranges(a)
            if got != "ok " + e:
                found = True
                rep.finding("literal", "literal %r read as %s, denotes %s" % (d, got[:100], e[:100]),
                            {"kind": "read", "config": cfg, "input_hex": C.hexs(d), "expected": "ok " + e, "observed": got})
        for i in diffs[:5]:
            rep.broken_obligation("correspondence/read", "model %r vs code %r on %r" % (model[i], impl[i], docs[i]), False)
        rep.note_cases(len(docs), set(C.sha(d)[:16] for d in docs), sample={"doc": docs[3].decode(), "expected": lits[3][1]})
    U.finish_proof(rep, lean, found)


def replay(path):
    r = json.load(open(path))
    print(json.dumps(r, indent=1)[:2000])
    exe = C.harness("unity", r["config"], "san")
    line = r["line"] if r.get("kind") == "line" else K.read_lines([bytes.fromhex(r["input_hex"])])[0]
    out = C.run_lines(exe, [line])
    print("now:", out.outputs, "| expected:", r.get("expected"))
    return 0
