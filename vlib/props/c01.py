"""C01 - no out-of-bounds access or undefined behaviour on any input bytes.

Lean: Edn.Properties.C01 (every fixed-width accumulator of the number reader stays in range; the
result of the integer parser fits int64 incl. the negation of 2^63; every range stored in a
tree lies inside the input).  The model reads its input only through total list operations on
the bytes given, so it cannot depend on memory outside input[0, length) by construction; that
the C code does not either is *monitored*, not proved: the same documents run (a) in the
ASan+UBSan -O1 build and in the clang MemorySanitizer build with the input in an exact-size heap block, (b) in the -O2 -msse4.2 build
with the last input byte flush against a PROT_NONE page and the input pages read-only, at every
start phase mod 16, followed by accessor / equality / hash / lookup scripts on the returned
tree; outputs of (a), (b) and the model must be identical.

Two further families run in the same three builds (harness command K and the script tokens o<K>= xr xu xq; oracles on the
real library, the model answers the corresponding plain `R 8` lines):
* tag handlers that *work* while the read is in flight - every accessor on the operand (strings are materialised while
  the arena is still being allocated from), arena allocations of assorted sizes written through typed pointers,
  edn_external_create, optionally hash / equality - under every default-reader mode, with and without an end-of-input
  value, on complete and truncated documents; the result must be what the plain handlers give, every node of the returned
  tree and every record the handlers allocate must lie at an address suitable for its type, and what the handlers wrote into
  their own allocations must still be there afterwards;
* the external-type table changed under live values: register / re-register / unregister (first, middle, last entry,
  unknown id, twice) interleaved with equality, hash, lookup, membership, duplicate detection and further reads on
  external values of several types; besides the sanitizers, the three builds must agree, and values read after a history of
  table operations must behave exactly like values read under a freshly built table with the same entries."""
import json
import re
import time

from .. import common as C
from .. import corr as K
from .. import gen as G
from . import util as U

PID = "C01"

SCRIPT_TAIL = "h:0 e:0:1 e:1:0 t:0 sg:0 sg:0.0 sg:0.1 lk:0:0.0 ck:0:1.0 sc:0:0.0 d:0 h:0.0 e:0.0:1.0 gk:0:61 gs:0:61 se:0:61 h:0.m t:0.m"


def nasty_docs(rng):
    out = [b"\x00", b"a\x00b", b"\"a\x00b\"", b"[1 \x00 2]", b"\xff\xfe", b"\"\xc3\"", b"\\\xe2\x82", b":\xf0\x9f", b"#\xc3\xa9 1", b"\"\\u12",
           b"\\u00", b"\\", b"#", b"##", b"##I", b"##Na", b"##-In", b"\\newlin", b"\\spac", b"\\formfee", b"\\o37", b"\\o", b"1e", b"1e+", b"1.", b"-",
           b"+", b"0x", b"0x1", b"36r", b"36rZ", b"1/", b"1_", b"1_0", b"0xA_", b"0x1F_", b"07_", b"017_", b"2r1_", b"36rZ_", b"1_0_", b"1.5_", b"1e5_", b"1_N", b"0x_1", b"1/2_", b"9223372036854775807", b"-9223372036854775808", b"9223372036854775808",
           b"-9223372036854775809", b"99999999999999999999999999999999", b"99999999999999999999r1", b"2147483648r1", b"4294967296r0", b"0000000000000000000000036rZ", b"1e400", b"1e-400", b"0." + b"0" * 40 + b"1", b"1" * 18 + b"." + b"9" * 30,
           b"\"\"\"\n", b"\"\"\"\n a", b"\"\"\"\n a\n", b"\"\"\"\n  \\\"\"\"", b"#_", b"#_ ", b"^", b"^:a", b"#:", b"#:a", b"#:a{", b"{", b"#{", b"(", b"[",
           b"\"", b"\"\\", b"\"abc", b";", b"; x", b"#t", b"#t ", b"#inst \"x", b"a/", b"/a", b"a/b/c", b":", b"::", b":a/", b"[" * 120, b"#_" * 60 + b"1"]
    # tokens longer than any internal fixed-size buffer (512 / 4096 bytes), of every class
    for n in (500, 511, 512, 513, 600, 4000, 4097):
        out += [b"1e" + b"9" * n, b"1e-" + b"9" * n, b"1." + b"7" * n, b"1." + b"7" * n + b"e5", b"3" * n, b"3" * n + b"N", b"3" * n + b".5M", b"-" + b"0." + b"0" * n + b"1",
                b"1" + b"0" * n + b"e-" + str(n).encode(), b"\"" + b"s" * n + b"\\n\"", b"k" * n, b":" + b"k" * n, b"n" * n + b"/" + b"m" * n, b"#" + b"t" * n + b" 1",
                b";" + b"c" * n + b"\n1", b"\\" + b"x" * n, b"[" + b" " * n + b"]", b"\"\"\"\n" + b" " * n + b"x\n" + b"y" * n + b"\"\"\"",
                b"0x" + b"F" * n, b"36r" + b"Z" * n, b"1" * n + b"/" + b"3" * n, b"1_" * n + b"1", b"1e" + b"9" * n + b"M"]
    for n in (15, 16, 17, 31, 32, 33, 47, 48, 49, 63, 64, 65):
        out += [b"a" * n, b"\"" + b"s" * n, b"\"" + b"s" * n + b"\"", b" " * n, b" " * n + b"1", b";" + b"c" * n, b"1" * n, b"\"" + b"x" * (n - 1) + b"\\",
                b"\"\"\"\n" + b" " * n + b"x", b"\"\"\"\n" + b"y" * n + b"\"\"\"", b"[" + b"1 " * n, b"\\" + b"a" * n, b":" + b"k" * n + b"/" + b"n" * n]
    return out

# ---------------------------------------------------------------------------------------------------------------------
# handlers at work during the read (harness command K) and registries changed under live values (script tokens)
# ---------------------------------------------------------------------------------------------------------------------
BUSY_TAGS = ["id", "id", "my/id", "ext", "ext", "inst", "inst", "foo", "fail", "failq"]


def decorate(rng, v, p):
    """Wrap nodes of a generated value into tags of the preset registry (and one unhandled tag)."""
    t = v[0]
    if t in ("vec", "list", "set"):
        v = (t, [decorate(rng, x, p) for x in v[1]])
    elif t == "map":
        v = (t, [(decorate(rng, k, p), decorate(rng, x, p)) for k, x in v[1]])
    elif t == "tagged":
        v = (t, v[1], decorate(rng, v[2], p))
    if rng.random() < p:
        v = ("tagged", rng.choice(BUSY_TAGS), v)
    return v


def busy_docs(rng, cfg, tier):
    """Documents whose tags are handled while the reader is still allocating: string operands of every length mod 8
    (with and without escapes, short and longer than an arena block), operands of every kind, nested handlers, handlers
    inside sets and map keys, each followed by values of every alignment need; truncated at every offset for some."""
    out = []
    rest = b' 17 :after {:k 2.5} 1.5e3 "tail" \\c 12345678901234567890 3.25M sym'
    for tag in (b"id", b"ext", b"inst", b"my/id", b"nope"):
        for n in range(0, 34):
            out.append(b"[#" + tag + b' "' + b"s" * n + b'"' + rest + b"]")
    for n in range(0, 18):
        out.append(b'[#id "' + b"s" * n + b'\\n" #ext "' + b"t" * n + b'\\t\\\\"' + rest + b"]")
        out.append(b'{#id "' + b"k" * n + b'" #inst "' + b"v" * (n + 1) + b'" :z #ext [' + b'"q" ' * n + b"] #ext :k 1.5}")
        out.append(b'#{#id "' + b"a" * n + b'" #id "' + b"b" * (n + 1) + b'" ' + str(n).encode() + b" 2.5 #inst [\"" + b"c" * n + b"\" 1.0]}")
        out.append(b"(" + b'#id #ext #inst #my/id "' + b"n" * n + b'" ' + b'#id #id "' + b"m" * n + b'"' + rest + b")")
        out.append(b'[#id [' + b" ".join(b'"' + b"e" * k + b'"' for k in range(n)) + b"]" + rest + b' #fail "' + b"f" * n + b'" 1]')
        out.append(b'[#id "' + b"g" * n + b'" #failq "' + b"h" * n + b'" 2.5]')
    for big in (4090, 16383, 16385, 65537) + ((131073, 262147) if tier == "thorough" else ()):
        for small in (3, 12):
            out.append(b'[#id "' + b"a" * big + b'" 1.5 #ext "' + b"b" * small + b'" {:k 2.5} #inst "c\\n' + b"c" * (big // 3) + b'" "' + b"d" * small + b'" 7]')
    # handlers inside discarded forms, after comments, as map values of namespaced maps, below metadata
    for n in (0, 3, 8, 13):
        out.append(b'[#_ #id "' + b"d" * n + b'" #id "' + b"e" * (n + 1) + b'" 1.5 #_ #ext "x" ; c\n #inst "' + b"f" * n + b'" {:k 2.5}]')
        if cfg in ("clj", "both"):
            out.append(b'#:ns{:a #id "' + b"a" * n + b'" :b #ext "de" :c 1.5 :d [#inst "' + b"g" * n + b'" 2.5]}')
            out.append(b'^{:doc #id "' + b"m" * n + b'"} [#ext "' + b"x" * n + b'" ^:k #id [1.5 "' + b"y" * n + b'"] 2.5]')
    scal = [b"nil", b"true", b"0", b"-9223372036854775808", b"99999999999999999999", b"1.5", b"1e400", b"1.5M", b"7N", b"\\a", b"\\newline", b"sym", b"ns/sym",
            b":kw", b":ns/kw", b'""', b'"\\u0041"', b"()", b"[]", b"{}", b"#{}", b"##Inf", b"##NaN", b"#foo 1", b"#_ 1 2"]
    if cfg in ("clj", "both"):
        scal += [b"1/2", b"0x1F", b"36rZZ", b"99999999999999999999/3", b"^:a [1]", b'^{:a "meta"} [1 "x"]', b'#:ns{:a "v"}', b'"\\101"']
    if cfg in ("exp", "both"):
        scal += [b'"""\n  abc\n  def\n  """', b"1_000", b"1_0.5"]
    for s1 in scal:
        for tag in (b"id", b"ext", b"inst"):
            out.append(b"[#" + tag + b" " + s1 + b' "after" 2.5 ' + s1 + b"]")
    base = []
    for _ in range(250 if tier == "quick" else 3000):
        v = decorate(rng, G.gen_value(rng, cfg, depth=rng.choice([1, 2, 3]), width=4, tags=("id", "ext", "inst", "my/id")), rng.choice([0.15, 0.3, 0.5]))
        if v[0] != "tagged" and rng.random() < 0.5:
            v = ("tagged", rng.choice(["id", "ext", "inst"]), v)
        base.append(G.render_doc(rng, v, cfg, rich=rng.random() < 0.5))
    out += base
    # truncated at every offset (the handlers have run, then the read fails and the arena goes away)
    for d in (out[2:3] + out[170:174] + base[:8]) if tier == "quick" else (out[:3] + out[170:176] + base[:100]):
        if len(d) < 400:
            out += [d[:k] for k in range(1, len(d))]
    return [d for d in out if d]


def busy_lines(rng, docs):
    """K lines and the plain `R` lines whose model answer is their expected output."""
    k, r = [], []
    for i, d in enumerate(docs):
        opt = rng.choice([0, 0, 0, 1, 2, 4, 5]) | rng.choice([0, 0, 64])
        sched = rng.randrange(16)
        k.append("K %d %s" % (opt | (sched << 8), C.hexs(d)))
        r.append("R %d %s" % ((opt & 7) | 8, C.hexs(d)))
    return k, r


XD = [b'[#ext "a" #ext "a" #ext "bb" #xt 3 #xt 3 #xt 259 {#xt 5 1 #ext "kkk" 2 :k #xt 44} #{#xt 44 #ext "q"} #xt 300 [#ext "zz" #xt 3]]',
      b'#{#ext "a" #ext "bb" #xt 3 #xt 259 1 2}',
      b"#{" + b" ".join(b"#xt %d" % (3 + 256 * 10 ** j) for j in range(1, 15)) + b" " + b" ".join(b'#ext "%s"' % (b"e" * j) for j in range(1, 9)) + b" 1 2}",
      b'{#xt 3 1 #xt 259 2 #ext "a" 3 #ext "bb" 4}']
XPATH = {7: ("0.0", "1.0", "0.2", "1.1"), 3: ("0.3", "1.3", "0.5", "1.4"), 44: ("0.8", "1.8", "0.7.0", "0.6.5")}
XIDS = [7, 3, 44, 5, 9, 4000000000]
XEH = [1, 2, 11, 12, 21, 22]
XPROBE = ("e:{a}.0:{b}.0 e:{a}.0:{a}.2 h:{a}.0 h:{a}.3 e:{a}.3:{b}.4 e:{a}.3:{b}.5 h:{a}.5 e:{a}.8:{b}.8 h:{a}.8 e:{a}:{b} h:{a} lk:{a}.6:{b}.6.0 ck:{a}.6:{b}.0 "
          "sc:{a}.7:{b}.8 sc:{a}.7:{b}.7.1 d:{a} d:{a}.9 h:{a}.7 e:{a}.7:{b}.7 xq:7 xq:3 xq:44 xq:5 xq:9")


def x_ops_on(rng, T, n=1):
    a, b, c, d = XPATH[T]
    pool = ["e:%s:%s" % (a, b), "e:%s:%s" % (a, c), "h:%s" % a, "h:%s" % b, "h:0", "e:0:1", "d:0", "sc:0.7:%s" % b, "lk:0.6:%s" % b, "ck:0.6:%s" % a,
            "sc:2:%s" % a, "lk:3:%s" % b, "h:2", "e:0.7:1.7", "e:0.6:1.6", "xq:%d" % T, "t:%s" % a]
    return [rng.choice(pool) for _ in range(n)]


def registry_scripts(rng, tier):
    """(script, table at its end) pairs: the external-type table changes while trees holding external values are alive."""
    out = []
    rd = lambda k, j, o=40: "o%d=%d,%s" % (k, o, C.hexs(XD[j]))
    head = [rd(0, 0), rd(1, 0), rd(2, 2), rd(3, 3)]
    primes = lambda T: [["e:%s:%s" % XPATH[T][:2]], ["h:%s" % XPATH[T][0]], ["sc:0.7:%s" % XPATH[T][1]], ["lk:3:%s" % XPATH[T][1]], ["d:0"], ["h:2", "e:2:2"],
                        ["xr:%d:22" % T], ["xq:%d" % T], [rd(4, 1)], [rd(4, 2)], []]
    afters = lambda T: [["e:%s:%s" % XPATH[T][:2], "h:%s" % XPATH[T][1]], ["h:%s" % XPATH[T][2], "e:%s:%s" % (XPATH[T][0], XPATH[T][2])], ["d:0", "sc:0.7:%s" % XPATH[T][1]],
                        ["xr:%d:12" % T, "e:%s:%s" % XPATH[T][:2]], ["xr:9:11", "h:%s" % XPATH[T][0]], [rd(5, 1), rd(6, 2)], ["xu:%d" % T, "h:%s" % XPATH[T][1]], ["lk:3:%s" % XPATH[T][1], "h:0", "e:0:1"]]
    # unregister the first / middle / last of three entries, after every kind of use, followed by every kind of use
    for order in ((7, 3, 44), (3, 44, 7), (44, 7, 3)):
        for T in order[:(3 if tier == "thorough" else 2)]:
            for pr in primes(T):
                for af in afters(T):
                    tab = {}
                    ops = list(head)
                    for i, t in enumerate(order):
                        eh = (11, 12, 21)[i]
                        ops.append("xr:%d:%d" % (t, eh))
                        tab[t] = eh
                    seq = pr + ["xu:%d" % T] + af
                    ops += seq
                    for o in seq:
                        if o.startswith("xr:"):
                            tab[int(o.split(":")[1])] = int(o.split(":")[2])
                        elif o.startswith("xu:"):
                            tab.pop(int(o.split(":")[1]), None)
                    out.append((ops, tab))
    # random histories
    for _ in range(150 if tier == "quick" else 3000):
        tab = {}
        ops = [rd(0, 0, rng.choice([40, 104])), rd(1, 0, rng.choice([40, 104])), rd(2, 2), rd(3, 3)]
        rng.shuffle(ops)
        for _ in range(rng.randint(3, 14)):
            r = rng.random()
            if r < 0.3:
                t, eh = rng.choice(XIDS), rng.choice(XEH)
                ops.append("xr:%d:%d" % (t, eh))
                tab[t] = eh
            elif r < 0.55:
                t = rng.choice(XIDS if rng.random() < 0.4 or not tab else sorted(tab))
                ops.append("xu:%d" % t)
                tab.pop(t, None)
            elif r < 0.65:
                k = rng.choice([4, 5, 6, 0, 1])  # registers 0 and 1 always hold the first document (the paths of the probes)
                ops.append(rd(k, 0 if k < 2 else rng.choice([0, 1, 2, 3]), rng.choice([40, 104])))
            else:
                ops += x_ops_on(rng, rng.choice([7, 3, 44]), rng.randint(1, 3))
        out.append((ops, tab))
    return out


def registry_lines(rng, tier):
    """For every history: the script followed by probes on freshly read values, and the same probes under a table built
    directly with the entries the history leaves behind (same order of outputs at the end)."""
    fresh = "o8=40,%s o9=40,%s o10=40,%s o11=40,%s o12=40,%s " % tuple(C.hexs(XD[j]) for j in (0, 0, 1, 2, 3)) + XPROBE.format(a="8", b="9") + " h:10 h:11 h:12 t:10 sc:11:8.3 lk:12:9.5"
    nfresh = len(fresh.split(" "))
    lines, pairs = [], []
    for ops, tab in registry_scripts(rng, tier):
        a = len(lines)
        lines.append("Q " + " ".join(ops) + " " + fresh)
        lines.append("Q " + " ".join("xr:%d:%d" % (t, eh) for t, eh in sorted(tab.items())) + (" " if tab else "") + fresh)
        pairs.append((a, a + 1))
    return lines, pairs, nfresh


def report_crashes(rep, name, pl, cfg, lines, crashes, env=None):
    """One finding per build and family; a line that also crashes when it is the only line of a fresh process is preferred
    (state left behind by an earlier line - a registry entry, a cache - can make a later, innocent line crash)."""
    if not crashes:
        return False
    mode = name.split("/")[0]
    exe = C.harness("unity", cfg, mode)
    pick = None
    for idx, rc, err in crashes[:6]:
        r = C.run_lines(exe, ["P %d" % pl, lines[idx]], env=env)
        if r.returncode != 0 or r.crashed_at is not None:
            pick = (idx, r.returncode, r.stderr or err, True)
            break
    if pick is None:
        pick = crashes[0] + (False,)
    idx, rc, err, alone = pick
    kind = "sanitizer" if ("Sanitizer" in err or "runtime error" in err) else "signal"
    what = err.strip().split("\n")
    head = next((l for l in what if "ERROR" in l or "runtime error" in l), what[0] if what else "")
    rp = {"kind": "line", "config": cfg, "mode": mode, "placement": pl, "line": lines[idx], "stderr": err[-3000:], "reproduces_alone": alone, "crashing_lines": len(crashes)}
    if not alone:
        rp["note"] = "crashed as part of a batch of lines in one process and not when run alone: an earlier line of the family left state behind"
    rep.finding("%s/%s" % (kind, name), "%s build: %s (exit %s) on %s" % (mode, head[:200], rc, lines[idx][:120]), rp)
    return True


BUILDS3 = (("san", 0, None), ("o2", 1, None), ("msan", 0, {"MSAN_OPTIONS": "halt_on_error=1"}))


def handlers_at_work(rep, rng, cfg, tier):
    found = False
    docs = busy_docs(rng, cfg, tier)
    klines, rlines = busy_lines(rng, docs)
    model, _ = K.run_model(cfg, rlines)
    ncalls = nblocks = 0
    for mode, pl, env in BUILDS3:
        kw = {"env": env} if env else {}
        outs, crashes = K.run_impl(cfg, klines, mode=mode, prefix=["P %d" % pl], **kw)
        rep.count("handlers-at-work/%s/%s" % (mode, cfg), len(klines))
        found |= report_crashes(rep, mode + "/handlers-at-work", pl, cfg, klines, crashes, env)
        broke = False
        for i, o in enumerate(outs):
            if o is None or o == "timeout":
                continue
            rp = {"kind": "line", "config": cfg, "mode": mode, "placement": pl, "line": klines[i], "observed": o[-600:], "document": repr(docs[i][:200])}
            body, _, tail = o.partition(" ;busy ")
            if "!" in tail:
                found = True
                rep.finding("handler-at-work/" + tail[tail.index("!") + 1:].split("=")[0].split(" ")[0].lower(),
                            "a tag handler that uses the accessors and the arena during the read: %s (%s build) on %r" % (tail[tail.index("!"):], mode, docs[i][:80]), rp)
            if "INPUT-MODIFIED" in body:
                found = True
                rep.finding("input-modified", "the input buffer was written to", rp)
                body = body.replace(" INPUT-MODIFIED", "")
            if mode == "san":
                m = re.search(r"calls=(\d+) blocks=(\d+)", tail)
                if m:
                    ncalls += int(m.group(1))
                    nblocks += int(m.group(2))
            if model[i] is not None and body != model[i] and not broke:
                broke = True
                found = True
                rep.finding("handler-at-work/result-differs", "the read gives another result when its tag handlers call accessors on their operand and allocate from the arena "
                            "(%s build): %r instead of %r on %r" % (mode, body[:160], model[i][:160], docs[i][:80]), dict(rp, expected=model[i][-600:]))
    rep.count("handlers-at-work/handler-calls/" + cfg, ncalls)
    rep.count("handlers-at-work/handler-allocations/" + cfg, nblocks)
    # the accessor / equality / hash / lookup scripts on trees whose tags were handled that way: sanitizers, and the builds agree
    sdocs = [d for d in docs if len(d) < 3000][:60] + rng.sample(docs, 60)
    scripts = ["Q o0=%d,%s o1=%d,%s %s" % (rng.choice([40, 104]), C.hexs(d), rng.choice([40, 42, 104]), C.hexs(d), SCRIPT_TAIL) for d in sdocs]
    f, _ = builds_agree(rep, "scripts-after-handlers", cfg, scripts)
    found |= f
    return found, len(klines) * 3 + len(scripts) * 3, klines + scripts


def builds_agree(rep, what, cfg, lines):
    found = False
    res = {}
    for mode, pl, env in BUILDS3:
        kw = {"env": env} if env else {}
        outs, crashes = K.run_impl(cfg, lines, mode=mode, prefix=["P %d" % pl], **kw)
        rep.count("%s/%s/%s" % (what, mode, cfg), len(lines))
        found |= report_crashes(rep, mode + "/" + what, pl, cfg, lines, crashes, env)
        res[mode] = outs
    for i, l in enumerate(lines):
        got = {m: res[m][i] for m in res if res[m][i] is not None}
        if any("!" in (o or "") or "NOTERM" in (o or "") or "UNSTABLE" in (o or "") for o in got.values()):
            found = True
            m = next(m for m, o in got.items() if "!" in o or "NOTERM" in o or "UNSTABLE" in o)
            rep.finding(what + "/anomaly", "%s build reports an anomaly: %s" % (m, got[m][:300]), {"kind": "line", "config": cfg, "mode": m, "placement": 0, "line": l, "observed": got[m][-800:]})
        if len(set(got.values())) > 1:
            found = True
            rep.finding(what + "/build-dependent", "the sanitised, the -O2 and the MemorySanitizer build give different answers: %r" % ({m: o[:120] for m, o in got.items()},),
                        {"kind": "line", "config": cfg, "mode": "san", "placement": 0, "line": l, "observed": {m: o[-600:] for m, o in got.items()}})
    return found, res


def tables_under_live_values(rep, rng, cfg, tier):
    lines, pairs, nfresh = registry_lines(rng, tier)
    found, res = builds_agree(rep, "external-types-under-live-values", cfg, lines)
    rep.count("external-types-under-live-values/histories/" + cfg, len(pairs))
    for mode, outs in res.items():
        for a, b in pairs:
            if outs[a] is None or outs[b] is None:
                continue
            ta, tb = outs[a].split("\t")[-nfresh:], outs[b].split("\t")[-nfresh:]
            if ta != tb:
                found = True
                k = next(i for i in range(min(len(ta), len(tb))) if ta[i] != tb[i]) if len(ta) == len(tb) else -1
                rep.finding("external-types/history-dependent", "values read after a history of register / unregister calls behave differently from values read under a fresh table "
                            "with the same entries (%s build, probe %d: %r vs %r)" % (mode, k, ta[k][:80] if k >= 0 else len(ta), tb[k][:80] if k >= 0 else len(tb)),
                            {"kind": "line", "config": cfg, "mode": mode, "placement": 0, "line": lines[a], "fresh_table_line": lines[b], "observed": ta, "expected": tb})
                break
    return found, len(lines) * 3, lines


def run(tier):
    rep = C.Report(PID, tier, "proof")
    rng = C.rng(PID)
    rng2 = C.rng(PID + "/handlers-and-tables")  # a stream of its own: the documents of the older families stay what they were
    lean = U.lean_part(rep, PID)
    found = False
    ndoc = 400 if tier == "quick" else 5000
    for cfg in ("core", "clj", "exp", "both"):
        docs = []
        base = []
        for _ in range(ndoc):
            v = G.gen_value(rng, cfg, depth=rng.choice([1, 2, 3]), width=4)
            base.append(G.render_doc(rng, v, cfg, rich=True))
        for _ in range(ndoc // 2):
            base.append(G.gen_ext_doc(rng, cfg))
        docs += base
        # tokens truncated at the buffer end: every prefix of some documents, one random prefix of the others
        for d in base[:40 if tier == "quick" else 300]:
            docs += [d[:k] for k in range(1, len(d))]
        for d in base:
            docs.append(d[:rng.randrange(1, len(d) + 1)])
            docs.append(G.mutate(rng, d))
        docs += nasty_docs(rng)
        docs += list(G.byte_context_docs())
        if tier == "thorough":
            docs += list(G.strings_over(G.SIGMA24, 3, 1))
        # every start phase mod 16 for a subset (the mapping ends at a page boundary, so the phase is -length mod 16)
        for d in base[:60]:
            docs += [b" " * k + d for k in range(1, 16)]
        docs = [d for d in docs if d]
        lines = []
        for d in docs:
            lines.append("R %d %s" % (rng.choice([0, 0, 1, 8, 9]), C.hexs(d)))
        scripts = ["Q r0=%s r1=%s %s" % (C.hexs(d), C.hexs(d), SCRIPT_TAIL) for d in base + nasty_docs(rng)]
        # strings larger than one arena block (16 KiB / 64 KiB / 128 KiB / 256 KiB), lengths not multiples of 8, materialised
        # one after the other after the read (lazy allocations of odd sizes, dedicated blocks)
        for big in (16383, 16385, 65537, 70000, 70001, 131073, 262147):
            for small in (5, 5000, 5001, 20001):
                d = b"[\"" + b"a" * big + b"\" \"" + b"b" * small + b"\" \"c\\n" + b"c" * (small + 3) + b"\"]"
                scripts.append("Q r0=%s sg:0.0 sg:0.1 sg:0.2 sg:0.0 h:0 sg:0.1" % C.hexs(d))
        allv = lines + scripts
        # edn_value_compare is not modelled (address order for composites): crash / sanitizer monitoring only
        cmp_scripts = ["Q r0=%s r1=%s c:0:1 c:1:0 c:0.0:1.0 c:0:0.0" % (C.hexs(d), C.hexs(d)) for d in base]
        for mode, pl in (("san", 0), ("o2", 1)):
            outs, crashes = K.run_impl(cfg, cmp_scripts, mode=mode, prefix=["P %d" % pl])
            rep.count("compare/%s/%s" % (mode, cfg), len(cmp_scripts))
            for idx, rc, err in crashes:
                found = True
                rep.finding("compare-crash/" + mode, "edn_value_compare crashed (exit %s)" % rc,
                            {"kind": "line", "config": cfg, "mode": mode, "placement": pl, "line": cmp_scripts[idx], "stderr": err[-3000:]})
        runs = {}
        runs["san/heap"] = K.run_impl(cfg, allv, mode="san", prefix=["P 0"])
        runs["o2/guard-page"] = K.run_impl(cfg, allv, mode="o2", prefix=["P 1"])
        # clang MemorySanitizer: every branch or address that depends on uninitialised memory is reported
        runs["msan/heap"] = K.run_impl(cfg, allv, mode="msan", prefix=["P 0"], env={"MSAN_OPTIONS": "halt_on_error=1"})
        if tier == "thorough":
            runs["san/guard-page"] = K.run_impl(cfg, allv, mode="san", prefix=["P 1"])
            runs["o2/heap"] = K.run_impl(cfg, allv, mode="o2", prefix=["P 0"])
        model, mcr = K.run_model(cfg, allv)
        for name, (outs, crashes) in runs.items():
            rep.count("%s/%s" % (name, cfg), len(allv))
            for idx, rc, err in crashes:
                found = True
                kind = "sanitizer" if ("Sanitizer" in err or "runtime error" in err) else "signal"
                what = err.strip().split("\n")
                head = next((l for l in what if "ERROR" in l or "runtime error" in l), what[0] if what else "")
                rep.finding("%s/%s" % (kind, name.split("/")[0]), "%s build, %s placement: %s (exit %s)" % (name.split("/")[0], name.split("/")[1], head[:200], rc),
                            {"kind": "line", "config": cfg, "mode": name.split("/")[0], "placement": 1 if "guard" in name else 0, "line": allv[idx], "stderr": err[-3000:]})
            for i, o in enumerate(outs):
                if o is None or model[i] is None:
                    continue
                if "INPUT-MODIFIED" in o:
                    found = True
                    rep.finding("input-modified", "the input buffer was written to", {"kind": "line", "config": cfg, "mode": name.split("/")[0], "placement": 0, "line": allv[i]})
                if o != model[i]:
                    rep.broken_obligation("correspondence/" + name, "model %r vs code %r on %s" % (model[i][:200], o[:200], allv[i][:200]), False)
                    break
        rep.note_cases(len(allv) * len(runs), set(C.sha(l)[:16] for l in allv), sample={"line": allv[0][:200], "out": (runs["san/heap"][0][0] or "")[:200]})
        for family in (handlers_at_work, tables_under_live_values):
            t0 = time.time()
            f, n, ls = family(rep, rng2, cfg, tier)
            found |= bool(f)
            rep.note_cases(n, set(C.sha(l)[:16] for l in ls))
            rep.coverage["wall_s/" + family.__name__] = round(rep.coverage.get("wall_s/" + family.__name__, 0) + time.time() - t0, 1)
    U.finish_proof(rep, lean, found)


def replay(path):
    r = json.load(open(path))
    print(json.dumps(r, indent=1)[:3000])
    if r.get("kind") == "line":
        exe = C.harness("unity", r["config"], r.get("mode", "san"))
        out = C.run_lines(exe, ["P %d" % r.get("placement", 0), r["line"]])
        print("now:", out.outputs, out.returncode, out.stderr[-1500:])
        return 0
    return 1
