"""C01 - no out-of-bounds access or undefined behaviour on any input bytes.

Lean: Edn.Properties.C01 (every fixed-width accumulator of the number reader stays in range; the
result of the integer parser fits int64 incl. the negation of 2^63; every range stored in a
tree lies inside the input).  The model reads its input only through total list operations on
the bytes given, so it cannot depend on memory outside input[0, length) by construction; that
the C code does not either is *monitored*, not proved: the same documents run (a) in the
ASan+UBSan -O1 build and in the clang MemorySanitizer build with the input in an exact-size heap block, (b) in the -O2 -msse4.2 build
with the last input byte flush against a PROT_NONE page and the input pages read-only, at every
start phase mod 16, followed by accessor / equality / hash / lookup scripts on the returned
tree; outputs of (a), (b) and the model must be identical."""
import json

from .. import common as C
from .. import corr as K
from .. import gen as G
from . import util as U

PID = "C01"

SCRIPT_TAIL = "h:0 e:0:1 e:1:0 t:0 sg:0 sg:0.0 sg:0.1 lk:0:0.0 ck:0:1.0 sc:0:0.0 d:0 h:0.0 e:0.0:1.0 gk:0:61 gs:0:61 se:0:61 h:0.m t:0.m"


def nasty_docs(rng):
    out = [b"\x00", b"a\x00b", b"\"a\x00b\"", b"[1 \x00 2]", b"\xff\xfe", b"\"\xc3\"", b"\\\xe2\x82", b":\xf0\x9f", b"#\xc3\xa9 1", b"\"\\u12",
           b"\\u00", b"\\", b"#", b"##", b"##I", b"##Na", b"##-In", b"\\newlin", b"\\spac", b"\\formfee", b"\\o37", b"\\o", b"1e", b"1e+", b"1.", b"-",
           b"+", b"0x", b"0x1", b"36r", b"36rZ", b"1/", b"1_", b"1_0", b"0xA_", b"0x1F_", b"07_", b"017_", b"2r1_", b"36rZ_", b"1_0_", b"1.5_", b"1e5_", b"1_N", b"0x_1", b"1/2_", b"9223372036854775807", b"-9223372036854775808", b"9223372036854775808",
           b"-9223372036854775809", b"99999999999999999999999999999999", b"99999999999999999999r1", b"2147483648r1", b"4294967296r0", b"0000000000000000000000036rZ", b"1e400", b"1e-400", b"0." + b"0" * 40 + b"1", b"1" * 18 + b"." + b"9" * 30,
           b"\"\"\"\n", b"\"\"\"\n a", b"\"\"\"\n a\n", b"\"\"\"\n  \\\"\"\"", b"#_", b"#_ ", b"^", b"^:a", b"#:", b"#:a", b"#:a{", b"{", b"#{", b"(", b"[",
           b"\"", b"\"\\", b"\"abc", b";", b"; x", b"#t", b"#t ", b"#inst \"x", b"a/", b"/a", b"a/b/c", b":", b"::", b":a/", b"[" * 120, b"#_" * 60 + b"1"]
    # tokens longer than any internal fixed-size buffer (512 / 4096 bytes), of every class
    for n in (500, 511, 512, 513, 600, 4000, 4097):
        out += [b"1e" + b"9" * n, b"1e-" + b"9" * n, b"1." + b"7" * n, b"1." + b"7" * n + b"e5", b"3" * n, b"3" * n + b"N", b"3" * n + b".5M", b"-" + b"0." + b"0" * n + b"1",
                b"1" + b"0" * n + b"e-" + str(n).encode(), b"\"" + b"s" * n + b"\\n\"", b"k" * n, b":" + b"k" * n, b"n" * n + b"/" + b"m" * n, b"#" + b"t" * n + b" 1",
                b";" + b"c" * n + b"\n1", b"\\" + b"x" * n, b"[" + b" " * n + b"]", b"\"\"\"\n" + b" " * n + b"x\n" + b"y" * n + b"\"\"\"",
                b"0x" + b"F" * n, b"36r" + b"Z" * n, b"1" * n + b"/" + b"3" * n, b"1_" * n + b"1", b"1e" + b"9" * n + b"M"]
    for n in (15, 16, 17, 31, 32, 33, 47, 48, 49, 63, 64, 65):
        out += [b"a" * n, b"\"" + b"s" * n, b"\"" + b"s" * n + b"\"", b" " * n, b" " * n + b"1", b";" + b"c" * n, b"1" * n, b"\"" + b"x" * (n - 1) + b"\\",
                b"\"\"\"\n" + b" " * n + b"x", b"\"\"\"\n" + b"y" * n + b"\"\"\"", b"[" + b"1 " * n, b"\\" + b"a" * n, b":" + b"k" * n + b"/" + b"n" * n]
    return out


def run(tier):
    rep = C.Report(PID, tier, "proof")
    rng = C.rng(PID)
    lean = U.lean_part(rep, PID)
    found = False
    ndoc = 400 if tier == "quick" else 5000
    for cfg in ("core", "clj", "exp", "both"):
        docs = []
        base = []
        for _ in range(ndoc):
            v = G.gen_value(rng, cfg, depth=rng.choice([1, 2, 3]), width=4)
            base.append(G.render_doc(rng, v, cfg, rich=True))
        for _ in range(ndoc // 2):
            base.append(G.gen_ext_doc(rng, cfg))
        docs += base
        # tokens truncated at the buffer end: every prefix of some documents, one random prefix of the others
        for d in base[:40 if tier == "quick" else 300]:
            docs += [d[:k] for k in range(1, len(d))]
        for d in base:
            docs.append(d[:rng.randrange(1, len(d) + 1)])
            docs.append(G.mutate(rng, d))
        docs += nasty_docs(rng)
        docs += list(G.byte_context_docs())
        if tier == "thorough":
            docs += list(G.strings_over(G.SIGMA24, 3, 1))
        # every start phase mod 16 for a subset (the mapping ends at a page boundary, so the phase is -length mod 16)
        for d in base[:60]:
            docs += [b" " * k + d for k in range(1, 16)]
        docs = [d for d in docs if d]
        lines = []
        for d in docs:
            lines.append("R %d %s" % (rng.choice([0, 0, 1, 8, 9]), C.hexs(d)))
        scripts = ["Q r0=%s r1=%s %s" % (C.hexs(d), C.hexs(d), SCRIPT_TAIL) for d in base + nasty_docs(rng)]
        # strings larger than one arena block (16 KiB / 64 KiB / 128 KiB / 256 KiB), lengths not multiples of 8, materialised
        # one after the other after the read (lazy allocations of odd sizes, dedicated blocks)
        for big in (16383, 16385, 65537, 70000, 70001, 131073, 262147):
            for small in (5, 5000, 5001, 20001):
                d = b"[\"" + b"a" * big + b"\" \"" + b"b" * small + b"\" \"c\\n" + b"c" * (small + 3) + b"\"]"
                scripts.append("Q r0=%s sg:0.0 sg:0.1 sg:0.2 sg:0.0 h:0 sg:0.1" % C.hexs(d))
        allv = lines + scripts
        # edn_value_compare is not modelled (address order for composites): crash / sanitizer monitoring only
        cmp_scripts = ["Q r0=%s r1=%s c:0:1 c:1:0 c:0.0:1.0 c:0:0.0" % (C.hexs(d), C.hexs(d)) for d in base]
        for mode, pl in (("san", 0), ("o2", 1)):
            outs, crashes = K.run_impl(cfg, cmp_scripts, mode=mode, prefix=["P %d" % pl])
            rep.count("compare/%s/%s" % (mode, cfg), len(cmp_scripts))
            for idx, rc, err in crashes:
                found = True
                rep.finding("compare-crash/" + mode, "edn_value_compare crashed (exit %s)" % rc,
                            {"kind": "line", "config": cfg, "mode": mode, "placement": pl, "line": cmp_scripts[idx], "stderr": err[-3000:]})
        runs = {}
        runs["san/heap"] = K.run_impl(cfg, allv, mode="san", prefix=["P 0"])
        runs["o2/guard-page"] = K.run_impl(cfg, allv, mode="o2", prefix=["P 1"])
        # clang MemorySanitizer: every branch or address that depends on uninitialised memory is reported
        runs["msan/heap"] = K.run_impl(cfg, allv, mode="msan", prefix=["P 0"], env={"MSAN_OPTIONS": "halt_on_error=1"})
        if tier == "thorough":
            runs["san/guard-page"] = K.run_impl(cfg, allv, mode="san", prefix=["P 1"])
            runs["o2/heap"] = K.run_impl(cfg, allv, mode="o2", prefix=["P 0"])
        model, mcr = K.run_model(cfg, allv)
        for name, (outs, crashes) in runs.items():
            rep.count("%s/%s" % (name, cfg), len(allv))
            for idx, rc, err in crashes:
                found = True
                kind = "sanitizer" if ("Sanitizer" in err or "runtime error" in err) else "signal"
                what = err.strip().split("\n")
                head = next((l for l in what if "ERROR" in l or "runtime error" in l), what[0] if what else "")
                rep.finding("%s/%s" % (kind, name.split("/")[0]), "%s build, %s placement: %s (exit %s)" % (name.split("/")[0], name.split("/")[1], head[:200], rc),
                            {"kind": "line", "config": cfg, "mode": name.split("/")[0], "placement": 1 if "guard" in name else 0, "line": allv[idx], "stderr": err[-3000:]})
            for i, o in enumerate(outs):
                if o is None or model[i] is None:
                    continue
                if "INPUT-MODIFIED" in o:
                    found = True
                    rep.finding("input-modified", "the input buffer was written to", {"kind": "line", "config": cfg, "mode": name.split("/")[0], "placement": 0, "line": allv[i]})
                if o != model[i]:
                    rep.broken_obligation("correspondence/" + name, "model %r vs code %r on %s" % (model[i][:200], o[:200], allv[i][:200]), False)
                    break
        rep.note_cases(len(allv) * len(runs), set(C.sha(l)[:16] for l in allv), sample={"line": allv[0][:200], "out": (runs["san/heap"][0][0] or "")[:200]})
    U.finish_proof(rep, lean, found)


def replay(path):
    r = json.load(open(path))
    print(json.dumps(r, indent=1)[:3000])
    if r.get("kind") == "line":
        exe = C.harness("unity", r["config"], r.get("mode", "san"))
        out = C.run_lines(exe, ["P %d" % r.get("placement", 0), r["line"]])
        print("now:", out.outputs, out.returncode, out.stderr[-1500:])
        return 0
    return 1
