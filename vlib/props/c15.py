"""C15 - one free releases everything; handed-out pointers stay valid until then.

Lean: Edn.Properties.C15 (arena contract for every request sequence and malloc behaviour).
Correspondence: arena request sequences, real allocator vs model.  Oracle: regions must be
8-aligned, large enough, inside their block and disjoint (recomputed from the offsets the
real allocator returned); the allocation ledger (--wrap=malloc...) must be empty after the
single free or after a failed read; LeakSanitizer/ASan must stay silent; every string is
fetched twice and must come back stable and NUL-terminated; a registry destroyed before the
values are used must not matter."""
import itertools
import json
import re

from .. import common as C
from .. import corr as K
from .. import gen as G
from . import util as U
from . import alloctrace as AT

PID = "C15"
SIZE_MAX = 2 ** 64 - 1


def tok(n):
    return "M%d" % (SIZE_MAX - n) if n > 2 ** 62 else str(n)


def arena_oracle(sizes, out):
    """check the real allocator's answer for one request sequence; returns problem or None"""
    parts = out.split()
    if len(parts) != len(sizes) + 1:
        return "malformed output"
    ends = {}
    for sz, p in zip(sizes, parts):
        if p == "null":
            if sz <= 2 ** 30:
                return "request of %d bytes refused" % sz
            continue
        if "MISALIGNED" in p:
            return "misaligned pointer " + p
        m = re.match(r"b(\d+)\+(\d+)/(\d+)$", p)
        if not m:
            return "malformed " + p
        blk, off, cap = int(m.group(1)), int(m.group(2)), int(m.group(3))
        if sz > 2 ** 48:
            return "request of %d bytes was granted: %s" % (sz, p)
        if off % 8:
            return "offset not 8-aligned: " + p
        if off + sz > cap:
            return "region of %d bytes at %s exceeds its block" % (sz, p)
        if off < ends.get(blk, 0):
            return "region at %s overlaps an earlier one (block %d used up to %d)" % (p, blk, ends[blk])
        ends[blk] = off + sz
    return None


def run(tier):
    rep = C.Report(PID, tier, "proof")
    rng = C.rng(PID)
    lean = U.lean_part(rep, PID)
    found = False

    # ---- arena request sequences
    classes = [0, 1, 7, 8, 9, 16, 4096, 16376, 16377, 16384, 16385, 65536, 65537, 262144, 1048576,
               SIZE_MAX, SIZE_MAX - 2, SIZE_MAX - 7, SIZE_MAX - 30, SIZE_MAX - 31, SIZE_MAX - 32, SIZE_MAX - 40, 2 ** 62, 2 ** 63]
    seqs = []
    maxn = 2 if tier == "quick" else 3
    for n in range(1, maxn + 1):
        for s in itertools.product(classes, repeat=n):
            seqs.append(list(s))
    for _ in range(300 if tier == "quick" else 5000):
        seqs.append([rng.choice(classes + [rng.randint(0, 40000), 24, 160]) for _ in range(rng.randint(3, 40))])
    lines = ["A " + " ".join(tok(x) for x in s) for s in seqs]
    impl, model, diffs, crashes, mcr = K.correspond("core", lines)
    rep.count("arena-sequences", len(lines))
    for idx, rc, err in crashes:
        found = True
        rep.finding("arena-crash", "allocator crashed / sanitizer report", {"kind": "line", "config": "core", "line": lines[idx], "stderr": err[:3000]})
    for i, (a, s) in enumerate(zip(impl, seqs)):
        if a is None:
            continue
        prob = arena_oracle(s, a)
        if prob:
            found = True
            rep.finding("arena/" + prob.split()[0], prob, {"kind": "line", "config": "core", "line": lines[i], "observed": a})
    for i in diffs[:5]:
        rep.broken_obligation("correspondence/arena", "model %r vs code %r on %s" % (model[i], impl[i], lines[i]), False)
    rep.note_cases(len(lines), set(C.sha(l)[:16] for l in lines), sample={"line": lines[30], "result": impl[30]})

    # ---- ledger: everything allocated while reading is released by the single free / before returning
    ndocs = 250 if tier == "quick" else 3000
    for cfg in ("core", "both"):
        docs = []
        for _ in range(ndocs):
            r = rng.random()
            if r < 0.4:
                docs.append(G.render_doc(rng, G.gen_value(rng, cfg, depth=3), cfg))
            elif r < 0.6:
                docs.append(G.gen_ext_doc(rng, cfg))
            elif r < 0.9:
                docs.append(G.mutate(rng, G.render_doc(rng, G.gen_value(rng, cfg, depth=3), cfg, rich=False)))
            else:
                n = rng.choice([17, 40, 1001])
                docs.append(b"#{" + b" ".join(str(i).encode() for i in range(n)) + rng.choice([b"}", b" 3}", b"", b"]"]))
        docs += [b"", b"   ", b"[1 2", b"\"abc", b"\"\"\"\nabc", b"\"\"\"\nabc\n", b"{:a 1 :a 2}", b"#{1 1}", b"[\n\n\n#_]", b"#foo", b"[" * 200]
        docs = [d for d in docs if d]
        for opt in (0, 1, 9):
            lines = ["F 0 1 %d %s" % (opt, C.hexs(d)) for d in docs]
            impl, crashes = K.run_impl(cfg, lines, mode="san", style="wrap")
            rep.count("ledger-reads/%s/opt%d" % (cfg, opt), len(lines))
            for idx, rc, err in crashes:
                found = True
                rep.finding("ledger-crash", "crash, leak report or sanitizer report while reading/freeing", {"kind": "fault", "config": cfg, "line": lines[idx], "stderr": err[:3000]})
            for i, a in enumerate(impl):
                if a is None:
                    continue
                m = re.search(r" live=(-?\d+)", a)
                if not m or int(m.group(1)) != 0:
                    found = True
                    rep.finding("leak", "raw blocks still live after the read was freed / failed: %s" % a[-80:], {"kind": "fault", "config": cfg, "line": lines[i], "observed": a[-300:]})
                if "UNSTABLE" in a or "NOTERM" in a:
                    found = True
                    rep.finding("string-buffer", "string buffer unstable or not NUL-terminated", {"kind": "fault", "config": cfg, "line": lines[i], "observed": a[:300]})
        # the same reads through the allocation-aware reader model (Edn.Model.ReaderA): the sequence of logical requests,
        # of frees (each naming the block it releases) and of arena destructions must be the one the model predicts,
        # and replayed against an independent ledger every trace must balance: nothing freed twice, nothing left
        # live, every arena destroyed exactly once unless it is the one the returned value owns
        if AT.run_stream(rep, rng, cfg, docs, "ledger-trace", cap=0, faults=False, opts_fn=lambda d, b: [0, 1, 9]):
            found = True
        # "nothing is leaked or freed twice on ANY path": the paths that only a refused request opens.  Every request of a small corpus of documents
        # that hold raw-heap temporaries (text-block line records and their array incl. its growth at 16 / 32 lines, long float literals, the duplicate
        # check's scratch arrays above 16 and above 1000 elements, the line index of the error path) is failed alone and from there on; outcome and
        # event trace must be the model's, every trace must balance in the independent ledger, and the sanitised build must stay silent (double free)
        fdocs = [b"[1 2", b"{:a}", b"#{1 1}", b"\n\n\n)", b"[" + b" ".join(b"%d" % i for i in range(20)) + b"]", b"#{" + b" ".join(b"%d" % i for i in range(18)) + b"}",
                 b"#{" + b" ".join(b":k%d" % i for i in range(1003)) + b"}", b"{" + b" ".join(b"\"k%d\\n\" %d" % (i, i) for i in range(18)) + b"}",
                 b"[0." + b"1" * 600 + b"]", b"0." + b"1" * 600 + b" x]", b"[1 2 \n" * 70 + b"}"]
        if cfg in ("exp", "both"):
            for nl in (1, 3, 15, 16, 17, 20, 33):
                blk = b'"""\n' + b"".join(b"  line %02d\n" % i for i in range(nl)) + b'  """'
                fdocs += [blk, b"[1 " + blk + b" 2]", b"[" + b" ".join(b"%d" % i for i in range(17)) + b" " + blk + b"]", b"#{" + blk + b" \" line 00\\n\"}", blk[:-3]]
        if cfg in ("clj", "both"):
            fdocs += [b"^{\"a\\n\" 1} ^{\"a\n\" 2} x", b"#:p{:a 1 b 2 :_/c 3}", b"^:a ^[x y] ^\"s\" ^T sym"]
        if AT.run_stream(rep, C.rng("C15/faults/" + cfg), cfg, fdocs, "ledger-trace-under-faults", cap=(40 if tier == "quick" else 100000), opts_fn=lambda d, b: [0]):
            found = True
        # registry destroyed before the values are dumped and freed
        zl = ["Z 0 %s" % C.hexs(d) for d in docs[:150]] + ["Z 0 %s" % C.hexs(b"[#ext 1 #id [1 2] #inst \"x\" #my/id {:a #ext 2}]")]
        rl = ["R 8 %s" % C.hexs(d) for d in docs[:150]] + ["R 8 %s" % C.hexs(b"[#ext 1 #id [1 2] #inst \"x\" #my/id {:a #ext 2}]")]
        zi, zc = K.run_impl(cfg, zl, mode="san")
        ri, rc2 = K.run_impl(cfg, rl, mode="san")
        rep.count("registry-destroyed-first/" + cfg, len(zl))
        for idx, rc, err in zc:
            found = True
            rep.finding("registry-destroy", "using values after destroying the registry crashed", {"kind": "line", "config": cfg, "line": zl[idx], "stderr": err[:3000]})
        for a, b, l in zip(zi, ri, zl):
            if a is not None and b is not None and a != b:
                found = True
                rep.finding("registry-destroy", "values changed after destroying the registry", {"kind": "line", "config": cfg, "line": l, "expected": b[:300], "observed": a[:300]})
        rep.note_cases(len(docs) * 3, set(C.sha(d)[:16] for d in docs), sample={"doc": docs[1][:120].decode("latin-1")})

        # every lazily materialised buffer (decoded strings, digit strings cleaned of underscores) stays intact while others
        # are materialised afterwards: dump element i, fetch all the others, dump element i again
        scripts = []
        for ndig in range(1, 34):
            digs = b"".join(b"%d" % ((j * 7 + 1) % 10) for j in range(ndig))
            us = b"_".join(digs[j:j + 3] for j in range(0, len(digs), 3)) if cfg in ("exp", "both") else digs
            for num in (us + b"N", b"1" + us + b"0000000000000000000", us + b".5M"):
                doc = b"[" + num + b" \"abc\\n\" " + num + b" \"" + b"x" * ndig + b"\\t\" 12345678901234567890123]"
                ops = ["t:0.0", "sg:0.1", "t:0.2", "sg:0.3", "t:0.4", "t:0.0", "sg:0.1", "t:0.2", "sg:0.3", "h:0", "t:0.0", "t:0.2"]
                scripts.append("Q r0=%s %s" % (C.hexs(doc), " ".join(ops)))
        impl, model, diffs, crashes, mcr = K.correspond(cfg, scripts)
        rep.count("lazy-buffers/" + cfg, len(scripts))
        for idx, rc, err in crashes:
            found = True
            rep.finding("lazy-buffer/crash", "fetching lazily materialised buffers crashed", {"kind": "line", "config": cfg, "line": scripts[idx], "stderr": err[:3000]})
        for i in diffs[:3]:
            rep.broken_obligation("correspondence/lazy-buffers", "model %r vs code %r" % ((model[i] or "")[:300], (impl[i] or "")[:300]), False)
        for i, a in enumerate(impl):
            if a is None:
                continue
            t = a.split("\t")
            if t[0] != "ok":
                continue
            o = t[1:]
            if "NOTERM" in a or "UNSTABLE" in a or o[0] != o[5] or o[0] != o[10] or o[2] != o[7] or o[2] != o[11] or o[1] != o[6] or o[3] != o[8]:
                found = True
                rep.finding("lazy-buffer/changed", "a buffer handed out earlier changed (or lost its terminator) when another value was materialised",
                            {"kind": "line", "config": cfg, "line": scripts[i], "observed": a[:1200]})
        rep.note_cases(len(scripts), set(C.sha(x)[:16] for x in scripts))
    U.finish_proof(rep, lean, found)


def replay(path):
    r = json.load(open(path))
    print(json.dumps(r, indent=1)[:2500])
    if r.get("stream") == "alloc-trace":
        return AT.replay(r)
    style = "wrap" if r.get("kind") == "fault" else "unity"
    exe = C.harness(style, r["config"], "san")
    out = C.run_lines(exe, [r["line"]])
    print("now:", out.outputs, out.stderr[:500])
    return 0
