"""C17 - reading is deterministic, reentrant and leaves the input untouched.

Lean: Edn.Properties.C17 (the model is a function of configuration, options and bytes; its
answer is independent of the recursion budget, of the order in which the duplicate check
examines elements, of which scratch allocations succeed, of the hash-cache state, of what
follows a form and of leading blanks).  Correspondence + monitoring: the same documents are read
 (a) by five builds (gcc -O0, -O2, -O3, clang -O2, ASan+UBSan) - results incl. message texts must
     be identical across builds and equal to the model's;
 (b) first, and again after unrelated reads and frees in a shuffled order, under two glibc heap
     fill patterns (MALLOC_PERTURB_), from read-only pages - identical each time;
 (c) by 2..16 threads sharing input buffers and a read-only registry, under ThreadSanitizer and
     in the -O2 build - every dump identical to the single-threaded one, no race reported;
 (d) the library objects hold no writable global besides the external-type table."""
import json
import os
import re
import shutil
import subprocess
import tempfile

from .. import common as C
from .. import corr as K
from .. import gen as G
from . import util as U

PID = "C17"
BUILDS = ["o0", "o2", "o3", "clang", "san", "msan"]  # msan: clang MemorySanitizer - a result must not depend on uninitialised memory
ALLOWED_GLOBALS = {"g_external_type_registry"}


def strip_text(line):
    return re.sub(r' text=".*"', "", line) if line else line


def writable_globals(cfg):
    d = tempfile.mkdtemp(prefix="c17nm-", dir=C.build_dir())
    bad = []
    try:
        for f in C.SRC_FILES:
            o = os.path.join(d, f[:-2] + ".o")
            # -fno-pic: position-dependent code keeps `static const` tables that hold pointers in .rodata; with the default -fPIE they move to
            # .data.rel.ro (nm type d) although nothing can write them after relocation - that had been reported as a writable global
            subprocess.run(["gcc", "-std=c11", "-O2", "-msse4.2", "-w", "-fno-pic", "-fno-pie"] + C.CFGS[cfg] + ["-I" + os.path.join(C.REPO, "src"), "-I" + os.path.join(C.REPO, "include"),
                            "-c", os.path.join(C.REPO, "src", f), "-o", o], check=True, stdout=subprocess.PIPE, stderr=subprocess.PIPE)
            out = subprocess.run(["nm", "-S", o], stdout=subprocess.PIPE, text=True).stdout
            for ln in out.split("\n"):
                t = ln.split()
                if len(t) >= 3 and t[-2] in ("b", "B", "d", "D", "C", "s", "S", "g", "G") and t[-1] not in ALLOWED_GLOBALS:
                    bad.append((f, t[-1], t[-2]))
    finally:
        shutil.rmtree(d, ignore_errors=True)
    return bad


def run(tier):
    rep = C.Report(PID, tier, "proof")
    rng = C.rng(PID)
    lean = U.lean_part(rep, PID)
    found = False
    ndoc = 500 if tier == "quick" else 6000
    for cfg in (["core", "both"] if tier == "quick" else ["core", "clj", "exp", "both"]):
        docs = []
        for _ in range(ndoc):
            v = G.gen_value(rng, cfg, depth=rng.choice([1, 2, 3]), width=rng.choice([3, 5, 20]))
            d = G.render_doc(rng, v, cfg, rich=True)
            docs.append(d)
            docs.append(G.mutate(rng, d))
            docs.append(d[:rng.randrange(1, len(d) + 1)])
        for _ in range(ndoc // 2):
            docs.append(G.gen_ext_doc(rng, cfg))
        # sets / maps in the sorted-strategy range with composite elements (address-ordered comparator territory)
        for n in (17, 40, 300, 1100):
            els = [b"[%d %d]" % (i, i) for i in range(n)]
            docs.append(b"#{" + b" ".join(els) + b"}")
            docs.append(b"#{" + b" ".join(els + [b"(7 7)"]) + b"}")
            docs.append(b"{" + b" ".join(b"{:k %d} %d" % (i, i) for i in range(n)) + b"}")
        planted = {}
        for n in (14, 17, 40, 300, 999, 1100):
            fl = b" ".join(b"%d" % i for i in range(n))
            for x, y in ((b"[:a/bc]", b"[:ab/c]"), (b"{1 2, 3 4}", b"{1 4, 3 2}"), (b"(a/bc 1)", b"(ab/c 1)")):
                docs.append(b"#{" + x + b" " + y + b" " + fl + b" " + x + b"}")
                docs.append(b"#{" + x + b" " + fl + b" " + y + b" " + x + b"}")
                docs.append(b"#{" + y + b" " + x + b" " + fl + b" " + y + b"}")
                docs.append(b"{" + x + b" 1 " + y + b" 2 " + b" ".join(b"%d %d" % (i, i) for i in range(n)) + b" " + x + b" 3}")
                for dd in docs[-4:]:
                    planted[dd] = True
                docs.append(b"#{" + x + b" " + y + b" " + fl + b"}")
                planted[docs[-1]] = False
        # inputs that end inside a marker / token, read with and without an end-of-input value (exercises flags that are only
        # written on some paths)
        tails = [b"#", b"#_", b"#_ignored #", b"  #", b"#_#", b"#foo", b"#_ x #", b"^", b"^:a", b"[1 #", b"\\", b"\"", b"1e", b"#:", b"##", b"[1 2", b"#_ 1", b"  "]
        docs += tails
        docs = [d for d in docs if d]
        opts = [rng.choice([0, 0, 1, 8, 9, 10, 12]) for _ in docs]
        for j in range(len(tails)):
            opts[-1 - j] = 1
        docs += tails
        opts += [0] * len(tails)
        lines = ["M %d %s" % (o, C.hexs(d)) for o, d in zip(opts, docs)]
        model, _ = K.run_model(cfg, ["R" + l[1:] for l in lines])
        # (a) builds
        outs = {}
        for b in BUILDS:
            o, crashes = K.run_impl(cfg, lines, mode=b, env={"MSAN_OPTIONS": "halt_on_error=1"})
            outs[b] = o
            rep.count("reads/%s/%s" % (b, cfg), len(lines))
            for idx, rc, err in crashes:
                found = True
                rep.finding("crash/" + b, "build %s crashed (exit %s)" % (b, rc), {"kind": "line", "config": cfg, "mode": b, "line": lines[idx], "stderr": err[-2000:]})
        ref = outs["o2"]
        # equal composites among hash-colliding ones: the verdict must not depend on where the arena put them
        for b in BUILDS:
            for i, o in enumerate(outs[b]):
                want = planted.get(docs[i])
                if o is None or want is None:
                    continue
                if o.startswith("err DUPLICATE") != want:
                    found = True
                    rep.finding("duplicate-verdict", "build %s: a %s was %s" % (b, "literal with an equal pair" if want else "duplicate-free literal", o[:60]),
                                {"kind": "line", "config": cfg, "mode": b, "line": lines[i], "observed": o[:300]})
                    break
        for b in BUILDS:
            for i, o in enumerate(outs[b]):
                if o is None or ref[i] is None:
                    continue
                if o != ref[i]:
                    found = True
                    rep.finding("builds-differ/" + b, "build %s and the -O2 build disagree" % b,
                                {"kind": "line2", "config": cfg, "modes": [b, "o2"], "line": lines[i], "observed": {b: o[:500], "o2": ref[i][:500]}})
                    break
        for i, o in enumerate(ref):
            if o is not None and model[i] is not None and strip_text(o) != model[i]:
                rep.broken_obligation("correspondence/read", "model %r vs code %r on %s" % (model[i][:300], o[:300], lines[i][:200]), False)
                break
        # (a') the bytes after `length` are not part of the input: documents ending where a reader function looks ahead
        edge = [b'"""', b'""', b'"', b'"a', b"#", b"##", b"##In", b"##Inf", b"1", b"-", b"1e", b"1.", b"1.5", b"12345678901234567890.5", b":a", b"a/", b"\\u00",
                b"\\new", b"\\newline", b"\\o1", b"\\u0041", b"#_", b"#_ 1", b"^", b"nil", b"tru", b"[1 2]", b"[1 2", b"#foo", b"#:a", b"#:a{", b"0x", b"0x1", b"1/", b"1/2",
                b"2r1", b"1N", b"1M", b"1_", b"1_0", b'"""\n a', b'"""\n a\n ', b'"""\n a\n "', b'"""\n a\n ""', b";c", b"a ;c"] + tails
        edge += [d for d in docs[:: max(1, len(docs) // 60)] if len(d) < 4000]
        if U.tail_independence(rep, cfg, edge, [b"\n", b"x", b'"""', b"f 1]", b"0", b"e5 ", b"\\", b"N", b"_1", b"/2", b"\x00"], mode="o2"):
            found = True
        # (b) history, heap fill pattern, read-only pages
        order = list(range(len(lines)))
        rng.shuffle(order)
        shuffled = [lines[i] for i in order]
        noise = ["M 0 %s" % C.hexs(G.render_doc(rng, G.gen_value(rng, cfg, depth=2, width=6), cfg, rich=False)) for _ in range(50)]
        variants = [("o2", {"MALLOC_PERTURB_": "165"}, ["P 0"]), ("o2", {"MALLOC_PERTURB_": "90"}, ["P 0"]), ("o2", {}, ["P 1"]),
                    ("o0", {"MALLOC_PERTURB_": "255"}, ["P 1"])]
        for vi, (b, env, prefix) in enumerate(variants):
            seq = []
            for j, l in enumerate(shuffled):
                seq.append(l)
                if j % 7 == 0:
                    seq.append(noise[j % len(noise)])
            o2, crashes = K.run_impl(cfg, seq, mode=b, prefix=prefix, env=env)
            rep.count("history-reads/%s/%d" % (cfg, vi), len(seq))
            for idx, rc, err in crashes:
                found = True
                rep.finding("crash/history", "crash in a history run (exit %s)" % rc, {"kind": "line", "config": cfg, "mode": b, "line": seq[idx], "stderr": err[-2000:]})
            got = {}
            k = 0
            for j, l in enumerate(shuffled):
                got[order[j]] = o2[k]
                k += 1
                if j % 7 == 0:
                    k += 1
            for i in range(len(lines)):
                if got.get(i) is None or ref[i] is None:
                    continue
                if got[i] != ref[i]:
                    found = True
                    rep.finding("history-dependent", "the result of a read depends on what was read before, on the heap fill pattern or on the placement (%s, %s, %s)" % (b, env, prefix),
                                {"kind": "line2", "config": cfg, "modes": [b, "o2"], "line": lines[i], "env": env, "prefix": prefix,
                                 "observed": {"variant": got[i][:500], "first-read": ref[i][:500]}})
                    break
        # (c) threads
        tdocs = [d for d in docs if len(d) < 4000][:300] + docs[-12:]
        # documents whose tags are registered in the shared registry, several of them in one bucket of its table
        # (my/id + inst, failq + ext): any write to the registry by a reader shows up as a race or a changed result
        for _ in range(120):
            v = G.gen_value(rng, cfg, depth=rng.choice([1, 2, 3]), width=4, tags=("id", "my/id", "inst", "ext", "my/id", "inst", "uuid", "failq"))
            tdocs.append(G.render_doc(rng, v, cfg, rich=False))
        tdocs.append(b"[" + b" ".join(b"#my/id %d #inst %d #ext %d" % (i, i, i) for i in range(40)) + b"]")
        tl = []
        for nt in (2, 4, 8, 16):
            for opt in (0, 8):
                part = rng.sample(tdocs[:-121], min(len(tdocs) - 121, 40)) + rng.sample(tdocs[-121:], 25) + tdocs[-1:]
                tl.append("T %d %d %d %s" % (nt, 3 if tier == "quick" else 10, opt, " ".join(C.hexs(d) for d in part)))
        for b in ("tsan", "o2"):
            # CPU limit: a reader that never returns (e.g. a corrupted shared structure) ends as a crash, not as a stuck check
            o, crashes = K.run_impl(cfg, tl, mode=b, nchunks=4, cpu_s=600, env={"TSAN_OPTIONS": "halt_on_error=1 second_deadlock_stack=1"})
            rep.count("thread-runs/%s/%s" % (b, cfg), len(tl))
            for idx, rc, err in crashes:
                found = True
                head = next((l for l in err.split("\n") if "WARNING: ThreadSanitizer" in l or "ERROR" in l), err.strip().split("\n")[0] if err.strip() else "")
                rep.finding("threads/race-or-crash", "%s (build %s, exit %s)" % (head[:200], b, rc), {"kind": "line", "config": cfg, "mode": b, "line": tl[idx][:20000], "stderr": err[-3000:]})
            for i, x in enumerate(o):
                if x is not None and not x.endswith(" ok"):
                    found = True
                    rep.finding("threads/mismatch", "a concurrent read returned something else than the single-threaded read: %s" % x[:200],
                                {"kind": "line", "config": cfg, "mode": b, "line": tl[i][:20000], "observed": x[:600]})
        # (d) writable globals
        bad = writable_globals(cfg)
        rep.count("objects-audited/" + cfg, len(C.SRC_FILES))
        if bad:
            found = True
            rep.finding("writable-global", "library objects hold writable globals besides the external-type table: %s" % bad[:5],
                        {"kind": "globals", "config": cfg, "symbols": bad})
        rep.note_cases(len(lines) * (len(BUILDS) + len(variants)) + len(tl) * 2, set(C.sha(l)[:16] for l in lines), sample={"line": lines[0][:200], "out": (ref[0] or "")[:200]})
    U.finish_proof(rep, lean, found)


def replay(path):
    r = json.load(open(path))
    print(json.dumps(r, indent=1)[:3000])
    if r.get("kind") == "line":
        out = C.run_lines(C.harness("unity", r["config"], r.get("mode", "o2")), [r["line"]], env={"TSAN_OPTIONS": "halt_on_error=1"})
        print("now:", out.outputs, out.returncode, out.stderr[-1500:])
        return 0
    if r.get("kind") == "line2":
        for m in r["modes"]:
            out = C.run_lines(C.harness("unity", r["config"], m), (r.get("prefix") or []) + [r["line"]], env=r.get("env") or {})
            print("now %s:" % m, out.outputs[-1:], out.returncode)
        return 0
    if r.get("kind") == "globals":
        print("now:", writable_globals(r["config"]))
        return 0
    return 1
