"""./check --setup : build everything that can be built ahead of time, offline."""
import os
import sys

from . import common as C


def run():
    C.prune_builds(C.repo_hash())
    C.gen_tables()
    jobs = [(s, c, m) for c in C.CFGS for (s, m) in [("unity", "san"), ("unity", "o2"), ("wrap", "san")]]
    C.parallel_map(lambda j: C.harness(*j), jobs)
    rc, out = C.lake(["build", "Edn", "edn_driver"])
    if rc != 0:
        print(out[-4000:])
        return 1
    props = sorted(f[:-5] for f in os.listdir(os.path.join(C.LEAN_DIR, "Edn", "Properties")) if f.endswith(".lean"))
    rc, out = C.lake(["build"] + ["Edn.Properties." + p for p in props])
    if rc != 0:
        # a failing proof is reported by the property's own check; setup still succeeds
        print(out[-4000:])
    print("setup done: %d harness builds, %d property modules" % (len(jobs), len(props)))
    return 0
