"""Generators: EDN values, renderings with trivia, expected canonical dumps (the
generator knows the value it rendered), corruptions with predicted error classes,
finite domains (structural alphabet, byte contexts)."""
import itertools
import math
import struct

WS_BYTES = [0x09, 0x0A, 0x0B, 0x0C, 0x0D, 0x1C, 0x1D, 0x1E, 0x1F, 0x20, 0x2C]  # the 11 whitespace bytes
DELIMS = set(WS_BYTES) | set(b'"#(),;[\\]{}') | {0x7F}
SYM_FIRST = "abcdefghijklmnopqrstuvwxyzABCDEFGHIJKLMNOPQRSTUVWXYZ*!_?$%&=<>|~'"
SYM_REST = SYM_FIRST + "0123456789.+-:"  # ':' only singly, handled below; '#' avoided (see finding a#b)


def hexs(b):
    return b.hex() if b else "-"


# --------------------------------------------------------------------------- values

def _ident(rng, maxlen=10, long_p=0.08):
    n = rng.randint(1, maxlen)
    if rng.random() < long_p:
        n = rng.randint(14, 40)
    s = rng.choice(SYM_FIRST)
    for _ in range(n - 1):
        c = rng.choice(SYM_REST)
        if c == ":" and s.endswith(":"):
            c = "x"
        s += c
    if s in ("nil", "true", "false"):
        s += "x"
    if s.endswith(":"):
        s += "y"
    return s


def gen_scalar(rng, cfg):
    k = rng.random()
    clj = cfg in ("clj", "both")
    if k < 0.06:
        return ("nil",)
    if k < 0.12:
        return ("bool", rng.random() < 0.5)
    if k < 0.30:
        r = rng.random()
        if r < 0.5:
            i = rng.randint(-1000, 1000)
        elif r < 0.8:
            i = rng.randint(-2 ** 63, 2 ** 63 - 1)
        else:
            i = rng.choice([0, 1, -1, 2 ** 63 - 1, -2 ** 63, 99999999, 100000000, 10 ** 16, -(10 ** 18), 2 ** 62])
        return ("int", i)
    if k < 0.35:
        mag = rng.choice([2 ** 63 + 1, 2 ** 64, 10 ** 19, 10 ** 30 + rng.randint(0, 10 ** 9), rng.randint(2 ** 63 + 1, 2 ** 70)])
        return ("bigint", rng.random() < 0.5, str(mag))
    if k < 0.38:
        return ("bigintN", rng.random() < 0.5, str(rng.randint(0, 10 ** rng.randint(1, 25))))
    if k < 0.50:
        return ("float", gen_float_text(rng))
    if k < 0.53:
        return ("bigdec", rng.random() < 0.4, gen_float_text(rng, unsigned=True))
    if k < 0.60:
        r = rng.random()
        if r < 0.6:
            cp = rng.choice([c for c in range(0x21, 0x7F)])
        elif r < 0.8:
            cp = rng.choice([0x0A, 0x0D, 0x20, 0x09])
        else:
            # incl. surrogate halves: a four-digit \\uXXXX character literal is core syntax for any XXXX
            cp = rng.choice([0x41, 0xE9, 0x3BB, 0x4E2D, 0xFFFF, 0x7F, 0, 0xD800, 0xDBFF, 0xDC00, 0xDFFF, 0xD83D, 0xE000, 0xFFFE])
        return ("char", cp)
    if k < 0.74:
        return ("str", gen_string_bytes(rng))
    if k < 0.86:
        ns = _ident(rng, 6) if rng.random() < 0.3 else None
        if rng.random() < 0.06:
            ns = rng.choice(["_", "_x", "__", "a_"])  # `_` is an ordinary identifier character in core EDN
        return ("kw", ns, _ident(rng))
    if k < 0.97:
        ns = _ident(rng, 6) if rng.random() < 0.3 else None
        name = _ident(rng) if rng.random() > 0.05 else rng.choice(["+", "-", "/", "*", "<=", "->x", ".", "+a", "-a"])
        if ns and name == "/":
            name = "x"
        if rng.random() < 0.06:
            ns = rng.choice(["_", "_x", "__", "a_"])
            if name == "/":
                name = "y"
        return ("sym", ns, name)
    if clj and rng.random() < 0.8:
        n = rng.randint(-10 ** 6, 10 ** 6)
        d = rng.randint(1, 10 ** 6)
        return ("ratio", n, d)
    return ("symf", rng.choice(["Inf", "-Inf", "NaN"]))


def gen_float_text(rng, unsigned=False):
    sign = "" if unsigned else rng.choice(["", "", "-", "+"])
    r = rng.random()
    if r < 0.5:
        ip = str(rng.randint(0, 10 ** rng.randint(1, 8)))
    elif r < 0.8:
        ip = str(rng.randint(0, 9))
    else:
        ip = str(rng.randint(10 ** 14, 10 ** rng.randint(15, 30)))
    frac = ""
    exp = ""
    if rng.random() < 0.75:
        frac = "." + "".join(rng.choice("0123456789") for _ in range(rng.randint(0, rng.choice([3, 8, 17, 25]))))
    if rng.random() < 0.4 or not frac:
        exp = rng.choice("eE") + rng.choice(["", "+", "-"]) + str(rng.randint(0, rng.choice([5, 22, 30, 320, 400])))
    return sign + ip + frac + exp


def gen_string_bytes(rng):
    n = rng.choice([0, 1, 3, 8, 14, 15, 16, 17, 30, 33, 70])
    out = bytearray()
    for _ in range(n):
        r = rng.random()
        if r < 0.75:
            out.append(rng.randint(0x20, 0x7E))
        elif r < 0.85:
            out.append(rng.choice([0x22, 0x5C, 0x0A, 0x09, 0x0D]))
        elif r < 0.9:
            out.extend("é".encode() if rng.random() < 0.5 else "中".encode())
        else:
            out.append(rng.choice([0x00, 0x01, 0x7F, 0x80, 0xFF, 0x08, 0x0C]))
    return bytes(out)


def canon(v):
    """Key under which two values are equal by EDN structural equality."""
    t = v[0]
    if t in ("list", "vec"):
        return ("seq", tuple(canon(x) for x in v[1]))
    if t == "set":
        return ("set", frozenset(canon(x) for x in v[1]))
    if t == "map":
        return ("map", frozenset((canon(k), canon(x)) for k, x in v[1]))
    if t == "tagged":
        return ("tagged", v[1], canon(v[2]))
    if t == "float":
        f = float(v[1])
        return ("float", "nan" if f != f else (0.0 if f == 0 else f))
    if t == "symf":
        return ("float", {"Inf": math.inf, "-Inf": -math.inf, "NaN": "nan"}[v[1]])
    if t in ("bigint", "bigintN"):
        return ("bigint", v[1], v[2])
    if t == "ratio":
        n, d = v[1], v[2]
        g = math.gcd(n, d)
        n, d = n // g, d // g
        if n == 0 or d == 1:
            return ("int", n)
        return ("ratio", n, d)
    if t == "meta":
        return canon(v[2])
    return v


def gen_value(rng, cfg, depth=3, width=5, tags=("inst", "uuid", "my/tag", "foo")):
    if depth <= 0 or rng.random() < 0.35:
        return gen_scalar(rng, cfg)
    k = rng.random()
    n = rng.choice([0, 1, 2, 3, width, width]) if width > 0 else 0
    if rng.random() < 0.03:
        n = rng.choice([9, 17, 20])
    if k < 0.3:
        return ("vec", [gen_value(rng, cfg, depth - 1, width, tags) for _ in range(n)])
    if k < 0.5:
        return ("list", [gen_value(rng, cfg, depth - 1, width, tags) for _ in range(n)])
    if k < 0.65:
        elems, seen = [], set()
        for _ in range(n):
            e = gen_value(rng, cfg, depth - 1, width, tags)
            c = canon(e)
            if c not in seen:
                seen.add(c)
                elems.append(e)
        return ("set", elems)
    if k < 0.9:
        ents, seen = [], set()
        for _ in range(n):
            kk = gen_value(rng, cfg, min(depth - 1, 1), 2, tags)
            c = canon(kk)
            if c not in seen:
                seen.add(c)
                ents.append((kk, gen_value(rng, cfg, depth - 1, width, tags)))
        return ("map", ents)
    return ("tagged", rng.choice(tags), gen_value(rng, cfg, depth - 1, width, tags))


# --------------------------------------------------------------------------- rendering

def gen_trivia(rng, cfg, must=False, rich=True, depth=0):
    """A trivia string.  must=True: non-empty and starting with something that terminates
    any token (a whitespace byte)."""
    r = rng.random()
    if not must and r < 0.3:
        return b""
    out = bytearray()
    if not rich:
        return b" "
    n = rng.choice([1, 1, 1, 2, 3, 17, 40]) if rng.random() < 0.9 else rng.randint(1, 40)
    if rng.random() < 0.5:
        out.extend(b" " * min(n, 3))
    else:
        for _ in range(n):
            out.append(rng.choice(WS_BYTES))
    x = rng.random()
    if x < 0.12:
        out.extend(b";" + bytes(rng.choice(b" abc;\"[]{}#\\") for _ in range(rng.randint(0, 20))) + b"\n")
    elif x < 0.2 and depth < 2:
        inner = gen_value(rng, cfg, 1, 2)
        out.extend(b"#_" + gen_trivia(rng, cfg, False, True, depth + 1) + render(rng, inner, cfg, rich=False) + b" ")
    return bytes(out)


def render_string(rng, b, cfg, escapes=True):
    out = bytearray(b'"')
    clj = cfg in ("clj", "both")
    for c in b:
        if c == 0x22:
            out.extend(b'\\"')
        elif c == 0x5C:
            out.extend(b"\\\\")
        elif escapes and c == 0x0A and rng.random() < 0.6:
            out.extend(b"\\n")
        elif escapes and c == 0x09 and rng.random() < 0.6:
            out.extend(b"\\t")
        elif escapes and c == 0x0D and rng.random() < 0.6:
            out.extend(b"\\r")
        elif escapes and clj and c == 0x0C and rng.random() < 0.6:
            out.extend(b"\\f")
        elif escapes and clj and c == 0x08 and rng.random() < 0.6:
            out.extend(b"\\b")
        elif escapes and clj and c < 0x80 and rng.random() < 0.05:
            out.extend(b"\\u%04x" % c)
        else:
            out.append(c)
    out.append(0x22)
    return bytes(out)


def render_char(rng, cp, cfg):
    exp = cfg in ("exp", "both")
    named = {0x0A: b"newline", 0x0D: b"return", 0x20: b"space", 0x09: b"tab"}
    if cp in named:
        return b"\\" + named[cp]
    if 0x21 <= cp <= 0x7E and rng.random() < 0.8:
        return b"\\" + bytes([cp])
    if cp > 0xFFFF and exp:
        return b"\\u%05X" % cp
    return (b"\\u%04x" if rng.random() < 0.5 else b"\\u%04X") % (cp & 0xFFFF)


def render(rng, v, cfg, rich=True):
    t = v[0]
    if t == "nil":
        return b"nil"
    if t == "bool":
        return b"true" if v[1] else b"false"
    if t == "int":
        s = str(v[1])
        if v[1] >= 0 and rng.random() < 0.1:
            s = "+" + s
        return s.encode()
    if t == "bigint":
        return (("-" if v[1] else "") + v[2]).encode()
    if t == "bigintN":
        return (("-" if v[1] else "") + v[2] + "N").encode()
    if t == "float":
        return v[1].encode()
    if t == "bigdec":
        return (("-" if v[1] else "") + v[2] + "M").encode()
    if t == "ratio":
        return ("%d/%d" % (v[1], v[2])).encode()
    if t == "symf":
        return b"##" + v[1].encode()
    if t == "char":
        return render_char(rng, v[1], cfg)
    if t == "str":
        return render_string(rng, v[1], cfg)
    if t == "sym":
        return ((v[1] + "/") if v[1] else "").encode() + v[2].encode()
    if t == "kw":
        return b":" + ((v[1] + "/") if v[1] else "").encode() + v[2].encode()
    if t in ("list", "vec", "set"):
        op, cl = {"list": (b"(", b")"), "vec": (b"[", b"]"), "set": (b"#{", b"}")}[t]
        return op + render_seq(rng, v[1], cfg, rich) + cl
    if t == "map":
        flat = []
        for k, x in v[1]:
            flat.append(k)
            flat.append(x)
        return b"{" + render_seq(rng, flat, cfg, rich) + b"}"
    if t == "tagged":
        return b"#" + v[1].encode() + gen_trivia(rng, cfg, must=True, rich=rich) + render(rng, v[2], cfg, rich)
    raise ValueError(t)


def needs_sep(prev_bytes, next_bytes):
    """Is a separator required between two adjacent forms?  Conservative: only closing
    and opening structure never needs one."""
    if not prev_bytes or not next_bytes:
        return False
    a, b = prev_bytes[-1], next_bytes[0]
    if a == 0x22 and b == 0x22:
        return True  # `""` directly followed by `"<LF>` would spell a text-block opener
    if a in b")]}\"" and b in b"([{\"":
        return False
    return True


def render_seq(rng, xs, cfg, rich=True):
    out = bytearray(gen_trivia(rng, cfg, False, rich))
    prev = b""
    for x in xs:
        r = render(rng, x, cfg, rich)
        if prev:
            must = needs_sep(prev, r)
            tv = gen_trivia(rng, cfg, must, rich)
            out.extend(tv)
        out.extend(r)
        prev = r
    out.extend(gen_trivia(rng, cfg, False, rich))
    return bytes(out)


def render_doc(rng, v, cfg, rich=True):
    lead = gen_trivia(rng, cfg, False, rich)
    body = render(rng, v, cfg, rich)
    tail = gen_trivia(rng, cfg, False, rich) if rng.random() < 0.5 else b""
    # a token at the end of the document needs no terminator; trailing trivia must start
    # with a terminator if the last token needs one
    if tail and body[-1:] not in b")]}\"" and tail[:1] not in bytes(WS_BYTES) + b";":
        tail = b" " + tail
    return lead + body + tail


# --------------------------------------------------------------------------- expected dump

def float_bits(text):
    f = float(text)
    if f != f:
        return "7ff8000000000000"
    return struct.pack(">d", f).hex()


def expected_dump(v, cfg):
    """Canonical dump without ranges, as harness/edn_harness.c prints it with `D 0`."""
    t = v[0]
    if t == "nil":
        return "(nil)"
    if t == "bool":
        return "(bool %d)" % (1 if v[1] else 0)
    if t == "int":
        return "(int %d)" % v[1]
    if t in ("bigint", "bigintN"):
        return "(bigint %d 10 %s)" % (1 if v[1] else 0, hexs(v[2].encode()))
    if t == "float":
        return "(float %s)" % float_bits(v[1])
    if t == "symf":
        return "(float %s)" % {"Inf": "7ff0000000000000", "-Inf": "fff0000000000000", "NaN": "7ff8000000000000"}[v[1]]
    if t == "bigdec":
        return "(bigdec %d %s)" % (1 if v[1] else 0, hexs(v[2].encode()))
    if t == "ratio":
        c = canon(v)
        if c[0] == "int":
            return "(int %d)" % c[1]
        return "(ratio %d %d)" % (c[1], c[2])
    if t == "char":
        return "(char %d)" % v[1]
    if t == "str":
        return "(str %d %s)" % (len(v[1]), hexs(v[1]))
    if t in ("sym", "kw"):
        return "(%s %s %s)" % (t, hexs(v[1].encode()) if v[1] else "_", hexs(v[2].encode()))
    if t in ("list", "vec", "set"):
        return "(" + " ".join([t] + [expected_dump(x, cfg) for x in v[1]]) + ")"
    if t == "map":
        parts = ["map"]
        for k, x in v[1]:
            parts.append(expected_dump(k, cfg))
            parts.append(expected_dump(x, cfg))
        return "(" + " ".join(parts) + ")"
    if t == "tagged":
        return "(tagged %s %s)" % (hexs(v[1].encode()), expected_dump(v[2], cfg))
    raise ValueError(t)


# --------------------------------------------------------------------------- finite domains

SIGMA24 = [b"(", b")", b"[", b"]", b"{", b"}", b"#", b"_", b"^", b":", b"/", b"\\", b'"', b";", b" ", b"\n", b",",
           b"0", b"1", b"a", b"-", b".", b"N", b"e"]


def strings_over(alphabet, maxlen, minlen=0):
    for n in range(minlen, maxlen + 1):
        for tup in itertools.product(alphabet, repeat=n):
            yield b"".join(tup)


BYTE_CONTEXTS = [
    (b"", b""), (b"", b" 1"), (b"[", b"]"), (b"[", b" 1]"), (b"a", b""), (b"a", b" "), (b"abcdefghijklmno", b""),
    (b"abcdefghijklmnop", b" "), (b"abcdefghijklmnopq", b"]"), (b"12", b""), (b"12", b" "), (b"1.5", b""),
    (b"\\a", b""), (b"\\newline", b""), (b"\"x", b"\""), (b"\"\\", b"\""), (b"#", b" 1"), (b"#a", b" 1"),
    (b"#_", b" 1"), (b":", b""), (b":a", b""), (b"^", b" [1]"), (b";", b"\n1"), (b"\"x\"", b""), (b"1 ", b"]"),
    (b"-", b""), (b"+", b"1"), (b"##", b"Inf"), (b"1e", b"1"), (b"1/", b"2"), (b"{:a ", b"}"), (b"\\u00", b"41"),
    (b"\\", b""), (b"[\\", b"]"), (b"0", b""), (b"0", b"1"),
]


def byte_context_docs():
    for pre, suf in BYTE_CONTEXTS:
        for b in range(256):
            yield pre + bytes([b]) + suf


# --------------------------------------------------------------------------- corruptions

def corruptions(rng, doc, cfg, limit=40):
    """Single-edit corruptions of a well-formed collection document `doc` (bytes, no
    trailing trivia) with the error class predicted for each.  Yields
    (bytes, expected_codes_set, family)."""
    n = len(doc)
    opens = {0x28: 0x29, 0x5B: 0x5D, 0x7B: 0x7D}
    # truncation at every offset strictly inside the outermost form
    cuts = list(range(1, n))
    rng.shuffle(cuts)
    for k in cuts[:limit]:
        yield doc[:k], None, "truncate"  # class checked by the caller with a scanner-aware rule
    # stray closer appended after a complete form is not an error for edn_read (single value)
    # stray closer in front
    for c in b")]}":
        yield bytes([c]) + b" " + doc, {"UNMATCHED_DELIMITER"}, "stray-closer"


# --------------------------------------------------------------------------- extension syntax and malformed streams

def ext_snippet(rng, cfg, depth=2):
    """One form written with extension syntax (for correspondence runs; no expected dump)."""
    clj = cfg in ("clj", "both")
    exp = cfg in ("exp", "both")
    choices = []
    if clj:
        choices += ["meta", "meta", "nsmap", "nsmap", "radix", "ratio", "cljchar", "cljstr"]
    if exp:
        choices += ["textblock", "textblock", "underscore", "expchar"]
    if not choices:
        return render(rng, gen_value(rng, cfg, depth), cfg)
    k = rng.choice(choices)
    sub = lambda d=1: render(rng, gen_value(rng, cfg, d, 3), cfg, rich=rng.random() < 0.3)
    if k == "meta":
        n = rng.choice([1, 1, 2, 3, 6])
        out = b""
        for _ in range(n):
            a = rng.choice(["map", "kw", "str", "sym", "vec", "bad"])
            if a == "map":
                ann = b"{" + b" ".join(rng.choice([b":a", b":b", b":tag", b":c", b"\"s\"", b"x"]) + b" " + sub(0) for _ in range(rng.randint(0, 3))) + b"}"
                # duplicate keys in the annotation map would be rejected; keep distinct
                seen, parts = set(), []
                for kk in [b":a", b":b", b":tag", b":param-tags", b"x"]:
                    if rng.random() < 0.5 and kk not in seen:
                        seen.add(kk)
                        parts.append(kk + b" " + sub(0))
                ann = b"{" + b" ".join(parts) + b"}"
            elif a == "kw":
                ann = rng.choice([b":a", b":b", b":private", b":ns/k", b":tag"])
            elif a == "str":
                ann = rng.choice([b"\"String\"", b"\"\""])
            elif a == "sym":
                ann = rng.choice([b"String", b"a/b", b"x"])
            elif a == "vec":
                ann = b"[" + sub(0) + b"]"
            else:
                ann = rng.choice([b"5", b"(1)", b"#{1}", b"nil", b"\\a"])
            out += b"^" + rng.choice([b"", b" "]) + ann + rng.choice([b" ", b"  ", b"\n"])
        target = rng.choice(["coll", "coll", "sym", "tagged", "bad"])
        if target == "coll":
            t = render(rng, gen_value(rng, cfg, 1, 3), cfg, rich=False)
            if t[:1] not in b"([{#":
                t = b"[" + t + b"]"
        elif target == "sym":
            t = rng.choice([b"foo", b"a/b", b"+"])
        elif target == "tagged":
            t = b"#inst " + sub(0)
        else:
            t = rng.choice([b"5", b":kw", b"\"s\"", b"nil", b"", b"]"])
        return out + t
    if k == "nsmap":
        pre = rng.choice([b"ns", b"a.b", b"x", b"ns/bad", b""])
        keys = [b":a", b":b", b":_/c", b":other/d", b"sym", b"_/s", b"o/t", b"\"str\"", b"5", b":ns/a", b":a"]
        rng.shuffle(keys)
        body = b" ".join(kk + b" " + sub(0) for kk in keys[: rng.randint(0, 5)])
        return b"#:" + pre + rng.choice([b"", b" ", b"\n"]) + b"{" + body + rng.choice([b"}", b"}", b"]", b""])
    if k == "radix":
        return rng.choice([b"0x", b"0X", b"0", b"00", b"2r", b"8r", b"16r", b"36r", b"36R", b"1r", b"37r", b"-0x", b"+017"]) + \
            bytes(rng.choice(b"0123456789abcdefABCDEFzZ_") for _ in range(rng.randint(0, 20))) + rng.choice([b"", b"N", b"M", b"/2"])
    if k == "ratio":
        n = rng.choice([rng.randint(-50, 50), rng.randint(-2 ** 63, 2 ** 63 - 1), -2 ** 63, 2 ** 63, 10 ** 25, 0])
        d = rng.choice([1, 2, 3, rng.randint(1, 100), 2 ** 63 - 1, 2 ** 63, 10 ** 22, 0])
        return ("%d/%s%d" % (n, rng.choice(["", "", "0"]), d)).encode() + rng.choice([b"", b"", b"N", b"/3", b"x"])
    if k == "cljchar":
        return rng.choice([b"\\formfeed", b"\\backspace", b"\\o0", b"\\o7", b"\\o12", b"\\o377", b"\\o400", b"\\o18", b"\\o8", b"\\o1234", b"\\o", b"\\o77x"])
    if k == "cljstr":
        return b'"' + b"".join(rng.choice([b"a", b"\\f", b"\\b", b"\\u0041", b"\\u00e9", b"\\ud800", b"\\u12", b"\\uzzzz", b"\\0", b"\\7", b"\\12", b"\\101",
                                               b"\\377", b"\\400", b"\\8", b"\\n", b"\\q", b"\\\\", b"\\\""]) for _ in range(rng.randint(0, 6))) + b'"'
    if k == "textblock":
        return gen_text_block(rng)
    if k == "underscore":
        return rng.choice([b"1_000", b"1__0", b"1_", b"_1", b"1_.5", b"1._5", b"1.5_", b"1.5_5e1_0", b"1_e5", b"1e_5", b"1e5_", b"1_N", b"1_000N",
                           b"1_0.2_5M", b"12345678_9", b"1_2345678_12345678", b"123456789_123456789_1", b"9_223372036854775807", b"9223372036854775_808",
                           b"-9223372036854775_808", b"0_1", b"1_0/2", b"0x1_F", b"01_7", b"2r1_0"])
    if k == "expchar":
        return rng.choice([b"\\u00041", b"\\u000041", b"\\u0000411", b"\\u10FFFF", b"\\u110000", b"\\uFFFFF", b"\\u0041g", b"\\u004"])
    return sub()


def gen_text_block(rng, wellformed=None):
    nlines = rng.choice([0, 1, 2, 3, 4, 6, 12])
    lines = []
    for _ in range(nlines):
        r = rng.random()
        indent = rng.choice([b"", b"", b" ", b"  ", b"    ", b"\t", b" \t", b" " * rng.randint(0, 20)])
        if r < 0.15:
            lines.append(b"")
        elif r < 0.3:
            lines.append(indent)
        else:
            body = b"".join(rng.choice([b"a", b"bc", b" ", b"x y", b"\"", b"\"\"", b"\\\"\"\"", b"\\", b"\\n", b"\t", b"SELECT * FROM t", b"0123456789abcdef"])
                            for _ in range(rng.randint(1, 5)))
            lines.append(indent + body + rng.choice([b"", b"", b" ", b"  \t"]))
    closing = rng.choice(["own", "own", "inline", "none", "eofline"]) if wellformed is None else ("own" if wellformed else "none")
    out = b'"""\n'
    if closing == "own":
        out += b"".join(l + b"\n" for l in lines) + rng.choice([b"", b"  ", b"\t", b"    "]) + b'"""'
    elif closing == "inline":
        if not lines:
            lines = [b"x"]
        out += b"\n".join(lines) + b'"""'
    elif closing == "none":
        out += b"".join(l + b"\n" for l in lines)
    else:
        out += b"\n".join(lines)
    return out


STRUCT = [b"(", b")", b"[", b"]", b"{", b"}", b"#{", b"#_", b"#", b"^", b"\"", b"\\", b";", b" ", b"\n", b":", b"/", b"0", b"1", b"a", b"-", b".", b"N", b"e", b"##", b"\x00", b"\xff"]


def mutate(rng, doc):
    """A malformed (or accidentally still well-formed) variant of a document."""
    if not doc:
        return rng.choice(STRUCT)
    k = rng.random()
    i = rng.randrange(len(doc))
    if k < 0.25:
        return doc[:i]
    if k < 0.45:
        return doc[:i] + doc[i + 1:]
    if k < 0.7:
        return doc[:i] + rng.choice(STRUCT) + doc[i + 1:]
    if k < 0.9:
        return doc[:i] + rng.choice(STRUCT) + doc[i:]
    j = rng.randrange(len(doc))
    a, b = min(i, j), max(i, j)
    return doc[:a] + doc[b:]


def gen_ext_doc(rng, cfg):
    """A document mixing generated core values with extension-syntax snippets."""
    parts = []
    for _ in range(rng.randint(1, 4)):
        if rng.random() < 0.6:
            parts.append(ext_snippet(rng, cfg))
        else:
            parts.append(render(rng, gen_value(rng, cfg, 2, 3), cfg, rich=False))
    r = rng.random()
    if len(parts) == 1 and r < 0.5:
        return parts[0]
    op, cl = rng.choice([(b"[", b"]"), (b"(", b")"), (b"#{", b"}"), (b"{", b"}")])
    return op + b" ".join(parts) + cl
