"""Reads the project's published grammars (docs/grammar/*.ebnf, ISO-14977 style) on every
run and samples derivations from them (property C03: every document derivable from the
grammar is accepted).  Elements inside collections are always separated by spacing, as the
property's quantifier says."""
import os
import re

from . import common as C


class Node:
    def __init__(self, kind, *args):
        self.kind = kind
        self.args = list(args)

    def __repr__(self):
        return "%s(%s)" % (self.kind, ", ".join(map(repr, self.args)))


TOKEN = re.compile(r"""\s*(?:(\(\*.*?\*\))|("(?:[^"])*")|('(?:[^'])*')|(\?[^?]*\?)|([A-Za-z][A-Za-z0-9_]*)|(\}-)|([=,;|\-\[\]{}()]))""", re.S)


def tokenize(text):
    pos, out = 0, []
    while pos < len(text):
        m = TOKEN.match(text, pos)
        if not m:
            if text[pos:].strip() == "":
                break
            raise ValueError("bad grammar text at %r" % text[pos:pos + 30])
        pos = m.end()
        if m.group(1):
            continue
        if m.group(2) is not None:
            out.append(("T", unescape(m.group(2)[1:-1])))
        elif m.group(3) is not None:
            out.append(("T", unescape(m.group(3)[1:-1])))
        elif m.group(4) is not None:
            out.append(("S", m.group(4)[1:-1].strip()))
        elif m.group(5) is not None:
            out.append(("N", m.group(5)))
        elif m.group(6) is not None:
            out.append(("P", "}-"))
        else:
            out.append(("P", m.group(7)))
    return out


def unescape(s):
    s = s.replace("\\t", "\t").replace("\\n", "\n").replace("\\r", "\r").replace("\\f", "\f")
    s = re.sub(r"\\u([0-9A-Fa-f]{4})", lambda m: chr(int(m.group(1), 16)), s)
    return s.encode("latin-1")


def parse(text):
    toks = tokenize(text)
    i = [0]

    def peek():
        return toks[i[0]] if i[0] < len(toks) else ("E", "")

    def eat(v=None):
        t = peek()
        if v is not None and t[1] != v:
            raise ValueError("expected %r, got %r at token %d" % (v, t, i[0]))
        i[0] += 1
        return t

    def alt():
        xs = [seq()]
        while peek() == ("P", "|"):
            eat()
            xs.append(seq())
        return xs[0] if len(xs) == 1 else Node("alt", *xs)

    def seq():
        xs = [exc()]
        while peek() == ("P", ","):
            eat()
            xs.append(exc())
        return xs[0] if len(xs) == 1 else Node("seq", *xs)

    def exc():
        a = prim()
        if peek() == ("P", "-"):
            eat()
            b = prim()
            return Node("except", a, b)
        return a

    def prim():
        t = eat()
        if t[0] == "T":
            return Node("term", t[1])
        if t[0] == "S":
            return Node("special", t[1])
        if t[0] == "N":
            return Node("ref", t[1])
        if t == ("P", "("):
            e = alt()
            eat(")")
            return e
        if t == ("P", "["):
            e = alt()
            eat("]")
            return Node("opt", e)
        if t == ("P", "{"):
            e = alt()
            t2 = eat()
            if t2 == ("P", "}-"):
                return Node("plus", e)
            if t2 != ("P", "}"):
                raise ValueError("expected }")
            return Node("star", e)
        raise ValueError("unexpected %r" % (t,))

    rules = {}
    order = []
    while i[0] < len(toks):
        name = eat()
        if name[0] != "N":
            raise ValueError("rule name expected, got %r" % (name,))
        eat("=")
        rules[name[1]] = alt()
        order.append(name[1])
        eat(";")
    return rules, order


def load(which="edn_grammar.ebnf"):
    path = os.path.join(C.REPO, "docs", "grammar", which)
    return parse(open(path, encoding="utf-8").read())


ALNUM = b"abcdefghijklmnopqrstuvwxyzABCDEFGHIJKLMNOPQRSTUVWXYZ0123456789"
ALPHA = ALNUM[:52]
DIGITS = b"0123456789"


class Sampler:
    """Random derivations.  `features` collects the grammar features of a derivation that are
    known to be read differently by the implementation (see known_findings.json)."""

    def __init__(self, rules, rng, cfg="core"):
        self.rules = rules
        self.rng = rng
        self.cfg = cfg
        self.features = set()

    def special(self, text, ctx):
        t = text.lower()
        r = self.rng
        if "end of input" in t:
            return None  # only possible at the very end: never chosen mid-document
        if "any char" in t and "character" not in t:
            x = r.random()
            if x < 0.9:
                return bytes([r.choice(b"abcxyzABC019!$%&*+-./:<=>?_|'^")])
            return r.choice(["é", "λ"]).encode("utf-8")
        if "any character" in t:
            x = r.random()
            if x < 0.88:
                return bytes([r.choice(b"abcxyzABC019 !$%&*+-./:<=>?_|~()[]{}#;,'^@`")])
            if x < 0.94:
                return bytes([r.choice([0x0B, 0x0C, 0x1C, 0x7F, 0x01, 0x09])])
            self.features.add("non-ascii-character")
            return r.choice(["é", "λ", "中", "😀"]).encode("utf-8")
        if "decimal digit" in t or "decimaldigit" in t:
            return bytes([r.choice(DIGITS)])
        if "0-6" in t:
            return bytes([r.choice(b"0123456")])
        if "alphanumeric" in t:
            return bytes([r.choice(ALNUM)])
        if "alpha" in t:
            return bytes([r.choice(ALPHA)])
        if "0-9, a-f" in t or "0-9, a-z" in t:
            return bytes([r.choice(b"0123456789abcdefABCDEF")])
        if "0-7" in t:
            return bytes([r.choice(b"01234567")])
        if "0-3" in t:
            return bytes([r.choice(b"0123")])
        if "rfc-3339" in t:
            return b"\"2020-01-01T00:00:00Z\""
        if "uuid" in t:
            return b"\"f81d4fae-7dec-11d0-a765-00a0c91e6bf6\""
        raise ValueError("unknown special sequence " + text)

    def finite(self, node, limit=64):
        """the finite language of a lexical node, or None"""
        k = node.kind
        if k == "term":
            return {node.args[0]}
        if k == "alt":
            out = set()
            for a in node.args:
                f = self.finite(a, limit)
                if f is None:
                    return None
                out |= f
            return out
        if k == "ref":
            return self.finite(self.rules[node.args[0]], limit)
        if k == "special":
            t = node.args[0].lower()
            if "decimal digit" in t or "decimaldigit" in t:
                return {bytes([d]) for d in DIGITS}
            if "end of input" in t:
                return {b""}
            return None
        return None

    def gen(self, node, depth, ctx=""):
        k = node.kind
        r = self.rng
        if k == "term":
            return node.args[0]
        if k == "special":
            s = self.special(node.args[0], ctx)
            return s
        if k == "ref":
            name = node.args[0]
            if name == "DiscardSequence" and ctx == "noelem":
                return None
            sub_ctx = "noelem" if (ctx == "noelem" and name == "EdnElement") else name
            out = self.gen(self.rules[name], depth - (1 if name == "EdnElement" else 0), sub_ctx)
            if out is not None and name in ("Symbol", "Keyword", "Tag"):
                body = out[1:] if name == "Keyword" else out
                if b"#" in body:
                    self.features.add("hash-in-identifier")
                if b"::" in out[(1 if name == "Keyword" else 0):]:
                    self.features.add("double-colon-in-identifier")
            if out is not None and name == "Comment" and out.endswith(b"\r"):
                self.features.add("comment-ended-by-cr")
            if out is not None and name == "Keyword" and out == b":/":
                self.features.add("keyword-slash")
            if out is not None and name == "Keyword" and out.startswith(b"::"):
                self.features.add("double-colon-in-identifier")
            if out is not None and name == "RadixInteger":
                radix = int(out.split(b"r")[0])
                digs = out.split(b"r", 1)[1]
                if any(int(chr(c), 36) >= radix for c in digs):
                    self.features.add("radix-digit-out-of-range")
            if out is not None and name in ("UnicodeEscape", "HexadecimalInteger"):
                body = out[1:] if name == "UnicodeEscape" else out[2:].rstrip(b"N")
                if any(c not in b"0123456789abcdefABCDEF" for c in body):
                    self.features.add("hex-digit-out-of-range")
                if name == "UnicodeEscape" and 0xD800 <= int(body, 16) <= 0xDFFF if all(c in b"0123456789abcdefABCDEF" for c in body) else False:
                    self.features.add("surrogate-escape")
            if out is not None and name == "TaggedElement" and out.startswith(b"#_"):
                self.features.add("tag-underscore")
            if out is not None and name in ("Symbol", "Keyword", "KeywordPrefix") and b"^" in out and self.cfg in ("clj", "both"):
                self.features.add("caret-in-identifier")
            if out is not None and name == "KeywordPrefix" and (b"::" in out or out.startswith(b":")):
                self.features.add("double-colon-in-identifier")
            if out is not None and name == "DiscardSequence":
                rest = out[2:]
                while True:  # skip blanks and comments between the marker and what it discards
                    rest = rest.lstrip(b" \t\r\n,\x0b\x0c\x1c\x1d\x1e\x1f")
                    if rest.startswith(b";"):
                        cut = min([i for i in (rest.find(b"\n"), rest.find(b"\r")) if i >= 0] or [len(rest)])
                        rest = rest[cut + 1:]
                        continue
                    break
                if rest.startswith(b"#_"):
                    self.features.add("discard-of-discard")
            if out is not None and name == "Map" and out.startswith(b"#:") and b"{" in out and b"/" in out[2:out.index(b"{")]:
                self.features.add("nsmap-prefix-with-slash")
            if out is not None and name == "MetadataSequence":
                self.features.add("metadata-any-element")
            return out
        if k == "seq":
            parts = []
            for a in node.args:
                p = self.gen(a, depth, ctx)
                if p is None:
                    return None
                parts.append(p)
            return b"".join(parts)
        if k == "alt":
            alts = list(node.args)
            if depth <= 0:
                # prefer non-recursive alternatives
                simple = [a for a in alts if a.kind != "ref" or a.args[0] not in ("List", "Vector", "Map", "Set", "TaggedElement", "DiscardSequence", "MetadataSequence", "NamespacedMap")]
                alts = simple or alts
            for _ in range(20):
                a = r.choice(alts)
                p = self.gen(a, depth, ctx)
                if p is not None:
                    return p
            return None
        if k == "opt":
            if node.args[0].kind == "ref" and node.args[0].args[0] == "Spacing":
                # "with elements separated by spacing": optional spacing between forms is always written
                return self.gen(node.args[0], depth, ctx) or b" "
            if r.random() < 0.5:
                return b""
            p = self.gen(node.args[0], depth, ctx)
            return b"" if p is None else p
        if k in ("star", "plus"):
            inner = node.args[0]
            n = r.choice([0, 1, 2, 3]) if k == "star" else r.choice([1, 1, 2, 3])
            # collection bodies: { Spacing | X }: separate consecutive X by Spacing
            if inner.kind == "alt" and any(a.kind == "ref" and a.args[0] == "Spacing" for a in inner.args):
                elems = [a for a in inner.args if not (a.kind == "ref" and a.args[0] == "Spacing") and not (a.kind == "special")]
                out = b""
                cnt = r.choice([0, 1, 2, 3]) if depth > 0 else r.choice([0, 1])
                sp = self.rules["Spacing"]
                if r.random() < 0.3:
                    out += self.gen(sp, depth) or b" "
                for j in range(cnt):
                    e = self.gen(r.choice(elems), depth - 1, "")
                    if e is None:
                        continue
                    out += e
                    s = self.gen(sp, depth)
                    out += s if s else b" "
                return out
            parts = []
            for _ in range(n):
                p = self.gen(inner, depth, ctx)
                if p is None:
                    if k == "plus" and not parts:
                        return None
                    break
                parts.append(p)
            if k == "plus" and not parts:
                return None
            return b"".join(parts)
        if k == "except":
            a, b = node.args
            if a.kind == "ref" and a.args[0] == "EdnElement" and b.kind == "ref" and b.args[0] == "DiscardSequence":
                return self.gen(a, depth, "noelem")
            fin = self.finite(b)
            for _ in range(50):
                p = self.gen(a, depth, ctx)
                if p is None:
                    continue
                if fin is not None:
                    if p not in fin:
                        return p
                else:
                    raise ValueError("cannot decide exception %r" % (b,))
            return None
        raise ValueError(k)

    def document(self, depth=3):
        """one EdnElement, optionally surrounded by spacing"""
        self.features = set()
        for _ in range(50):
            e = self.gen(self.rules["EdnElement"], depth, "noelem")
            if e is not None:
                lead = (self.gen(self.rules["Spacing"], 0) or b"") if self.rng.random() < 0.3 else b""
                return lead + e, set(self.features)
        return b"nil", set()
