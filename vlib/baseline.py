"""Runs the repository's own test suite from a scratch build (no verification guard
defined - the machinery needs no source hooks) and compares the PASS lines with
/root/.vp/BASELINE.json."""
import json
import os
import shutil
import subprocess
import tempfile

from . import common as C


def run(cfg="core"):
    scratch = tempfile.mkdtemp(prefix="edn_baseline_")
    try:
        opts = []
        if cfg in ("clj", "both"):
            opts.append("-DEDN_ENABLE_CLOJURE_EXTENSION=ON")
        if cfg in ("exp", "both"):
            opts.append("-DEDN_ENABLE_EXPERIMENTAL_EXTENSION=ON")
        r = subprocess.run(["cmake", "-G", "Ninja", "-S", C.REPO, "-B", scratch] + opts, stdout=subprocess.PIPE,
                           stderr=subprocess.STDOUT, text=True)
        if r.returncode != 0:
            print(r.stdout[-3000:])
            return 2
        targets = sorted(f[:-2] for f in os.listdir(os.path.join(C.REPO, "test")) if f.startswith("test_") and f.endswith(".c"))
        r = subprocess.run(["cmake", "--build", scratch, "--"] + targets, stdout=subprocess.PIPE,
                           stderr=subprocess.STDOUT, text=True)
        if r.returncode != 0:
            print(r.stdout[-4000:])
            return 2
        passed, failed = set(), set()
        for t in targets:
            exe = os.path.join(scratch, t)
            try:
                p = subprocess.run([exe], stdout=subprocess.PIPE, stderr=subprocess.STDOUT, text=True, timeout=900)
                out = p.stdout
            except subprocess.TimeoutExpired:
                out = ""
                failed.add("TIMEOUT " + t)
            for line in out.split("\n"):
                s = line.strip()
                if s.startswith("Running test_") and "..." in s:
                    name = s.split("...")[0].strip()
                    if s.endswith("PASS"):
                        passed.add(name)
                    else:
                        failed.add(name)
        base = json.load(open("/root/.vp/BASELINE.json"))
        want = set(base["stable_pass"])
        missing = sorted(want - passed)
        print("baseline cfg=%s: %d passed, %d failed, %d of %d baseline tests pass" % (
            cfg, len(passed), len(failed), len(want & passed), len(want)))
        if cfg == "core":
            for m in missing[:40]:
                print("MISSING/FAILED:", m)
            return 0 if not missing else 1
        for f in sorted(failed)[:40]:
            print("FAILED:", f)
        return 0 if not failed else 1
    finally:
        shutil.rmtree(scratch, ignore_errors=True)
